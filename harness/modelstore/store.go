// Package modelstore is the harness's implementation of op.Storage (+ the optional
// capabilities). It implements exactly what pkg/op/storage.go documents, keeps a journal
// of every storage call, can fail any call on demand (fault plan) and exposes its content
// for projection to the abstract state of spec/OP.tla.
package modelstore

import (
	"context"
	"crypto/ecdsa"
	"crypto/ed25519"
	"crypto/elliptic"
	"crypto/rand"
	"crypto/rsa"
	"errors"
	"fmt"
	"slices"
	"strings"
	"sync"
	"time"

	jose "github.com/go-jose/go-jose/v4"

	"github.com/zitadel/oidc/v3/pkg/oidc"
	"github.com/zitadel/oidc/v3/pkg/op"
)

// ---------------------------------------------------------------- clients

type ClientReg struct {
	ID          string
	Secret      string
	Auth        string // basic | post | none | pkjwt
	App         string // web | native | ua
	Grants      []string
	RTypes      []string
	URIs        []string
	Globs       []string
	PostLogout  []string
	PLGlobs     []string
	HasGlobs    bool
	Dev         bool
	ATType      string // opaque | jwt
	Skew        time.Duration
	IDTLifetime time.Duration
	Assertion   bool                        // IDTokenUserinfoClaimsAssertion
	Audience    []string                    // resource servers the client's tokens are meant for (empty: the client itself)
	MethodUnset bool                        // AuthMethod() answers the empty string (no method registered: client_secret_basic by default)
	Keys        map[string]*jose.JSONWebKey // public keys by kid (private_key_jwt / jwt-bearer)
	ExtraScopes []string
}

type client struct{ r *ClientReg }

func (c *client) GetID() string                    { return c.r.ID }
func (c *client) RedirectURIs() []string           { return slices.Clone(c.r.URIs) }
func (c *client) PostLogoutRedirectURIs() []string { return slices.Clone(c.r.PostLogout) }
func (c *client) ApplicationType() op.ApplicationType {
	switch c.r.App {
	case "native":
		return op.ApplicationTypeNative
	case "ua":
		return op.ApplicationTypeUserAgent
	}
	return op.ApplicationTypeWeb
}
func (c *client) AuthMethod() oidc.AuthMethod {
	switch c.r.Auth {
	case "post":
		return oidc.AuthMethodPost
	case "none":
		return oidc.AuthMethodNone
	case "pkjwt":
		return oidc.AuthMethodPrivateKeyJWT
	}
	if c.r.MethodUnset {
		return ""
	}
	return oidc.AuthMethodBasic
}
func (c *client) ResponseTypes() []oidc.ResponseType {
	out := make([]oidc.ResponseType, len(c.r.RTypes))
	for i, t := range c.r.RTypes {
		out[i] = oidc.ResponseType(t)
	}
	return out
}
func (c *client) GrantTypes() []oidc.GrantType {
	out := make([]oidc.GrantType, len(c.r.Grants))
	for i, t := range c.r.Grants {
		out[i] = GrantName(t)
	}
	return out
}
func (c *client) LoginURL(id string) string { return "/login?authRequestID=" + id }
func (c *client) AccessTokenType() op.AccessTokenType {
	if c.r.ATType == "jwt" {
		return op.AccessTokenTypeJWT
	}
	return op.AccessTokenTypeBearer
}
func (c *client) IDTokenLifetime() time.Duration {
	if c.r.IDTLifetime == 0 {
		return time.Hour
	}
	return c.r.IDTLifetime
}
func (c *client) DevMode() bool { return c.r.Dev }
func (c *client) RestrictAdditionalIdTokenScopes() func([]string) []string {
	return func(s []string) []string { return s }
}
func (c *client) RestrictAdditionalAccessTokenScopes() func([]string) []string {
	return func(s []string) []string { return s }
}
func (c *client) IsScopeAllowed(scope string) bool     { return slices.Contains(c.r.ExtraScopes, scope) }
func (c *client) IDTokenUserinfoClaimsAssertion() bool { return c.r.Assertion }
func (c *client) ClockSkew() time.Duration             { return c.r.Skew }

type globClient struct{ *client }

func (c *globClient) RedirectURIGlobs() []string           { return slices.Clone(c.r.Globs) }
func (c *globClient) PostLogoutRedirectURIGlobs() []string { return slices.Clone(c.r.PLGlobs) }

func asClient(r *ClientReg) op.Client {
	if r.HasGlobs {
		return &globClient{&client{r}}
	}
	return &client{r}
}

// GrantName maps the short grant names used in the specs to the OAuth names.
func GrantName(s string) oidc.GrantType {
	switch s {
	case "code":
		return oidc.GrantTypeCode
	case "implicit":
		return oidc.GrantTypeImplicit
	case "refresh":
		return oidc.GrantTypeRefreshToken
	case "cc":
		return oidc.GrantTypeClientCredentials
	case "bearer":
		return oidc.GrantTypeBearer
	case "te":
		return oidc.GrantTypeTokenExchange
	case "device":
		return oidc.GrantTypeDeviceCode
	}
	return oidc.GrantType(s)
}

// ---------------------------------------------------------------- records

type AuthRequest struct {
	ID           string
	Client       string
	URI          string
	State        string
	Nonce        string
	Scopes       []string
	RType        oidc.ResponseType
	RMode        oidc.ResponseMode
	Challenge    *oidc.CodeChallenge
	Subject      string
	IsDone       bool
	AuthTime     time.Time
	SessionState string
	HintSubject  string
	MaxAge       *uint
	Prompt       []string
	LoginHint    string
	Aud          []string // resource servers of the client's registration (empty: the client itself)
}

func (a *AuthRequest) GetID() string         { return a.ID }
func (a *AuthRequest) GetACR() string        { return "" }
func (a *AuthRequest) GetAMR() []string      { return amr(a.IsDone) }
func (a *AuthRequest) GetAudience() []string { return spare(a.Aud, a.Client) }

// spare: the audience as a storage hands it out - the client itself unless the registration names resource servers - in a slice that
// has spare capacity (as slices that come out of a database driver or a pool often do)
func spare(aud []string, client string) []string {
	if len(aud) == 0 {
		aud = []string{client}
	}
	return append(make([]string, 0, len(aud)+4), aud...)
}
func (a *AuthRequest) GetAuthTime() time.Time                { return a.AuthTime }
func (a *AuthRequest) GetClientID() string                   { return a.Client }
func (a *AuthRequest) GetCodeChallenge() *oidc.CodeChallenge { return a.Challenge }
func (a *AuthRequest) GetNonce() string                      { return a.Nonce }
func (a *AuthRequest) GetRedirectURI() string                { return a.URI }
func (a *AuthRequest) GetResponseType() oidc.ResponseType    { return a.RType }
func (a *AuthRequest) GetResponseMode() oidc.ResponseMode    { return a.RMode }
func (a *AuthRequest) GetScopes() []string                   { return a.Scopes }
func (a *AuthRequest) GetState() string                      { return a.State }
func (a *AuthRequest) GetSubject() string {
	if a.Subject == "" {
		return a.HintSubject // pre-filled from the id_token_hint (userID of CreateAuthRequest), as in example/server/storage
	}
	return a.Subject
}
func (a *AuthRequest) Done() bool { return a.IsDone }

func amr(done bool) []string {
	if done {
		return []string{"pwd"}
	}
	return nil
}

// authRequestSS is handed out when the store is configured with a session state.
type authRequestSS struct{ *AuthRequest }

func (a *authRequestSS) GetSessionState() string { return a.SessionState }

type Token struct {
	ID        string
	Client    string
	Subject   string
	Audience  []string
	Scopes    []string
	Expiry    time.Time
	Expired   bool // manual clock: the store treats the token as expired
	Revoked   bool
	RefreshID string
	Flow      string
	Actor     string
}

type Refresh struct {
	ID       string
	Client   string
	Subject  string
	Audience []string
	Scopes   []string
	AuthTime time.Time
	AMR      []string
	Root     string
	Live     bool
	Access   string
}

type refreshReq struct {
	*Refresh
	cur  []string
	live bool
}

func (r *refreshReq) GetAMR() []string       { return r.AMR }
func (r *refreshReq) GetAudience() []string  { return r.Audience }
func (r *refreshReq) GetAuthTime() time.Time { return r.AuthTime }
func (r *refreshReq) GetClientID() string    { return r.Client }
func (r *refreshReq) GetScopes() []string    { return r.cur }
func (r *refreshReq) GetSubject() string     { return r.Subject }
func (r *refreshReq) SetCurrentScopes(s []string) {
	r.cur = s
	if r.live {
		r.Refresh.Scopes = s
	}
}

type Device struct {
	Code     string
	UserCode string
	State    *op.DeviceAuthorizationState
	Slow     bool // next state lookup answers context.DeadlineExceeded
}

type JournalEntry struct {
	N      int      `json:"n"`
	Method string   `json:"m"`
	Args   []string `json:"a,omitempty"`
	Err    string   `json:"e,omitempty"`
	Fault  bool     `json:"f,omitempty"` // the error was injected by the fault plan
	Signal bool     `json:"s,omitempty"` // injected, but a contract-defined signal rather than a failure (ErrDuplicateUserCode)
}

// TEPolicy is the token-exchange policy of the store (part of the abstract state).
type TEPolicy struct {
	Deny         bool
	DenyAtCreate bool           // the veto is raised by CreateTokenExchangeRequest instead of ValidateTokenExchangeRequest
	DefaultType  oidc.TokenType // applied when the request has no requested_token_type
	Impersonate  string         // if set, SetSubject(Impersonate)
	DropScope    string         // scope removed by the policy
}

type SignKey struct {
	KID  string
	Alg  jose.SignatureAlgorithm
	Priv any
	Pub  any
}

func (k *SignKey) SignatureAlgorithm() jose.SignatureAlgorithm { return k.Alg }
func (k *SignKey) Key() any                                    { return k.Priv }
func (k *SignKey) ID() string                                  { return k.KID }

type pubKey struct {
	k   *SignKey
	use string
}

func (p *pubKey) ID() string                         { return p.k.KID }
func (p *pubKey) Algorithm() jose.SignatureAlgorithm { return p.k.Alg }
func (p *pubKey) Use() string                        { return p.use }
func (p *pubKey) Key() any                           { return p.k.Pub }

var (
	keyMu    sync.Mutex
	keyCache = map[string]*SignKey{}
)

// GenKey returns a (process-wide cached) signing key for alg under the given name.
func GenKey(name string, alg jose.SignatureAlgorithm) *SignKey {
	keyMu.Lock()
	defer keyMu.Unlock()
	ck := name + "/" + string(alg)
	if k, ok := keyCache[ck]; ok {
		return k
	}
	k := &SignKey{KID: name, Alg: alg}
	switch alg {
	case jose.RS256, jose.RS384, jose.RS512, jose.PS256, jose.PS384, jose.PS512:
		p, err := rsa.GenerateKey(rand.Reader, 2048)
		if err != nil {
			panic(err)
		}
		k.Priv, k.Pub = p, &p.PublicKey
	case jose.ES256:
		p, _ := ecdsa.GenerateKey(elliptic.P256(), rand.Reader)
		k.Priv, k.Pub = p, &p.PublicKey
	case jose.ES384:
		p, _ := ecdsa.GenerateKey(elliptic.P384(), rand.Reader)
		k.Priv, k.Pub = p, &p.PublicKey
	case jose.ES512:
		p, _ := ecdsa.GenerateKey(elliptic.P521(), rand.Reader)
		k.Priv, k.Pub = p, &p.PublicKey
	case jose.EdDSA:
		pub, priv, _ := ed25519.GenerateKey(rand.Reader)
		k.Priv, k.Pub = priv, pub
	default:
		panic("unsupported alg " + string(alg))
	}
	keyCache[ck] = k
	return k
}

// ---------------------------------------------------------------- store

type Store struct {
	mu       sync.Mutex
	Clients  map[string]*ClientReg
	Requests map[string]*AuthRequest
	Codes    map[string]string // code -> request id
	Tokens   map[string]*Token
	Refresh  map[string]*Refresh
	Devices  map[string]*Device // by device code
	Ended    [][2]string        // (user, client) sessions terminated
	Policy   TEPolicy

	Signing *SignKey
	Retired []*SignKey // additional published keys

	SessionState string
	// Capabilities (the wrapper types below expose them as interfaces)
	seq int

	Journal []JournalEntry
	// fault plan
	FailAt     int    // fail the k-th storage call (1-based); 0 = off
	FailMethod string // fail every call of this method
	FailOnce   bool   // the plan applies to the first matching call only
	FailKind   string // "error" | "deadline" | "canceled" | "oidc" | "dupcode" | "typednil"
	calls      int

	ATLifetime  time.Duration // lifetime of access tokens handed to the framework
	BornExpired bool          // new access tokens get an expiry in the past (JWT born expired)

	ShareDeviceState bool // GetDeviceAuthorizatonState returns the stored object, not a copy (C20)
	NotFoundAsOIDC   bool // an unknown client is reported as *oidc.Error (invalid_client) instead of a plain error

	PromptNoneLoginRequired bool
	KeyUseAbsent            bool // the published keys carry no "use" member
	// RotateMid: the signing key is replaced by this key right after the NEXT read of the signing key - a rotation that lands in the middle
	// of a request (between two storage calls); the old key stays published
	RotateMid   *SignKey
	LiveRefresh bool // RefreshTokenRequest is a live view of the stored grant: SetCurrentScopes writes through (as in example/server/storage)
	// refusals: auth request id -> the error the storage answers when asked to issue (code or tokens) for that request
	refusals map[string]error
	Health_  error
}

func New(clients []*ClientReg, signing *SignKey) *Store {
	s := &Store{
		Clients:    map[string]*ClientReg{},
		Requests:   map[string]*AuthRequest{},
		Codes:      map[string]string{},
		Tokens:     map[string]*Token{},
		Refresh:    map[string]*Refresh{},
		Devices:    map[string]*Device{},
		Signing:    signing,
		ATLifetime: 5 * time.Minute,
	}
	for _, c := range clients {
		s.Clients[c.ID] = c
	}
	return s
}

var ErrInjected = errors.New("injected storage failure")

// ErrInjectedOIDC is a sentinel *oidc.Error shared by all injected failures of kind "oidc".
var ErrInjectedOIDC = oidc.ErrServerError().WithDescription("injected storage failure (shared oidc.Error)")

type notFound struct{ what string }

func (n notFound) Error() string { return n.what + " not found" }
func (n notFound) IsNotFound()   {}

// enter journals a storage call and applies the fault plan. Caller must not hold s.mu.
func (s *Store) enter(ctx context.Context, method string, args ...string) error {
	s.mu.Lock()
	defer s.mu.Unlock()
	s.calls++
	e := JournalEntry{N: s.calls, Method: method, Args: args}
	var err error
	if cerr := ctx.Err(); cerr != nil {
		// a storage whose calls honour the context they are given (as database drivers do): a context that is already over ends the call
		e.Err = cerr.Error()
		s.Journal = append(s.Journal, e)
		return cerr
	}
	if (s.FailAt != 0 && s.calls == s.FailAt) || (s.FailMethod != "" && s.FailMethod == method) {
		if s.FailOnce {
			// only the first matching call fails (a retry of the library meets a storage that works)
			defer func() { s.FailAt, s.FailMethod, s.FailOnce = 0, "", false }()
		}
		if s.FailKind == "deadline" {
			err = context.DeadlineExceeded
		} else if s.FailKind == "dupcode" {
			// the sentinel the storage contract names for a user code that is already in use
			err = op.ErrDuplicateUserCode
		} else if s.FailKind == "canceled" {
			// a storage whose own machinery gave up (closing connection pool, de-duplicated query whose first caller left): the
			// error chain contains context.Canceled although the request that is being served is still alive
			err = fmt.Errorf("storage: query aborted: %w", context.Canceled)
		} else if s.FailKind == "oidc" {
			// a storage that answers every outage with one and the same *oidc.Error value
			err = ErrInjectedOIDC
		} else {
			err = ErrInjected
		}
		e.Err = err.Error()
		e.Fault = true
		if method == "StoreDeviceAuthorization" && s.FailKind == "dupcode" {
			// op.ErrDuplicateUserCode is not a failure of the storage: the contract calls it a signal "to try again with a new code".
			// Whether the provider then retries or gives up is its choice; what it answers must be consistent (C16), not necessarily an error (C10).
			e.Fault, e.Signal = false, true
		}
	}
	s.Journal = append(s.Journal, e)
	return err
}

func (s *Store) note(msg string) {
	s.mu.Lock()
	defer s.mu.Unlock()
	if n := len(s.Journal); n > 0 && s.Journal[n-1].Err == "" {
		s.Journal[n-1].Err = msg
	}
}

// ResetJournal clears the journal and the call counter (start of an observed operation).
func (s *Store) ResetJournal() {
	s.mu.Lock()
	defer s.mu.Unlock()
	s.Journal = nil
	s.calls = 0
}

// CallCount is the number of storage calls journalled since the last reset.
func (s *Store) CallCount() int {
	s.mu.Lock()
	defer s.mu.Unlock()
	return len(s.Journal)
}

func (s *Store) TakeJournal() []JournalEntry {
	s.mu.Lock()
	defer s.mu.Unlock()
	j := s.Journal
	s.Journal = nil
	s.calls = 0
	return j
}

// Refuse makes the storage refuse to issue anything for the auth request id, with this error (a storage policy decision).
func (s *Store) Refuse(id string, err error) {
	s.mu.Lock()
	defer s.mu.Unlock()
	if s.refusals == nil {
		s.refusals = map[string]error{}
	}
	s.refusals[id] = err
}

func (s *Store) refusal(id string) error {
	s.mu.Lock()
	defer s.mu.Unlock()
	err := s.refusals[id]
	if err != nil {
		if n := len(s.Journal); n > 0 {
			s.Journal[n-1].Err = err.Error()
		}
	}
	return err
}

func (s *Store) SetFault(at int, method, kind string) {
	s.mu.Lock()
	defer s.mu.Unlock()
	s.FailAt, s.FailMethod, s.FailKind = at, method, kind
}

func (s *Store) nextID(prefix string) string {
	s.seq++
	b := make([]byte, 6)
	rand.Read(b)
	return fmt.Sprintf("%s%d-%x", prefix, s.seq, b)
}

// ---- AuthStorage

func (s *Store) CreateAuthRequest(ctx context.Context, r *oidc.AuthRequest, userID string) (op.AuthRequest, error) {
	if err := s.enter(ctx, "CreateAuthRequest", r.ClientID); err != nil {
		return nil, err
	}
	s.mu.Lock()
	defer s.mu.Unlock()
	if s.PromptNoneLoginRequired && len(r.Prompt) == 1 && r.Prompt[0] == oidc.PromptNone {
		return nil, oidc.ErrLoginRequired()
	}
	a := &AuthRequest{
		ID: s.nextID("req"), Client: r.ClientID, URI: r.RedirectURI, State: r.State, Nonce: r.Nonce,
		Scopes: slices.Clone([]string(r.Scopes)), RType: r.ResponseType, RMode: r.ResponseMode,
		HintSubject: userID, SessionState: s.SessionState, MaxAge: r.MaxAge, Prompt: slices.Clone([]string(r.Prompt)),
		LoginHint: r.LoginHint,
	}
	if c, ok := s.Clients[r.ClientID]; ok {
		a.Aud = c.Audience
	}
	if r.CodeChallenge != "" {
		m := oidc.CodeChallengeMethodPlain
		if r.CodeChallengeMethod == oidc.CodeChallengeMethodS256 {
			m = oidc.CodeChallengeMethodS256
		}
		a.Challenge = &oidc.CodeChallenge{Challenge: r.CodeChallenge, Method: m}
	}
	s.Requests[a.ID] = a
	return s.wrap(a), nil
}

func (s *Store) wrap(a *AuthRequest) op.AuthRequest {
	if s.SessionState != "" {
		return &authRequestSS{a}
	}
	return a
}

func (s *Store) AuthRequestByID(ctx context.Context, id string) (op.AuthRequest, error) {
	if err := s.enter(ctx, "AuthRequestByID", id); err != nil {
		if s.typedNil() {
			return (*AuthRequest)(nil), err
		}
		return nil, err
	}
	s.mu.Lock()
	defer s.mu.Unlock()
	a, ok := s.Requests[id]
	if !ok {
		return nil, notFound{"auth request"}
	}
	return s.wrap(a), nil
}

// typedNil: the fault plan's kind "typednil" makes look-ups answer `return obj, err` with a nil pointer inside the interface
func (s *Store) typedNil() bool {
	s.mu.Lock()
	defer s.mu.Unlock()
	return s.FailKind == "typednil"
}

func (s *Store) AuthRequestByCode(ctx context.Context, code string) (op.AuthRequest, error) {
	if err := s.enter(ctx, "AuthRequestByCode"); err != nil {
		if s.typedNil() {
			return (*AuthRequest)(nil), err
		}
		return nil, err
	}
	s.mu.Lock()
	defer s.mu.Unlock()
	id, ok := s.Codes[code]
	if !ok {
		return nil, notFound{"code"}
	}
	a, ok := s.Requests[id]
	if !ok {
		return nil, notFound{"auth request"}
	}
	return s.wrap(a), nil
}

func (s *Store) SaveAuthCode(ctx context.Context, id, code string) error {
	if err := s.enter(ctx, "SaveAuthCode", id); err != nil {
		return err
	}
	if err := s.refusal(id); err != nil {
		return err
	}
	s.mu.Lock()
	defer s.mu.Unlock()
	if _, ok := s.Requests[id]; !ok {
		return notFound{"auth request"}
	}
	s.Codes[code] = id
	return nil
}

func (s *Store) DeleteAuthRequest(ctx context.Context, id string) error {
	if err := s.enter(ctx, "DeleteAuthRequest", id); err != nil {
		return err
	}
	s.mu.Lock()
	defer s.mu.Unlock()
	delete(s.Requests, id)
	for c, r := range s.Codes {
		if r == id {
			delete(s.Codes, c)
		}
	}
	return nil
}

func (s *Store) newToken(req op.TokenRequest, refreshID string) *Token {
	t := &Token{
		ID: s.nextID("at"), Subject: req.GetSubject(), Audience: spare(req.GetAudience(), ""),
		Scopes: slices.Clone(req.GetScopes()), Expiry: time.Now().Add(s.ATLifetime), RefreshID: refreshID,
	}
	if s.BornExpired {
		t.Expiry = time.Now().Add(-time.Hour)
		t.Expired = true
	}
	switch r := req.(type) {
	case op.AuthRequest:
		t.Client, t.Flow = r.GetClientID(), "code"
	case op.TokenExchangeRequest:
		t.Client, t.Flow = r.GetClientID(), "te"
		t.Actor = r.GetExchangeActor()
	case op.RefreshTokenRequest:
		t.Client, t.Flow = r.GetClientID(), "refresh"
	case *op.DeviceAuthorizationState:
		t.Client, t.Flow = r.ClientID, "device"
	case *oidc.JWTTokenRequest:
		t.Client, t.Flow = r.Issuer, "jwt"
		if t.Client == "" && len(r.Audience) > 0 {
			t.Client = r.Audience[0]
			t.Flow = "cc"
		}
	}
	s.Tokens[t.ID] = t
	return t
}

func (s *Store) CreateAccessToken(ctx context.Context, req op.TokenRequest) (string, time.Time, error) {
	if err := s.enter(ctx, "CreateAccessToken", req.GetSubject()); err != nil {
		return "", time.Time{}, err
	}
	if ar, ok := req.(op.AuthRequest); ok {
		if err := s.refusal(ar.GetID()); err != nil {
			return "", time.Time{}, err
		}
	}
	s.mu.Lock()
	defer s.mu.Unlock()
	t := s.newToken(req, "")
	return t.ID, t.Expiry, nil
}

func (s *Store) CreateAccessAndRefreshTokens(ctx context.Context, req op.TokenRequest, current string) (string, string, time.Time, error) {
	if err := s.enter(ctx, "CreateAccessAndRefreshTokens", req.GetSubject(), "current="+s.RefreshName(current)); err != nil {
		return "", "", time.Time{}, err
	}
	s.mu.Lock()
	defer s.mu.Unlock()
	nr := &Refresh{ID: s.nextID("rt"), Subject: req.GetSubject(), Audience: spare(req.GetAudience(), ""),
		Scopes: slices.Clone(req.GetScopes()), Live: true}
	switch r := req.(type) {
	case op.AuthRequest:
		nr.Client, nr.AuthTime, nr.AMR = r.GetClientID(), r.GetAuthTime(), r.GetAMR()
	case op.TokenExchangeRequest:
		nr.Client, nr.AuthTime = r.GetClientID(), r.GetAuthTime()
	case op.RefreshTokenRequest:
		nr.Client, nr.AuthTime, nr.AMR = r.GetClientID(), r.GetAuthTime(), r.GetAMR()
	case *op.DeviceAuthorizationState:
		nr.Client, nr.AuthTime, nr.AMR = r.ClientID, r.AuthTime, r.AMR
	}
	if rr, ok := req.(*refreshReq); ok && s.LiveRefresh {
		// a storage that carries the grant over to the new refresh token as it is (example/server/storage does): the audience slice is shared
		nr.Audience = rr.Audience
	}
	nr.Root = nr.ID
	if current != "" {
		old, ok := s.Refresh[current]
		if !ok || !old.Live {
			return "", "", time.Time{}, errors.New("invalid refresh token")
		}
		old.Live = false
		nr.Root = old.Root
	}
	t := s.newToken(req, nr.ID)
	nr.Access = t.ID
	s.Refresh[nr.ID] = nr
	return t.ID, nr.ID, t.Expiry, nil
}

// RefreshName is overridden by the driver to journal abstract names instead of raw tokens.
func (s *Store) RefreshName(raw string) string {
	if raw == "" {
		return ""
	}
	return raw
}

func (s *Store) TokenRequestByRefreshToken(ctx context.Context, id string) (op.RefreshTokenRequest, error) {
	if err := s.enter(ctx, "TokenRequestByRefreshToken", id); err != nil {
		if s.typedNil() {
			return (*refreshReq)(nil), err
		}
		return nil, err
	}
	s.mu.Lock()
	defer s.mu.Unlock()
	r, ok := s.Refresh[id]
	if !ok || !r.Live {
		return nil, notFound{"refresh token"}
	}
	if s.LiveRefresh {
		return &refreshReq{Refresh: r, cur: r.Scopes, live: true}, nil
	}
	return &refreshReq{Refresh: r, cur: slices.Clone(r.Scopes)}, nil
}

func (s *Store) TerminateSession(ctx context.Context, userID, clientID string) error {
	if err := s.enter(ctx, "TerminateSession", userID, clientID); err != nil {
		return err
	}
	s.mu.Lock()
	defer s.mu.Unlock()
	s.Ended = append(s.Ended, [2]string{userID, clientID})
	for _, t := range s.Tokens {
		if t.Client == clientID && t.Subject == userID {
			t.Revoked = true
		}
	}
	for _, r := range s.Refresh {
		if r.Client == clientID && r.Subject == userID {
			r.Live = false
		}
	}
	return nil
}

func (s *Store) RevokeToken(ctx context.Context, tokenOrID, userID, clientID string) *oidc.Error {
	if err := s.enter(ctx, "RevokeToken", tokenOrID, userID, clientID); err != nil {
		return oidc.ErrServerError().WithParent(err)
	}
	s.mu.Lock()
	defer s.mu.Unlock()
	// an id that arrives with another subject than the one stored did not come from a token this
	// store issued (AES-CFB is malleable: a flipped ciphertext bit still decrypts to "id:subject'")
	if t, ok := s.Tokens[tokenOrID]; ok && (userID == "" || t.Subject == userID) {
		if t.Client != clientID {
			return oidc.ErrInvalidClient().WithDescription("token was not issued for this client")
		}
		t.Revoked = true
		return nil
	}
	if r, ok := s.Refresh[tokenOrID]; ok {
		if r.Client != clientID {
			return oidc.ErrInvalidClient().WithDescription("token was not issued for this client")
		}
		r.Live = false
		if t, ok := s.Tokens[r.Access]; ok {
			t.Revoked = true
		}
	}
	return nil
}

func (s *Store) GetRefreshTokenInfo(ctx context.Context, clientID, token string) (string, string, error) {
	if err := s.enter(ctx, "GetRefreshTokenInfo", clientID); err != nil {
		return "", "", err
	}
	s.mu.Lock()
	defer s.mu.Unlock()
	r, ok := s.Refresh[token]
	if !ok {
		// the sentinel the contract names, wrapped with context as storages do (callers compare with errors.Is)
		return "", "", fmt.Errorf("refresh token of client %q: %w", clientID, op.ErrInvalidRefreshToken)
	}
	return r.Subject, r.ID, nil
}

func (s *Store) SigningKey(ctx context.Context) (op.SigningKey, error) {
	if err := s.enter(ctx, "SigningKey"); err != nil {
		return nil, err
	}
	s.mu.Lock()
	defer s.mu.Unlock()
	k := s.Signing
	if s.RotateMid != nil {
		s.Retired = append(s.Retired, s.Signing)
		s.Signing, s.RotateMid = s.RotateMid, nil
	}
	return k, nil
}

func (s *Store) SignatureAlgorithms(ctx context.Context) ([]jose.SignatureAlgorithm, error) {
	if err := s.enter(ctx, "SignatureAlgorithms"); err != nil {
		return nil, err
	}
	return []jose.SignatureAlgorithm{s.Signing.Alg}, nil
}

func (s *Store) KeySet(ctx context.Context) ([]op.Key, error) {
	if err := s.enter(ctx, "KeySet"); err != nil {
		return nil, err
	}
	use := "sig"
	if s.KeyUseAbsent {
		use = "" // "use" is an optional JWK member
	}
	ks := []op.Key{&pubKey{s.Signing, use}}
	for _, k := range s.Retired {
		ks = append(ks, &pubKey{k, use})
	}
	return ks, nil
}

// ---- OPStorage

func (s *Store) GetClientByClientID(ctx context.Context, id string) (op.Client, error) {
	if err := s.enter(ctx, "GetClientByClientID", id); err != nil {
		if s.typedNil() {
			return (*client)(nil), err
		}
		return nil, err
	}
	s.mu.Lock()
	defer s.mu.Unlock()
	c, ok := s.Clients[id]
	if !ok {
		if s.NotFoundAsOIDC {
			return nil, oidc.ErrInvalidClient().WithDescription("client not found")
		}
		return nil, notFound{"client"}
	}
	return asClient(c), nil
}

func (s *Store) AuthorizeClientIDSecret(ctx context.Context, id, secret string) error {
	if err := s.enter(ctx, "AuthorizeClientIDSecret", id); err != nil {
		return err
	}
	s.mu.Lock()
	defer s.mu.Unlock()
	c, ok := s.Clients[id]
	if !ok {
		return notFound{"client"}
	}
	if c.Secret == "" || c.Secret != secret {
		return errors.New("invalid secret")
	}
	return nil
}

func (s *Store) SetUserinfoFromScopes(ctx context.Context, u *oidc.UserInfo, userID, clientID string, scopes []string) error {
	return s.enter(ctx, "SetUserinfoFromScopes", userID, clientID)
}

// SetUserinfoFromRequest implements op.CanSetUserinfoFromRequest.
func (s *Store) SetUserinfoFromRequest(ctx context.Context, u *oidc.UserInfo, req op.IDTokenRequest, scopes []string) error {
	if err := s.enter(ctx, "SetUserinfoFromRequest", req.GetSubject(), strings.Join(scopes, " ")); err != nil {
		return err
	}
	FillUserinfo(u, req.GetSubject(), scopes)
	return nil
}

// FillUserinfo is the deterministic user database: every claim value is derived from the
// subject so the projection can recognise a user claim wherever it appears.
func FillUserinfo(u *oidc.UserInfo, sub string, scopes []string) {
	for _, sc := range scopes {
		switch sc {
		case oidc.ScopeOpenID:
			u.Subject = sub
		case oidc.ScopeEmail:
			u.Email = sub + "@example.test"
			u.EmailVerified = true
		case oidc.ScopeProfile:
			u.Name = "Name " + sub
			u.PreferredUsername = "login-" + sub
		case oidc.ScopePhone:
			u.PhoneNumber = "+00-" + sub
		case oidc.ScopeAddress:
			u.Address = &oidc.UserInfoAddress{Locality: "City " + sub}
		}
	}
}

func (s *Store) liveToken(id, subject string) (*Token, error) {
	t, ok := s.Tokens[id]
	if !ok {
		return nil, notFound{"token"}
	}
	if t.Subject != subject {
		return nil, errors.New("token subject mismatch")
	}
	if t.Revoked {
		return nil, errors.New("token revoked")
	}
	if t.Expired || time.Now().After(t.Expiry) {
		return nil, errors.New("token expired")
	}
	return t, nil
}

func (s *Store) SetUserinfoFromToken(ctx context.Context, u *oidc.UserInfo, tokenID, subject, origin string) error {
	if err := s.enter(ctx, "SetUserinfoFromToken", tokenID, subject); err != nil {
		return err
	}
	s.mu.Lock()
	defer s.mu.Unlock()
	t, err := s.liveToken(tokenID, subject)
	if err != nil {
		return err
	}
	FillUserinfo(u, t.Subject, t.Scopes)
	if u.Subject == "" {
		u.Subject = t.Subject
	}
	return nil
}

func (s *Store) SetIntrospectionFromToken(ctx context.Context, r *oidc.IntrospectionResponse, tokenID, subject, clientID string) error {
	if err := s.enter(ctx, "SetIntrospectionFromToken", tokenID, subject, clientID); err != nil {
		return err
	}
	s.mu.Lock()
	defer s.mu.Unlock()
	t, err := s.liveToken(tokenID, subject)
	if err != nil {
		return err
	}
	if !slices.Contains(t.Audience, clientID) {
		return errors.New("caller not in audience")
	}
	u := new(oidc.UserInfo)
	FillUserinfo(u, t.Subject, t.Scopes)
	r.SetUserInfo(u)
	r.Subject = t.Subject
	r.Scope = slices.Clone(t.Scopes)
	r.ClientID = t.Client
	r.Audience = slices.Clone(t.Audience)
	return nil
}

func (s *Store) GetPrivateClaimsFromScopes(ctx context.Context, userID, clientID string, scopes []string) (map[string]any, error) {
	if err := s.enter(ctx, "GetPrivateClaimsFromScopes", userID, clientID); err != nil {
		return nil, err
	}
	return map[string]any{"priv": "p-" + userID}, nil
}

func (s *Store) GetKeyByIDAndClientID(ctx context.Context, keyID, clientID string) (*jose.JSONWebKey, error) {
	if err := s.enter(ctx, "GetKeyByIDAndClientID", keyID, clientID); err != nil {
		return nil, err
	}
	s.mu.Lock()
	defer s.mu.Unlock()
	c, ok := s.Clients[clientID]
	if !ok {
		return nil, notFound{"client"}
	}
	k, ok := c.Keys[keyID]
	if !ok {
		return nil, notFound{"key"}
	}
	return k, nil
}

func (s *Store) ValidateJWTProfileScopes(ctx context.Context, userID string, scopes []string) ([]string, error) {
	if err := s.enter(ctx, "ValidateJWTProfileScopes", userID); err != nil {
		return nil, err
	}
	out := []string{}
	for _, sc := range scopes {
		if sc == oidc.ScopeOpenID || sc == "api" {
			out = append(out, sc)
		}
	}
	return out, nil
}

func (s *Store) Health(ctx context.Context) error {
	if err := s.enter(ctx, "Health"); err != nil {
		return err
	}
	return s.Health_
}

// ---------------------------------------------------------------- optional capabilities

// CC adds op.ClientCredentialsStorage.
type CC struct{ S *Store }

func (c CC) ClientCredentials(ctx context.Context, id, secret string) (op.Client, error) {
	s := c.S
	if err := s.enter(ctx, "ClientCredentials", id); err != nil {
		return nil, err
	}
	s.mu.Lock()
	defer s.mu.Unlock()
	cl, ok := s.Clients[id]
	if !ok || cl.Secret == "" || cl.Secret != secret {
		return nil, oidc.ErrInvalidClient().WithDescription("wrong client id or secret")
	}
	return asClient(cl), nil
}

func (c CC) ClientCredentialsTokenRequest(ctx context.Context, id string, scopes []string) (op.TokenRequest, error) {
	s := c.S
	if err := s.enter(ctx, "ClientCredentialsTokenRequest", id); err != nil {
		return nil, err
	}
	return &oidc.JWTTokenRequest{Subject: id, Audience: []string{id}, Scopes: scopes}, nil
}

// TE adds op.TokenExchangeStorage.
type TE struct{ S *Store }

func (t TE) ValidateTokenExchangeRequest(ctx context.Context, r op.TokenExchangeRequest) error {
	s := t.S
	if err := s.enter(ctx, "ValidateTokenExchangeRequest",
		"subj="+r.GetExchangeSubjectTokenIDOrToken(), "stype="+string(r.GetExchangeSubjectTokenType()),
		"actor="+r.GetExchangeActorTokenIDOrToken()); err != nil {
		return err
	}
	s.mu.Lock()
	defer s.mu.Unlock()
	// storage duty: subject/actor access tokens must be live at this store
	chk := func(idOrTok string, tt oidc.TokenType, sub string) error {
		switch tt {
		case oidc.AccessTokenType:
			if _, err := s.liveToken(idOrTok, sub); err != nil {
				return oidc.ErrInvalidRequest().WithDescription("token not live").WithParent(err)
			}
		case oidc.RefreshTokenType:
			if rt, ok := s.Refresh[idOrTok]; !ok || !rt.Live {
				return oidc.ErrInvalidRequest().WithDescription("refresh token not live")
			}
		}
		return nil
	}
	if err := chk(r.GetExchangeSubjectTokenIDOrToken(), r.GetExchangeSubjectTokenType(), r.GetExchangeSubject()); err != nil {
		return err
	}
	if r.GetExchangeActorTokenIDOrToken() != "" {
		if err := chk(r.GetExchangeActorTokenIDOrToken(), r.GetExchangeActorTokenType(), r.GetExchangeActor()); err != nil {
			return err
		}
	}
	if s.Policy.Deny && !s.Policy.DenyAtCreate {
		return oidc.ErrAccessDenied().WithDescription("policy veto")
	}
	if r.GetRequestedTokenType() == "" && s.Policy.DefaultType != "" {
		r.SetRequestedTokenType(s.Policy.DefaultType)
	}
	if s.Policy.Impersonate != "" {
		r.SetSubject(s.Policy.Impersonate)
	}
	if s.Policy.DropScope != "" {
		r.SetCurrentScopes(slices.DeleteFunc(slices.Clone(r.GetScopes()), func(x string) bool { return x == s.Policy.DropScope }))
	}
	return nil
}

// Third-party tokens (op.TokenExchangeTokensVerifierStorage): the storage knows two kinds of foreign tokens, one that may only
// stand for the subject of an exchange and one that may only stand for the actor.
const (
	ExtSubjectPrefix = "ext-subject:"
	ExtActorPrefix   = "ext-actor:"
)

func (t TE) VerifyExchangeSubjectToken(ctx context.Context, token string, tokenType oidc.TokenType) (string, string, map[string]any, error) {
	if err := t.S.enter(ctx, "VerifyExchangeSubjectToken"); err != nil {
		return "", "", nil, err
	}
	if u, ok := strings.CutPrefix(token, ExtSubjectPrefix); ok && tokenType == oidc.JWTTokenType && u != "" {
		return token, u, map[string]any{"ext": "subject"}, nil
	}
	return "", "", nil, errors.New("not a third-party subject token")
}

func (t TE) VerifyExchangeActorToken(ctx context.Context, token string, tokenType oidc.TokenType) (string, string, map[string]any, error) {
	if err := t.S.enter(ctx, "VerifyExchangeActorToken"); err != nil {
		return "", "", nil, err
	}
	if u, ok := strings.CutPrefix(token, ExtActorPrefix); ok && tokenType == oidc.JWTTokenType && u != "" {
		return token, u, map[string]any{"ext": "actor"}, nil
	}
	return "", "", nil, errors.New("not a third-party actor token")
}

func (t TE) CreateTokenExchangeRequest(ctx context.Context, r op.TokenExchangeRequest) error {
	if err := t.S.enter(ctx, "CreateTokenExchangeRequest"); err != nil {
		return err
	}
	if t.S.Policy.Deny && t.S.Policy.DenyAtCreate {
		// the storage's veto comes with its second hook (when it is asked to persist the exchange)
		return oidc.ErrAccessDenied().WithDescription("policy veto")
	}
	return nil
}

func (t TE) GetPrivateClaimsFromTokenExchangeRequest(ctx context.Context, r op.TokenExchangeRequest) (map[string]any, error) {
	if err := t.S.enter(ctx, "GetPrivateClaimsFromTokenExchangeRequest"); err != nil {
		return nil, err
	}
	m := map[string]any{}
	if a := r.GetExchangeActor(); a != "" {
		m["act"] = map[string]any{"sub": a}
	}
	return m, nil
}

func (t TE) SetUserinfoFromTokenExchangeRequest(ctx context.Context, u *oidc.UserInfo, r op.TokenExchangeRequest) error {
	if err := t.S.enter(ctx, "SetUserinfoFromTokenExchangeRequest"); err != nil {
		return err
	}
	FillUserinfo(u, r.GetSubject(), r.GetScopes())
	if a := r.GetExchangeActor(); a != "" {
		u.AppendClaims("act", map[string]any{"sub": a})
	}
	return nil
}

// Dev adds op.DeviceAuthorizationStorage.
type Dev struct{ S *Store }

func (d Dev) StoreDeviceAuthorization(ctx context.Context, clientID, deviceCode, userCode string, expires time.Time, scopes []string) error {
	s := d.S
	if err := s.enter(ctx, "StoreDeviceAuthorization", clientID); err != nil {
		return err
	}
	s.mu.Lock()
	defer s.mu.Unlock()
	if _, ok := s.Clients[clientID]; !ok {
		return notFound{"client"}
	}
	for _, dv := range s.Devices {
		if dv.UserCode == userCode {
			return op.ErrDuplicateUserCode
		}
	}
	s.Devices[deviceCode] = &Device{Code: deviceCode, UserCode: userCode,
		State: &op.DeviceAuthorizationState{ClientID: clientID, Scopes: slices.Clone(scopes), Expires: expires}}
	return nil
}

func (d Dev) GetDeviceAuthorizatonState(ctx context.Context, clientID, deviceCode string) (*op.DeviceAuthorizationState, error) {
	s := d.S
	if err := s.enter(ctx, "GetDeviceAuthorizatonState", clientID); err != nil {
		return nil, err
	}
	s.mu.Lock()
	defer s.mu.Unlock()
	dv, ok := s.Devices[deviceCode]
	if !ok || dv.State.ClientID != clientID {
		return nil, notFound{"device code"}
	}
	if dv.Slow {
		dv.Slow = false
		return nil, context.DeadlineExceeded
	}
	if s.ShareDeviceState {
		// a storage that keeps its states in memory and hands out the object itself (as example/server/storage does)
		return dv.State, nil
	}
	// hand out a copy: the store owns its state
	cp := *dv.State
	cp.Audience = slices.Clone(dv.State.Audience)
	cp.Scopes = slices.Clone(dv.State.Scopes)
	return &cp, nil
}

// Environment actions on device flows (the "user" side, not part of op.Storage).
func (s *Store) DeviceByUserCode(uc string) *Device {
	s.mu.Lock()
	defer s.mu.Unlock()
	for _, d := range s.Devices {
		if d.UserCode == uc {
			return d
		}
	}
	return nil
}

// Login marks an auth request as done by the given user (environment action).
func (s *Store) Login(id, user string) bool {
	s.mu.Lock()
	defer s.mu.Unlock()
	a, ok := s.Requests[id]
	if !ok {
		return false
	}
	a.IsDone, a.Subject, a.AuthTime = true, user, time.Now().Add(-2*time.Second).Truncate(time.Second)
	return true
}

// Lock/Unlock give drivers consistent read access for projection.
func (s *Store) Lock()   { s.mu.Lock() }
func (s *Store) Unlock() { s.mu.Unlock() }

// ---------------------------------------------------------------- capability combinations

type sBase = *Store

type (
	StoreCC struct {
		sBase
		CC
	}
	StoreTE struct {
		sBase
		TE
	}
	StoreDev struct {
		sBase
		Dev
	}
	StoreCCTE struct {
		sBase
		CC
		TE
	}
	StoreCCDev struct {
		sBase
		CC
		Dev
	}
	StoreTEDev struct {
		sBase
		TE
		Dev
	}
	StoreCCTEDev struct {
		sBase
		CC
		TE
		Dev
	}
)

// WithCaps returns s wrapped so that exactly the requested optional storage interfaces are implemented.
func WithCaps(s *Store, cc, te, dev bool) op.Storage {
	switch {
	case cc && te && dev:
		return StoreCCTEDev{s, CC{s}, TE{s}, Dev{s}}
	case cc && te:
		return StoreCCTE{s, CC{s}, TE{s}}
	case cc && dev:
		return StoreCCDev{s, CC{s}, Dev{s}}
	case te && dev:
		return StoreTEDev{s, TE{s}, Dev{s}}
	case cc:
		return StoreCC{s, CC{s}}
	case te:
		return StoreTE{s, TE{s}}
	case dev:
		return StoreDev{s, Dev{s}}
	}
	return s
}
