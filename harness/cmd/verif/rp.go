package main

import (
	"bufio"
	"fmt"
	"os"

	"verif/harness/rpdrv"
)

func init() {
	// rp-replay: behaviours of RPDesign (ndjson) + seeded random histories + concurrent-login stress against the real RP handlers
	subcommands["rp-replay"] = func(c common) {
		lines, err := rpdrv.Replay(c.in, c.out, c.seed, c.n, c.depth)
		check(err)
		f, err := os.OpenFile(c.out, os.O_APPEND|os.O_WRONLY, 0o644)
		check(err)
		w := bufio.NewWriter(f)
		ev := rpdrv.Stress(w, c.seed, c.n/2+20)
		w.Flush()
		f.Close()
		fmt.Printf("REPLAYED lines=%d stress=%d\n", lines, ev)
	}
}
