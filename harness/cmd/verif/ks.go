//go:build verif

package main

import (
	"bufio"
	"encoding/json"
	"fmt"
	"os"

	"verif/harness/ksdrv"
)

func init() {
	// ks-replay: deterministic replay of TLC schedules (ndjson: {"id":..,"steps":[{op,args}..]}) with the gate scheduler
	subcommands["ks-replay"] = func(c common) {
		f, err := os.Open(c.in)
		check(err)
		defer f.Close()
		out, err := os.Create(c.out)
		check(err)
		w := bufio.NewWriterSize(out, 1<<20)
		sc := bufio.NewScanner(f)
		sc.Buffer(make([]byte, 1<<20), 1<<26)
		n, lines, stuck := 0, 0, 0
		for sc.Scan() {
			var b struct {
				ID    string         `json:"id"`
				Steps []ksdrv.Action `json:"steps"`
			}
			if err := json.Unmarshal(sc.Bytes(), &b); err != nil {
				check(err)
			}
			evs, err := ksdrv.ReplaySchedule(b.Steps, c.seed+int64(n))
			if err != nil {
				stuck++
				fmt.Println("STUCK", b.ID, err)
				continue // an unreplayable schedule is never evidence of anything
			}
			n++
			lines += emit(w, b.ID, "gated", evs)
		}
		w.Flush()
		out.Close()
		fmt.Printf("KS-REPLAYED schedules=%d lines=%d stuck=%d\n", n, lines, stuck)
	}
	// ks-stress: free-running goroutines (run the binary built with -race)
	subcommands["ks-stress"] = func(c common) {
		out, err := os.Create(c.out)
		check(err)
		w := bufio.NewWriterSize(out, 1<<20)
		lines := 0
		for i := 0; i < c.n; i++ {
			callers := 2 + i%7
			if c.depth > 0 && i%5 == 0 {
				callers = c.depth
			}
			evs := ksdrv.Stress(c.seed*100003+int64(i), callers)
			lines += emit(w, fmt.Sprintf("stress-%d-%d", c.seed, i), "free", evs)
		}
		w.Flush()
		out.Close()
		fmt.Printf("KS-STRESS runs=%d lines=%d\n", c.n, lines)
	}
}

func emit(w *bufio.Writer, id, mode string, evs []ksdrv.M) int {
	b, _ := json.Marshal(ksdrv.M{"op": "Reset", "run": id, "mode": mode, "args": ksdrv.M{}})
	w.Write(b)
	w.WriteByte('\n')
	for _, e := range evs {
		e["run"] = id
		b, _ := json.Marshal(e)
		w.Write(b)
		w.WriteByte('\n')
	}
	return len(evs) + 1
}
