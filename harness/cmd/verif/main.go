// Command verif is the Go side of the /verif machinery: it replays TLC-generated cases and
// behaviours against the real zitadel/oidc code and records ndjson traces for the TLA+ monitors.
package main

import (
	"flag"
	"fmt"
	"os"
	"strings"

	"verif/harness/opdrv"
	"verif/harness/tbldrv"
)

func main() {
	if len(os.Args) < 2 {
		fmt.Fprintln(os.Stderr, "usage: verif <subcommand> [flags]")
		os.Exit(2)
	}
	sub := os.Args[1]
	fs := flag.NewFlagSet(sub, flag.ExitOnError)
	world := fs.String("world", "world.json", "OPWorld JSON written by TLC")
	in := fs.String("in", "", "input cases / behaviours (ndjson)")
	out := fs.String("out", "trace.ndjson", "trace output (ndjson)")
	raw := fs.String("raw", "", "concrete request/response log (ndjson)")
	routers := fs.String("routers", "P,L", "routers to drive")
	seed := fs.Int64("seed", 1, "random seed")
	n := fs.Int("n", 100, "number of random histories / cases")
	depth := fs.Int("depth", 12, "length of random histories")
	tier := fs.String("tier", "quick", "quick|thorough")
	focus := fs.String("focus", "all", "operation mix of the random driver")
	fs.Parse(os.Args[2:])
	_ = tier
	switch sub {
	case "op-replay":
		w, err := opdrv.LoadWorld(*world)
		check(err)
		behs, err := opdrv.ReadBehaviours(*in)
		check(err)
		tf, err := os.Create(*out)
		check(err)
		var rf *os.File
		if *raw != "" {
			rf, err = os.Create(*raw)
			check(err)
		}
		tw := opdrv.NewTraceWriter(tf, fileOrNil(rf))
		var div []string
		for _, b := range behs {
			// a behaviour generated for one router (cfg.router) is replayed on that router only:
			// its names and predicted outcomes come from that router's decision procedure
			if b.Cfg != nil && b.Cfg.Router != "" {
				if strings.Contains(*routers, b.Cfg.Router) {
					div = append(div, opdrv.ReplayBehaviour(w, b, b.Cfg.Router, tw)...)
				}
				continue
			}
			for _, r := range strings.Split(*routers, ",") {
				div = append(div, opdrv.ReplayBehaviour(w, b, r, tw)...)
			}
		}
		tw.Flush()
		tf.Close()
		for _, d := range div {
			fmt.Println("DIVERGENCE", d)
		}
		fmt.Printf("REPLAYED behaviours=%d lines=%d divergences=%d\n", len(behs), tw.Line, len(div))
	case "op-random":
		w, err := opdrv.LoadWorld(*world)
		check(err)
		tf, err := os.Create(*out)
		check(err)
		var rf *os.File
		if *raw != "" {
			rf, err = os.Create(*raw)
			check(err)
		}
		tw := opdrv.NewTraceWriter(tf, fileOrNil(rf))
		opdrv.RandomHistories(w, *seed, *n, *depth, strings.Split(*routers, ","), *focus, tw)
		tw.Flush()
		tf.Close()
		fmt.Printf("RANDOM histories=%d lines=%d\n", *n, tw.Line)
	default:
		if f, ok := subcommands[sub]; ok {
			f(common{world: *world, in: *in, out: *out, raw: *raw, seed: *seed, n: *n, depth: *depth, tier: *tier, routers: strings.Split(*routers, ",")})
			return
		}
		fmt.Fprintln(os.Stderr, "unknown subcommand", sub)
		os.Exit(2)
	}
}

type common struct {
	world, in, out, raw, tier string
	seed                      int64
	n, depth                  int
	routers                   []string
}

var subcommands = map[string]func(common){
	"tbl-redirect":    func(c common) { table(c, tbldrv.RedirectCase) },
	"tbl-verifier":    func(c common) { table(c, tbldrv.VerifierCase) },
	"tbl-signature":   func(c common) { table(c, tbldrv.SignatureCase) },
	"tbl-assertion":   func(c common) { table(c, tbldrv.AssertionCase) },
	"tbl-reqobj":      func(c common) { table(c, tbldrv.RequestObjectCase) },
	"tbl-authresp":    func(c common) { table(c, tbldrv.AuthResponseCase) },
	"tbl-codec":       func(c common) { tbldrv.DiscWorldPath = c.world; table(c, tbldrv.CodecCase) },
	"tbl-interop":     func(c common) { table(c, tbldrv.InteropCase) },
	"tbl-keywiring":   func(c common) { tbldrv.DiscWorldPath = c.world; table(c, tbldrv.KeyWiringCase) },
	"tbl-keyrotation": func(c common) { tbldrv.InstallRotationHook(); table(c, tbldrv.KeyRotationCase) },
	"tbl-usercode":    func(c common) { tbldrv.DiscWorldPath = c.world; table(c, tbldrv.UserCodeCase) },
	"tbl-discovery":   func(c common) { tbldrv.DiscWorldPath = c.world; table(c, tbldrv.DiscoveryCase) },
	"tbl-isolation": func(c common) {
		tbldrv.DiscWorldPath = c.world
		n, err := tbldrv.Run(c.in, c.out, 1, tbldrv.IsolationCase) // one case at a time: the cases observe package-level state
		check(err)
		fmt.Printf("EXECUTED cases=%d\n", n)
	},
	"tbl-handler": func(c common) { tbldrv.HandlerWorldPath = c.world; table(c, tbldrv.HandlerCase) },
	"tbl-faults":  func(c common) { tbldrv.FaultWorldPath = c.world; table(c, tbldrv.FaultCase) },
}

func table(c common, f func(*tbldrv.Case) tbldrv.M) {
	n, err := tbldrv.Run(c.in, c.out, 0, f)
	check(err)
	fmt.Printf("EXECUTED cases=%d\n", n)
}

func fileOrNil(f *os.File) interface {
	Write([]byte) (int, error)
} {
	if f == nil {
		return nil
	}
	return f
}

func check(err error) {
	if err != nil {
		fmt.Fprintln(os.Stderr, "verif:", err)
		os.Exit(2)
	}
}
