package main

import (
	"fmt"

	"verif/harness/flowdrv"
	"verif/harness/opdrv"
)

func init() {
	// flow-replay: behaviours of FlowDesign (ndjson) + seeded random histories on the real relying parties and the real provider
	subcommands["flow-replay"] = func(c common) {
		w, err := opdrv.LoadWorld(c.world)
		check(err)
		lines, err := flowdrv.Replay(w, c.in, c.out, c.seed, c.n, c.depth)
		check(err)
		fmt.Printf("REPLAYED lines=%d\n", lines)
	}
}
