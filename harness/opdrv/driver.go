package opdrv

import (
	"bytes"
	"context"
	"crypto/sha256"
	"crypto/sha512"
	"encoding/base64"
	"encoding/json"
	"fmt"
	"net/http"
	"net/http/httptest"
	"net/url"
	"runtime/debug"
	"slices"
	"strconv"
	"strings"
	"time"

	jose "github.com/go-jose/go-jose/v4"
	"golang.org/x/net/html"

	"verif/harness/modelstore"

	"github.com/zitadel/oidc/v3/pkg/client/rp"
	"github.com/zitadel/oidc/v3/pkg/crypto"
	"github.com/zitadel/oidc/v3/pkg/oidc"
	"github.com/zitadel/oidc/v3/pkg/op"
)

type M = map[string]any

// Driver owns one real provider instance and the naming of the identifiers it hands out.
type Driver struct {
	World     *WorldJSON
	Cfg       Cfg
	midRotOld *modelstore.SignKey // the signing key a mid-request rotation (args.rotateMid) of the operation being served replaces
	Store     *modelstore.Store
	H         http.Handler
	P         *op.Provider

	reqName map[string]string // store request id -> r1..
	reqID   map[string]string
	codeRaw map[string]string // k1.. -> raw code
	codeNm  map[string]string
	atRaw   map[string]string // a1.. -> raw access token string
	atNm    map[string]string // store token id -> a1..
	rtNm    map[string]string // store refresh id (== raw) -> f1..
	rtRaw   map[string]string
	idtRaw  map[string]string // i1.. -> raw id token
	idtNm   map[string]string
	dcRaw   map[string]string // d1.. -> device code
	dcNm    map[string]string
	ucOf    map[string]string // d1.. -> user code

	LastRaw *RawResponse // concrete request/response log of the last operation (for replays)
	ks      oidc.KeySet  // library key set on the provider's /keys
	rot     int

	host        string                    // non-empty: address requests of the current operation to this tenant
	gtInQuery   bool                      // token requests of the current operation carry grant_type in the URL query
	respJournal []modelstore.JournalEntry // storage calls made while the requests of the current operation were served
}

type RawResponse struct {
	Method   string      `json:"method"`
	URL      string      `json:"url"`
	Form     string      `json:"form,omitempty"`
	Header   http.Header `json:"header,omitempty"`
	Status   int         `json:"status"`
	Location string      `json:"location,omitempty"`
	Body     string      `json:"body,omitempty"`
	Writes   int         `json:"writeHeaderCalls"`
	Panic    string      `json:"panic,omitempty"`
}

func NewDriver(w *WorldJSON, cfg Cfg) *Driver {
	store := modelstore.New(BuildRegs(w), SigningKeyFor(cfg.Alg))
	h, p, err := BuildProvider(store, cfg)
	must(err)
	d := &Driver{World: w, Cfg: cfg, Store: store, H: h, P: p,
		reqName: map[string]string{}, reqID: map[string]string{}, codeRaw: map[string]string{}, codeNm: map[string]string{},
		atRaw: map[string]string{}, atNm: map[string]string{}, rtNm: map[string]string{}, rtRaw: map[string]string{},
		idtRaw: map[string]string{}, idtNm: map[string]string{}, dcRaw: map[string]string{}, dcNm: map[string]string{}, ucOf: map[string]string{}}
	d.primeSiblings()
	return d
}

// SiblingOf names a client the storage holds besides the clients of the world: it authenticates with private_key_jwt and its key
// carries the SAME key id as client c's key (key ids are unique per client only), with different key material.
func SiblingOf(c string) string { return "sibling-of-" + c }

// SiblingKey is the sibling client's private key (kid = kid of c's key).
func SiblingKey(c string) *modelstore.SignKey {
	k := *modelstore.GenKey("sibling-of-"+c, jose.ES256)
	k.KID = ClientKey(c).KID
	return &k
}

// primeSiblings registers the sibling of every private_key_jwt client and lets it authenticate once, successfully, before the
// history starts (an introspection of a garbage token): whatever the provider remembers about that key id, it now remembers.
func (d *Driver) primeSiblings() {
	for id, c := range d.World.Clients {
		if c.Auth == "pkjwt" {
			d.primeSibling(id)
		}
	}
}

// primeSibling: the sibling of client id authenticates successfully (environment action of another legitimate client).
func (d *Driver) primeSibling(id string) {
	{
		k := SiblingKey(id)
		d.Store.Lock()
		d.Store.Clients[SiblingOf(id)] = &modelstore.ClientReg{ID: SiblingOf(id), Auth: "pkjwt", App: "web", Grants: []string{"bearer"}, ATType: "opaque", IDTLifetime: time.Hour,
			Keys: map[string]*jose.JSONWebKey{k.KID: {Key: k.Pub, KeyID: k.KID, Use: "sig", Algorithm: string(k.Alg)}}}
		d.Store.Unlock()
		form := url.Values{"token": {"garbage"}, "client_assertion_type": {oidc.ClientAssertionTypeJWTAssertion},
			"client_assertion": {SignAssertion(SiblingOf(id), SiblingOf(id), []string{Issuer}, time.Now(), time.Now().Add(time.Minute), k)}}
		req := httptest.NewRequest(http.MethodPost, Issuer+"/oauth/introspect", strings.NewReader(form.Encode()))
		req.Header.Set("Content-Type", "application/x-www-form-urlencoded")
		Serve(d.H, req)
		d.Store.ResetJournal()
	}
}

// ------------------------------------------------------------ out record (mirror of OP!NoOut)

func noTok() M {
	return M{"name": "none", "kind": "none", "client": "none", "sub": "none", "scopes": []string{}, "aud": []string{},
		"lib": "none", "iss": "none", "jsub": "none", "jclient": "none", "expOK": true, "fresh": true, "sealed": "none", "iatAgo": 0, "expiresOff": 0}
}
func noRt() M {
	return M{"name": "none", "client": "none", "sub": "none", "scopes": []string{}, "aud": []string{}, "auth": "none", "root": "none"}
}
func noIdt() M {
	return M{"name": "none", "sub": "none", "aud": []string{}, "azp": "none", "nonce": "none", "iss": "none",
		"athash": "absent", "chash": "absent", "auth": "none", "sig": "none", "uclaims": []string{},
		"lib": "none", "life": 0, "fresh": true, "amr": []string{}, "iatAgo": 0}
}
func NoOut() M {
	return M{"class": "none", "status": 0, "err": "none", "doc": false, "req": "none", "target": "none", "channel": "none",
		"state": "none", "code": "none", "at": noTok(), "rt": noRt(), "idt": noIdt(), "scope": []string{}, "sub": "none",
		"rotated": "none", "bare": true, "dc": "none", "uc": "none", "journal": []string{}, "issuedType": "", "actor": "none",
		"auth": "none", "expiresOff": 0, "faulted": false, "ucBound": true}
}

// ------------------------------------------------------------ helpers on generic args

func S(m M, k string) string {
	if v, ok := m[k]; ok {
		if s, ok := v.(string); ok {
			return s
		}
	}
	return ""
}
func B(m M, k string) bool { b, _ := m[k].(bool); return b }
func SS(m M, k string) []string {
	out := []string{}
	if v, ok := m[k].([]any); ok {
		for _, x := range v {
			if s, ok := x.(string); ok {
				out = append(out, s)
			}
		}
	}
	if v, ok := m[k].([]string); ok {
		return v
	}
	return out
}
func Sub(m M, k string) M {
	if v, ok := m[k].(map[string]any); ok {
		return v
	}
	return M{}
}

func none(s string) string {
	if s == "" {
		return "none"
	}
	return s
}

// ------------------------------------------------------------ HTTP plumbing

type countingWriter struct {
	*httptest.ResponseRecorder
	writes int
}

func (c *countingWriter) WriteHeader(code int) {
	c.writes++
	c.ResponseRecorder.WriteHeader(code)
}

func (d *Driver) do(req *http.Request) *RawResponse {
	raw := Serve(d.H, req)
	d.LastRaw = raw
	// the fault plan and the journal concern the storage calls made while the request was served,
	// not the ones the projection makes afterwards (fetching /keys to verify the issued tokens ...)
	d.Store.SetFault(0, "", "")
	d.respJournal = append(d.respJournal, d.Store.TakeJournal()...)
	return raw
}

// Serve runs one request through handler h and records status, Location, body, the number of WriteHeader
// calls and a panic, if any.
func Serve(h http.Handler, req *http.Request) *RawResponse {
	rec := &countingWriter{ResponseRecorder: httptest.NewRecorder()}
	raw := &RawResponse{Method: req.Method, URL: req.URL.String(), Header: req.Header.Clone()}
	func() {
		defer func() {
			if r := recover(); r != nil {
				raw.Panic = fmt.Sprintf("%v\n%s", r, debug.Stack())
			}
		}()
		h.ServeHTTP(rec, req)
	}()
	raw.Status = rec.Code
	raw.Location = rec.Header().Get("Location")
	raw.Body = rec.Body.String()
	raw.Writes = rec.writes
	return raw
}

func (d *Driver) get(path string, q url.Values, hdr http.Header) *RawResponse {
	u := Issuer + path
	if d.host != "" {
		u = d.host + path
	}
	if len(q) > 0 {
		u += "?" + q.Encode()
	}
	req := httptest.NewRequest(http.MethodGet, u, nil)
	for k, v := range hdr {
		req.Header[k] = v
	}
	return d.do(req)
}

func (d *Driver) post(path string, form url.Values, hdr http.Header) *RawResponse {
	target := Issuer + path
	if d.gtInQuery && form.Get("grant_type") != "" {
		// the same request with grant_type in the URL query instead of the body
		form = cloneValues(form)
		target += "?grant_type=" + url.QueryEscape(form.Get("grant_type"))
		form.Del("grant_type")
	}
	req := httptest.NewRequest(http.MethodPost, target, strings.NewReader(form.Encode()))
	req.Header.Set("Content-Type", "application/x-www-form-urlencoded")
	for k, v := range hdr {
		req.Header[k] = v
	}
	r := d.do(req)
	r.Form = form.Encode()
	return r
}

// applyCred puts the credential presentation `cred` of client `caller` on the request.
func (d *Driver) applyCred(form url.Values, hdr http.Header, caller string, cred M) {
	secret := Secret(caller)
	if S(cred, "secret") == "wrong" {
		secret = "wrong-" + caller
	}
	switch S(cred, "kind") {
	case "none":
		form.Set("client_id", caller)
	case "basic":
		hdr.Set("Authorization", "Basic "+base64.StdEncoding.EncodeToString([]byte(url.QueryEscape(caller)+":"+url.QueryEscape(secret))))
		if alias := S(cred, "alias"); alias != "" {
			form.Set("client_id", alias) // the request names a second client in the body
		}
	case "post":
		form.Set("client_id", caller)
		form.Set("client_secret", secret)
	case "assertion":
		key := ClientKey(caller)
		switch S(cred, "key") {
		case "foreign":
			key = ForeignKey(caller)
		case "sibling":
			// signed by ANOTHER registered client's key that carries the same key id (that client has authenticated before)
			key = SiblingKey(caller)
		}
		form.Set("client_assertion_type", oidc.ClientAssertionTypeJWTAssertion)
		form.Set("client_assertion", SignAssertion(caller, caller, []string{Issuer}, time.Now(), time.Now().Add(time.Minute), key))
	}
}

// SignAssertion builds a JWT-profile assertion.
func SignAssertion(iss, sub string, aud []string, iat, exp time.Time, key *modelstore.SignKey) string {
	signer, err := jose.NewSigner(jose.SigningKey{Algorithm: key.Alg, Key: &jose.JSONWebKey{Key: key.Priv, KeyID: key.KID}}, nil)
	must(err)
	claims := M{"iss": iss, "sub": sub, "aud": aud, "iat": iat.Unix(), "exp": exp.Unix()}
	b, _ := json.Marshal(claims)
	jws, err := signer.Sign(b)
	must(err)
	s, err := jws.CompactSerialize()
	must(err)
	return s
}

// ------------------------------------------------------------ naming

func name(prefix string, tbl map[string]string, key string) string {
	if n, ok := tbl[key]; ok {
		return n
	}
	n := fmt.Sprintf("%s%d", prefix, len(tbl)+1)
	tbl[key] = n
	return n
}

// ------------------------------------------------------------ token projection

// ProjectAT identifies an access token string and reports what the provider bound to it.
func (d *Driver) ProjectAT(raw string) M {
	t := noTok()
	if raw == "" {
		return t
	}
	var id string
	kind := "opaque"
	if plain, err := crypto.DecryptAES(raw, string(CryptoKey[:])); err == nil && strings.Count(plain, ":") == 1 {
		id = strings.SplitN(plain, ":", 2)[0]
	} else if strings.Count(raw, ".") == 2 {
		kind = "jwt"
		var c M
		if p, err := base64.RawURLEncoding.DecodeString(strings.Split(raw, ".")[1]); err == nil {
			json.Unmarshal(p, &c)
		}
		id = S(c, "jti")
	}
	d.Store.Lock()
	st, ok := d.Store.Tokens[id]
	var cp modelstore.Token
	if ok {
		cp = *st
	}
	d.Store.Unlock()
	if !ok {
		t["name"] = "unknown"
		t["kind"] = kind
		return t
	}
	n := name("a", d.atNm, id)
	d.atRaw[n] = raw
	t["name"], t["kind"], t["client"], t["sub"] = n, kind, none(cp.Client), none(cp.Subject)
	t["scopes"], t["aud"] = orEmpty(cp.Scopes), orEmpty(cp.Audience)
	d.atFacts(t, raw, kind, &cp)
	return t
}

// handlerTransport lets the library's own HTTP clients (remote key set) talk to the in-process provider.
type handlerTransport struct{ h http.Handler }

func (t handlerTransport) RoundTrip(r *http.Request) (*http.Response, error) {
	rec := httptest.NewRecorder()
	t.h.ServeHTTP(rec, r.WithContext(context.WithoutCancel(r.Context()))) // the provider's request context is its own
	return rec.Result(), nil
}

// KeySet is the library's remote key set pointed at this provider's published /keys document.
func (d *Driver) KeySet() oidc.KeySet {
	if d.ks == nil {
		d.ks = rp.NewRemoteKeySet(&http.Client{Transport: handlerTransport{d.H}}, Issuer+"/keys")
	}
	return d.ks
}

func abstractIssuer(iss string) string {
	if iss == Issuer {
		return "issuer"
	}
	return none(iss)
}

// atFacts adds the C06 facts of an access token the provider just issued.
func (d *Driver) atFacts(t M, raw, kind string, st *modelstore.Token) {
	now := time.Now()
	if kind == "opaque" {
		plain, _ := crypto.DecryptAES(raw, string(CryptoKey[:]))
		t["sealed"] = "ok"
		if plain != st.ID+":"+st.Subject {
			t["sealed"] = "wrongplain"
		}
		if other, err := crypto.DecryptAES(raw, string(OtherCryptoKey[:])); err == nil && other == plain {
			t["sealed"] = "otherkey"
		}
		return
	}
	atAlg := string(d.Store.Signing.Alg)
	if hb, err := base64.RawURLEncoding.DecodeString(strings.Split(raw, ".")[0]); err == nil {
		var hdr M
		if json.Unmarshal(hb, &hdr) == nil && S(hdr, "alg") != "" && d.Cfg.MidRot {
			atAlg = S(hdr, "alg") // keys of several algorithms are published: the verifier is configured for the one the token names
		}
	}
	claims, err := op.VerifyAccessToken[*oidc.AccessTokenClaims](context.Background(), raw, op.NewAccessTokenVerifier(Issuer, d.KeySet(),
		op.WithSupportedAccessTokenSigningAlgorithms(atAlg)))
	if err != nil {
		t["lib"] = "fail:" + err.Error()
	} else {
		t["lib"] = "ok"
	}
	var c M
	if p, err := base64.RawURLEncoding.DecodeString(strings.Split(raw, ".")[1]); err == nil {
		json.Unmarshal(p, &c)
	}
	t["iss"], t["jsub"], t["jclient"] = abstractIssuer(S(c, "iss")), none(S(c, "sub")), none(S(c, "client_id"))
	exp, _ := c["exp"].(float64)
	iat, _ := c["iat"].(float64)
	t["expOK"] = int64(exp) == st.Expiry.Unix() || int64(exp) == st.Expiry.Unix()+1 || int64(exp) == st.Expiry.Unix()-1
	t["fresh"] = int64(iat) <= now.Unix()+1 && now.Unix() <= int64(exp)
	t["iatAgo"] = max(now.Unix()-int64(iat), 0)
	_ = claims
}

func orEmpty(s []string) []string {
	if s == nil {
		return []string{}
	}
	return s
}

func (d *Driver) ProjectRT(raw string) M {
	t := noRt()
	if raw == "" {
		return t
	}
	d.Store.Lock()
	r, ok := d.Store.Refresh[raw]
	var cp modelstore.Refresh
	if ok {
		cp = *r
	}
	d.Store.Unlock()
	if !ok {
		t["name"] = "unknown"
		return t
	}
	n := name("f", d.rtNm, raw)
	d.rtRaw[n] = raw
	t["name"], t["client"], t["sub"] = n, none(cp.Client), none(cp.Subject)
	t["scopes"], t["aud"] = orEmpty(cp.Scopes), orEmpty(cp.Audience)
	t["auth"] = fmt.Sprint(cp.AuthTime.Unix())
	t["root"] = name("f", d.rtNm, cp.Root)
	return t
}

func (d *Driver) skewOf(client string) time.Duration {
	d.Store.Lock()
	defer d.Store.Unlock()
	if c, ok := d.Store.Clients[client]; ok {
		return c.Skew
	}
	return 0
}

// ProjectIDT decodes an ID token, checks the signature against the provider's published keys,
// and reports the claims the properties talk about. at / code are the strings delivered alongside.
func (d *Driver) ProjectIDT(raw, at, code string) M {
	t := noIdt()
	if raw == "" {
		return t
	}
	n := name("i", d.idtNm, raw)
	d.idtRaw[n] = raw
	t["name"] = n
	jws, err := jose.ParseSigned(raw, []jose.SignatureAlgorithm{jose.RS256, jose.RS384, jose.RS512, jose.ES256, jose.ES384, jose.ES512, jose.EdDSA, jose.PS256})
	if err != nil {
		t["sig"] = "unparsable"
		return t
	}
	payload, err := jws.Verify(&jose.JSONWebKey{Key: d.Store.Signing.Pub, KeyID: d.Store.Signing.KID})
	if err != nil && d.midRotOld != nil {
		// a rotation landed while this request was served: the key that was current when the request read it counts as well
		payload, err = jws.Verify(&jose.JSONWebKey{Key: d.midRotOld.Pub, KeyID: d.midRotOld.KID})
	}
	if err != nil {
		t["sig"] = "bad"
		payload = jws.UnsafePayloadWithoutVerification()
	} else {
		t["sig"] = "ok"
	}
	var c M
	json.Unmarshal(payload, &c)
	t["sub"], t["azp"], t["nonce"], t["iss"] = none(S(c, "sub")), none(S(c, "azp")), S(c, "nonce"), abstractIssuer(S(c, "iss"))
	t["amr"] = SS(c, "amr")
	exp, _ := c["exp"].(float64)
	iat, _ := c["iat"].(float64)
	now := time.Now().Unix()
	t["life"], t["fresh"] = int64(exp)-int64(iat), int64(iat) <= now+1 && now <= int64(exp)
	t["iatAgo"] = max(now-int64(iat), 0)
	switch a := c["aud"].(type) {
	case string:
		t["aud"] = []string{a}
	case []any:
		t["aud"] = SS(c, "aud")
	}
	if v, ok := c["auth_time"].(float64); ok {
		// auth_time is dated back by the client's clock skew like iat: report the request's own authentication time
		t["auth"] = fmt.Sprint(int64(v) + int64(d.skewOf(S(c, "azp")).Seconds()))
	}
	alg := jose.SignatureAlgorithm(jws.Signatures[0].Header.Algorithm)
	hashOf := func(claim, over string) string {
		got, ok := c[claim].(string)
		if !ok {
			return "absent"
		}
		// the harness' own left-half hash (crypto/sha256, sha512 directly): independent of the library's ClaimHash / HashString
		if over != "" && halfHash(over, string(alg)) == got {
			return "ok"
		}
		return "bad"
	}
	t["athash"] = hashOf("at_hash", at)
	t["chash"] = hashOf("c_hash", code)
	// the library's own verification against the provider's published key set (client = the token's azp / first audience)
	cid := S(c, "azp")
	if cid == "" {
		if a := t["aud"].([]string); len(a) > 0 {
			cid = a[0]
		}
	}
	v := rp.NewIDTokenVerifier(Issuer, cid, d.KeySet(), rp.WithSupportedSigningAlgorithms(string(alg)), rp.WithNonce(func(context.Context) string { return S(c, "nonce") }))
	var verr error
	if at != "" && t["athash"] != "absent" {
		_, verr = rp.VerifyTokens[*oidc.IDTokenClaims](context.Background(), at, raw, v)
	} else {
		_, verr = rp.VerifyIDToken[*oidc.IDTokenClaims](context.Background(), raw, v)
	}
	if verr != nil {
		t["lib"] = "fail:" + verr.Error()
	} else {
		t["lib"] = "ok"
	}
	uc := []string{}
	for _, k := range []string{"email", "email_verified", "name", "preferred_username", "phone_number", "address"} {
		if _, ok := c[k]; ok {
			uc = append(uc, k)
		}
	}
	t["uclaims"] = uc
	return t
}

// halfHash: base64url of the left half of the hash that belongs to the signature algorithm (OIDC Core 3.1.3.6).
func halfHash(s, alg string) string {
	var sum []byte
	switch {
	case strings.HasSuffix(alg, "384"):
		x := sha512.Sum384([]byte(s))
		sum = x[:]
	case strings.HasSuffix(alg, "512"), alg == "EdDSA":
		x := sha512.Sum512([]byte(s))
		sum = x[:]
	default:
		x := sha256.Sum256([]byte(s))
		sum = x[:]
	}
	return base64.RawURLEncoding.EncodeToString(sum[:len(sum)/2])
}

// journalNames renders the storage journal of the last operation as method names.
func (d *Driver) journalNames(j []modelstore.JournalEntry) []string {
	out := []string{}
	for _, e := range j {
		if strings.HasPrefix(e.Method, "Create") || e.Method == "RevokeToken" || e.Method == "TerminateSession" ||
			e.Method == "SaveAuthCode" || e.Method == "DeleteAuthRequest" || e.Method == "StoreDeviceAuthorization" {
			out = append(out, e.Method)
		}
	}
	return out
}

// ------------------------------------------------------------ response classification

var respParams = []string{"code", "state", "session_state", "error", "error_description", "error_uri", "access_token",
	"id_token", "token_type", "expires_in", "scope", "refresh_token"}

// SplitRedirect separates the response parameters of an authorization response from the redirect target.
func SplitRedirect(loc string) (target string, channel string, params url.Values) {
	u, err := url.Parse(loc)
	if err != nil {
		return "unparsable:" + loc, "none", url.Values{}
	}
	params = url.Values{}
	channel = "query"
	if u.Fragment != "" || u.RawFragment != "" {
		if fv, err := url.ParseQuery(u.EscapedFragment()); err == nil {
			for _, k := range respParams {
				if fv.Has(k) {
					channel = "fragment"
				}
			}
			if channel == "fragment" {
				params = fv
				u.Fragment, u.RawFragment = "", ""
			}
		}
	}
	if channel == "query" {
		q, _ := url.ParseQuery(u.RawQuery)
		rest := []string{}
		// keep the original spelling of the parameters that are not response parameters
		for _, kv := range strings.Split(u.RawQuery, "&") {
			if kv == "" {
				continue
			}
			k, _, _ := strings.Cut(kv, "=")
			kk, _ := url.QueryUnescape(k)
			if slices.Contains(respParams, kk) {
				continue
			}
			rest = append(rest, kv)
		}
		for _, k := range respParams {
			if q.Has(k) {
				params[k] = q[k]
			}
		}
		u.RawQuery = strings.Join(rest, "&")
	}
	return u.String(), channel, params
}

// ParseFormPost extracts action and hidden inputs of the form_post page.
func ParseFormPost(body string) (action string, params url.Values, ok bool) {
	doc, err := html.Parse(strings.NewReader(body))
	if err != nil {
		return "", nil, false
	}
	params = url.Values{}
	var walk func(*html.Node)
	walk = func(n *html.Node) {
		if n.Type == html.ElementNode && n.Data == "form" {
			ok = true
			for _, a := range n.Attr {
				if a.Key == "action" {
					action = a.Val
				}
			}
		}
		if n.Type == html.ElementNode && n.Data == "input" {
			var k, v string
			for _, a := range n.Attr {
				if a.Key == "name" {
					k = a.Val
				}
				if a.Key == "value" {
					v = a.Val
				}
			}
			params.Add(k, v)
		}
		for c := n.FirstChild; c != nil; c = c.NextSibling {
			walk(c)
		}
	}
	walk(doc)
	return
}

func sameURL(a, b string) bool {
	if a == b {
		return true
	}
	ua, e1 := url.Parse(a)
	ub, e2 := url.Parse(b)
	if e1 != nil || e2 != nil {
		return false
	}
	qa, _ := url.ParseQuery(ua.RawQuery)
	qb, _ := url.ParseQuery(ub.RawQuery)
	ua.RawQuery, ub.RawQuery = "", ""
	return ua.String() == ub.String() && qa.Encode() == qb.Encode()
}

// abstractTarget maps a concrete redirect target to the abstract URI name (query order/escaping normalised).
func abstractTarget(t string) string {
	for k, v := range ConcreteURI {
		if k != "" && sameURL(v, t) {
			return k
		}
	}
	return "other:" + t
}

// classify fills the generic parts of out from the raw response.
func (d *Driver) classify(r *RawResponse, out M) {
	out["status"] = r.Status
	if r.Panic != "" {
		out["class"] = "panic"
		return
	}
	if r.Writes > 1 {
		out["class"] = "double"
		return
	}
	out["class"] = "page"
	var body M
	if json.Unmarshal([]byte(r.Body), &body) == nil && body != nil {
		out["class"] = "json"
		if e, ok := body["error"].(string); ok {
			out["err"] = e
			out["doc"] = true
		}
	}
}

// authResponse projects an authorization response (redirect or form_post page).
func (d *Driver) authResponse(r *RawResponse, out M) (params url.Values) {
	d.classify(r, out)
	if out["class"] == "panic" || out["class"] == "double" {
		return nil
	}
	var target, channel string
	switch {
	case r.Status == http.StatusFound && strings.HasPrefix(r.Location, "/login?authRequestID="):
		id := strings.TrimPrefix(r.Location, "/login?authRequestID=")
		n := name("r", d.reqName, id)
		d.reqID[n] = id
		out["class"], out["req"] = "login", n
		return nil
	case r.Status == http.StatusFound:
		target, channel, params = SplitRedirect(r.Location)
	case r.Status == http.StatusOK && strings.Contains(r.Body, "<form"):
		action, p, ok := ParseFormPost(r.Body)
		if !ok {
			return nil
		}
		target, channel, params = action, "form", p
	default:
		return nil
	}
	out["target"], out["channel"] = abstractTarget(target), channel
	out["state"] = params.Get("state")
	switch {
	case params.Has("error"):
		out["class"], out["err"] = "redirErr", params.Get("error")
	case params.Has("code"):
		raw := params.Get("code")
		n := name("k", d.codeNm, raw)
		d.codeRaw[n] = raw
		out["class"], out["code"] = "code", n
	case params.Has("access_token") || params.Has("id_token"):
		out["class"] = "tokens"
		out["at"] = d.ProjectAT(params.Get("access_token"))
		out["idt"] = d.ProjectIDT(params.Get("id_token"), params.Get("access_token"), "")
		if params.Has("access_token") {
			n, _ := strconv.ParseInt(params.Get("expires_in"), 10, 64)
			d.expiresOff(out, n)
		}
	default:
		out["class"] = "redirect"
	}
	return params
}

// expiresOff: expires_in agrees with the expiry the store recorded (seconds of disagreement)
func (d *Driver) expiresOff(out M, expiresIn int64) {
	at, ok := out["at"].(M)
	if !ok || S(at, "name") == "none" || S(at, "name") == "unknown" {
		return
	}
	d.Store.Lock()
	defer d.Store.Unlock()
	for sid, n := range d.atNm {
		if st, ok := d.Store.Tokens[sid]; ok && n == S(at, "name") {
			off := expiresIn - int64(time.Until(st.Expiry).Round(time.Second).Seconds())
			if off < 0 {
				off = -off
			}
			out["expiresOff"] = off
			at["expiresOff"] = off
		}
	}
}

// tokenResponse projects a token-endpoint response.
func (d *Driver) tokenResponse(r *RawResponse, out M, code string) {
	d.classify(r, out)
	if r.Status != http.StatusOK || out["class"] != "json" {
		return
	}
	var body struct {
		AccessToken  string `json:"access_token"`
		RefreshToken string `json:"refresh_token"`
		IDToken      string `json:"id_token"`
		ExpiresIn    int64  `json:"expires_in"`
		Scope        string `json:"scope"`
		IssuedType   string `json:"issued_token_type"`
	}
	if err := json.Unmarshal([]byte(r.Body), &body); err != nil {
		return
	}
	out["class"] = "tokens"
	out["issuedType"] = typeFromURN(body.IssuedType)
	if out["issuedType"] == "id" {
		// RFC 8693: the issued token travels in the access_token member whatever its type
		out["idt"] = d.ProjectIDT(body.AccessToken, "", "")
	} else {
		out["at"] = d.ProjectAT(body.AccessToken)
		out["idt"] = d.ProjectIDT(body.IDToken, body.AccessToken, code)
	}
	out["rt"] = d.ProjectRT(body.RefreshToken)
	if body.Scope != "" {
		out["scope"] = strings.Split(body.Scope, " ")
	}
	out["expiresIn"] = body.ExpiresIn
	d.expiresOff(out, body.ExpiresIn)
	if at, ok := out["at"].(M); ok && S(at, "name") != "none" && S(at, "name") != "unknown" {
		d.Store.Lock()
		for sid, n := range d.atNm {
			if n == S(at, "name") {
				if t, ok := d.Store.Tokens[sid]; ok && t.Actor != "" {
					out["actor"] = t.Actor
				}
			}
		}
		d.Store.Unlock()
	}
}

// ------------------------------------------------------------ token strings (C08)

func flipB64(s string, pos int) string {
	b, err := base64.RawURLEncoding.DecodeString(s)
	if err != nil || len(b) == 0 {
		return s + "x"
	}
	if pos < 0 {
		pos = len(b) + pos
	}
	if pos >= len(b) {
		pos = len(b) - 1
	}
	b[pos] ^= 0x01
	return base64.RawURLEncoding.EncodeToString(b)
}

// TokString renders the abstract token string [form, id] of OP.tla.
func (d *Driver) TokString(tok M) string {
	form, id := S(tok, "form"), S(tok, "id")
	raw, known := d.atRaw[id]
	if !known {
		raw = "" // unknown name: forms below fall back to garbage
	}
	isJWT := strings.Count(raw, ".") == 2
	d.Store.Lock()
	var storeID, sub string
	for sid, n := range d.atNm {
		if n == id {
			storeID = sid
			if t, ok := d.Store.Tokens[sid]; ok {
				sub = t.Subject
			}
		}
	}
	d.Store.Unlock()
	switch form {
	case "issued":
		if known {
			return raw
		}
		return "unknown-token-" + id
	case "flipIV":
		if isJWT {
			p := strings.Split(raw, ".")
			return p[0] + "." + p[1] + "." + flipB64(p[2], 3)
		}
		return flipB64(raw, 2)
	case "flipBody":
		if isJWT {
			p := strings.Split(raw, ".")
			return p[0] + "." + flipB64(p[1], 12) + "." + p[2]
		}
		return flipB64(raw, -1) // last plaintext byte: yields "id:sub'" with another subject
	case "trunc":
		// cut in the middle: what is left of an opaque token no longer holds the token id, what is left of a JWT has no signature.
		// (Cutting only the last characters of an opaque token leaves "id:" with an empty subject, which a storage may still
		// recognise by id - that string does identify the token, so it is not what the spec calls a truncated token.)
		if len(raw) > 4 {
			return raw[:len(raw)/2]
		}
	case "rekeyed":
		s, _ := crypto.EncryptAES(storeID+":"+sub, string(OtherCryptoKey[:]))
		return s
	case "jwtOtherIss":
		return d.forgeJWT(storeID, sub, "https://other.example.test", d.Store.Signing, false)
	case "jwtForeign":
		return d.forgeJWT(storeID, sub, Issuer, modelstore.GenKey("foreign-op", d.Store.Signing.Alg), false)
	case "jwtNone":
		return d.forgeJWT(storeID, sub, Issuer, nil, true)
	case "jwtUnknownKid":
		return d.forgeJWTKid(storeID, sub, Issuer, modelstore.GenKey("foreign-op", d.Store.Signing.Alg), "kid-rotated-out-long-ago")
	case "jwtNoKid":
		return d.forgeJWTKid(storeID, sub, Issuer, modelstore.GenKey("foreign-op", d.Store.Signing.Alg), "")
	}
	return "garbage-" + id
}

func (d *Driver) forgeJWT(jti, sub, iss string, key *modelstore.SignKey, algNone bool) string {
	claims := M{"iss": iss, "sub": sub, "jti": jti, "aud": []string{"cw"}, "exp": time.Now().Add(time.Hour).Unix(),
		"iat": time.Now().Add(-time.Minute).Unix(), "nbf": time.Now().Add(-time.Minute).Unix(), "client_id": "cw"}
	b, _ := json.Marshal(claims)
	if algNone {
		h := base64.RawURLEncoding.EncodeToString([]byte(`{"alg":"none","typ":"JWT"}`))
		return h + "." + base64.RawURLEncoding.EncodeToString(b) + "."
	}
	return d.signForged(b, key, d.Store.Signing.KID)
}

func (d *Driver) forgeJWTKid(jti, sub, iss string, key *modelstore.SignKey, kid string) string {
	claims := M{"iss": iss, "sub": sub, "jti": jti, "aud": []string{"cw"}, "exp": time.Now().Add(time.Hour).Unix(),
		"iat": time.Now().Add(-time.Minute).Unix(), "nbf": time.Now().Add(-time.Minute).Unix(), "client_id": "cw"}
	b, _ := json.Marshal(claims)
	return d.signForged(b, key, kid)
}

func (d *Driver) signForged(b []byte, key *modelstore.SignKey, kid string) string {
	signer, err := jose.NewSigner(jose.SigningKey{Algorithm: key.Alg, Key: &jose.JSONWebKey{Key: key.Priv, KeyID: kid}}, (&jose.SignerOptions{}).WithType("JWT"))
	must(err)
	jws, err := signer.Sign(b)
	must(err)
	s, _ := jws.CompactSerialize()
	return s
}

// ------------------------------------------------------------ operations

func challengeParams(chall string, q url.Values) {
	switch {
	case strings.HasPrefix(chall, "plain:"):
		q.Set("code_challenge", verifierString(strings.TrimPrefix(chall, "plain:")))
		q.Set("code_challenge_method", "plain")
	case strings.HasPrefix(chall, "s256:"):
		q.Set("code_challenge", oidc.NewSHACodeChallenge(verifierString(strings.TrimPrefix(chall, "s256:"))))
		q.Set("code_challenge_method", "S256")
	}
}

func verifierString(v string) string {
	return "verifier-" + v + "-0123456789abcdefghijklmnopqrstuvwxyzABCDEF"
}

// Exec runs one abstract operation against the real provider and returns its projected outcome.
func (d *Driver) Exec(opName string, a M) M {
	out := NoOut()
	if c := S(a, "caller"); S(Sub(a, "cred"), "key") == "sibling" && c != "" {
		if cl, ok := d.World.Clients[c]; ok && cl.Auth == "pkjwt" {
			// the sibling client (same key id, other key) has just authenticated itself: the most recent key seen under that key id is its key
			d.primeSibling(c)
		}
	}
	d.Store.ResetJournal()
	d.LastRaw = nil
	if f := S(a, "fault"); f != "" {
		// fault plan: every call of storage method f made while serving this operation fails
		kind := S(a, "faultKind")
		if kind == "" {
			kind = "error"
		}
		d.Store.SetFault(0, f, kind)
		if B(a, "faultOnce") {
			d.Store.Lock()
			d.Store.FailOnce = true
			d.Store.Unlock()
		}
	}
	if k, ok := a["faultAt"].(int); ok && k > 0 {
		// fault plan of the C10 sweep: the k-th storage call of this operation fails
		kind := S(a, "faultKind")
		if kind == "" {
			kind = "error"
		}
		d.Store.SetFault(k, "", kind)
	}
	if B(a, "rotateMid") && d.Cfg.MidRot {
		// environment: the operator's key rotation (to an algorithm of another hash family, new key id, old key still published) lands in
		// the middle of this request: right after the request's first read of the signing key
		d.Store.Lock()
		old := d.Store.Signing
		d.rot++
		nk := *modelstore.GenKey(fmt.Sprintf("mid-%s-%d", otherHashFamily(string(old.Alg)), d.rot%3), jose.SignatureAlgorithm(otherHashFamily(string(old.Alg))))
		nk.KID = fmt.Sprintf("%s-m%d", strings.SplitN(strings.SplitN(old.KID, "-r", 2)[0], "-m", 2)[0], d.rot)
		d.Store.RotateMid = &nk
		d.Store.Unlock()
		d.midRotOld = old
		defer func() {
			d.midRotOld = nil
			d.Store.Lock()
			rotated := d.Store.RotateMid == nil
			d.Store.RotateMid = nil
			d.Store.Unlock()
			if rotated {
				d.ks = nil
			}
		}()
	}
	d.respJournal = nil
	d.host = ""
	d.gtInQuery = B(a, "gtInQuery")
	if S(a, "host") == "B" {
		d.host = TenantB
	}
	defer func() {
		d.Store.SetFault(0, "", "")
		j := append(d.respJournal, d.Store.TakeJournal()...)
		if d.LastRaw != nil {
			j = d.respJournal
		}
		for _, e := range j {
			if e.Signal {
				out["signalled"] = true // a contract-defined signal of the storage (ErrDuplicateUserCode), not a failure
			}
			if e.Fault {
				out["faulted"] = true
				out["faultedCall"] = e.Method
			}
		}
		out["journal"] = d.journalNames(j)
	}()
	switch opName {
	case "Authorize":
		q := url.Values{}
		if c := S(a, "client"); c != "" {
			q.Set("client_id", c)
		}
		if u := S(a, "uri"); u != "" {
			q.Set("redirect_uri", ConcreteURI[u])
		}
		if v := S(a, "rtype"); v != "" {
			q.Set("response_type", v)
		}
		if v := S(a, "rmode"); v != "" {
			q.Set("response_mode", v)
		}
		if sc := SS(a, "scopes"); len(sc) > 0 {
			q.Set("scope", strings.Join(sc, " "))
		}
		if v := S(a, "state"); v != "" {
			q.Set("state", v)
		}
		if v := S(a, "nonce"); v != "" {
			q.Set("nonce", v)
		}
		challengeParams(S(a, "chall"), q)
		if v := S(a, "prompt"); v != "" {
			q.Set("prompt", v)
		}
		if h := Sub(a, "hint"); S(h, "kind") != "" && S(h, "kind") != "none" {
			q.Set("id_token_hint", d.HintString(h))
		}
		d.authResponse(d.get("/authorize", q, nil), out)
	case "Login":
		if id, ok := d.reqID[S(a, "req")]; ok && d.Store.Login(id, S(a, "user")) {
			out["class"] = "ok"
			d.Store.Lock()
			out["auth"] = fmt.Sprint(d.Store.Requests[id].AuthTime.Unix())
			d.Store.Unlock()
		} else {
			out["class"] = "noop"
		}
	case "Callback":
		id, ok := d.reqID[S(a, "req")]
		if !ok {
			id = "unknown-" + S(a, "req")
		}
		d.authResponse(d.get("/authorize/callback", url.Values{"id": {id}}, nil), out)
	case "CodeExchange":
		form, hdr := url.Values{"grant_type": {"authorization_code"}}, http.Header{}
		code, ok := d.codeRaw[S(a, "code")]
		if !ok {
			code = "unknown-code-" + S(a, "code")
		}
		form.Set("code", code)
		if u := S(a, "uri"); u != "" {
			form.Set("redirect_uri", ConcreteURI[u])
		}
		if v := S(a, "verifier"); v != "" && v != "none" {
			form.Set("code_verifier", verifierString(v))
		}
		d.applyCred(form, hdr, S(a, "caller"), Sub(a, "cred"))
		d.tokenResponse(d.post("/oauth/token", form, hdr), out, code)
	case "Refresh":
		form, hdr := url.Values{"grant_type": {"refresh_token"}}, http.Header{}
		rt, ok := d.rtRaw[S(a, "rt")]
		if !ok {
			rt = "unknown-rt-" + S(a, "rt")
		}
		form.Set("refresh_token", rt)
		if sc := SS(a, "scopes"); len(sc) > 0 {
			form.Set("scope", strings.Join(sc, " "))
		}
		d.applyCred(form, hdr, S(a, "caller"), Sub(a, "cred"))
		r := d.post("/oauth/token", form, hdr)
		// which refresh token was handed to the storage for rotation?
		for _, e := range d.respJournal {
			if e.Method == "CreateAccessAndRefreshTokens" && e.Err == "" {
				for _, x := range e.Args {
					if strings.HasPrefix(x, "current=") {
						if n, ok := d.rtNm[strings.TrimPrefix(x, "current=")]; ok {
							out["rotated"] = n
						} else {
							out["rotated"] = "raw:" + strings.TrimPrefix(x, "current=")
						}
					}
				}
			}
		}
		d.tokenResponse(r, out, "")
	case "UserInfo":
		hdr := http.Header{}
		hdr.Set("Authorization", "Bearer "+d.TokString(Sub(a, "tok")))
		r := d.get("/userinfo", nil, hdr)
		d.classify(r, out)
		if r.Status == 200 && out["class"] == "json" {
			var body M
			json.Unmarshal([]byte(r.Body), &body)
			out["class"], out["sub"] = "claims", none(S(body, "sub"))
		}
	case "Introspect":
		form, hdr := url.Values{}, http.Header{}
		form.Set("token", d.TokString(Sub(a, "tok")))
		d.applyCred(form, hdr, S(a, "caller"), Sub(a, "cred"))
		r := d.post("/oauth/introspect", form, hdr)
		d.classify(r, out)
		if r.Status == 200 && out["class"] == "json" {
			var body M
			json.Unmarshal([]byte(r.Body), &body)
			if B(body, "active") {
				out["class"], out["sub"] = "active", none(S(body, "sub"))
			} else {
				out["class"] = "inactive"
				out["bare"] = len(body) == 1 && body["active"] == false
			}
		}
	case "Revoke":
		form, hdr := url.Values{}, http.Header{}
		tok := Sub(a, "tok")
		if S(a, "kind") == "rt" {
			rt, ok := d.rtRaw[S(tok, "id")]
			if !ok {
				rt = "unknown-rt-" + S(tok, "id")
			}
			form.Set("token", rt)
		} else {
			form.Set("token", d.TokString(tok))
		}
		if h := S(a, "hint"); h != "" && h != "none" {
			form.Set("token_type_hint", h)
		}
		d.applyCred(form, hdr, S(a, "caller"), Sub(a, "cred"))
		r := d.post("/revoke", form, hdr)
		d.classify(r, out)
		if r.Status == 200 {
			out["class"] = "ok200"
		}
	case "Expire":
		d.Store.Lock()
		for sid, n := range d.atNm {
			if n == S(a, "id") {
				if t, ok := d.Store.Tokens[sid]; ok {
					t.Expired = true
				}
			}
		}
		d.Store.Unlock()
		out["class"] = "ok"
	case "EndSession":
		q := url.Values{}
		h := Sub(a, "hint")
		if S(h, "kind") != "none" && S(h, "kind") != "" {
			q.Set("id_token_hint", d.HintString(h))
		}
		if c := S(a, "client"); c != "" {
			q.Set("client_id", c)
		}
		if u := S(a, "uri"); u != "" {
			q.Set("post_logout_redirect_uri", ConcreteURI[u])
		}
		if s := S(a, "state"); s != "" {
			q.Set("state", s)
		}
		r := d.get("/end_session", q, nil)
		d.classify(r, out)
		if r.Status == http.StatusFound {
			out["class"] = "redirect"
			u, err := url.Parse(r.Location)
			if err == nil {
				qq := u.Query()
				out["state"] = qq.Get("state")
				// strip the appended state (last occurrence)
				rest := []string{}
				for _, kv := range strings.Split(u.RawQuery, "&") {
					if kv != "" && !strings.HasPrefix(kv, "state=") {
						rest = append(rest, kv)
					}
				}
				u.RawQuery = strings.Join(rest, "&")
				t := u.String()
				if t == "https://op.example.test/logged-out" {
					out["target"] = "default"
				} else {
					out["target"] = abstractTarget(t)
				}
			}
			for _, e := range d.respJournal {
				if e.Method == "TerminateSession" && e.Err == "" && len(e.Args) == 2 {
					out["sub"], out["req"] = none(e.Args[0]), none(e.Args[1])
				}
			}
		}
	case "DeviceAuthorize":
		form, hdr := url.Values{}, http.Header{}
		if sc := SS(a, "scopes"); len(sc) > 0 {
			form.Set("scope", strings.Join(sc, " "))
		}
		d.applyCred(form, hdr, S(a, "caller"), Sub(a, "cred"))
		r := d.post("/device_authorization", form, hdr)
		d.classify(r, out)
		if r.Status == 200 && out["class"] == "json" {
			var body M
			json.Unmarshal([]byte(r.Body), &body)
			if dc := S(body, "device_code"); dc != "" {
				n := name("d", d.dcNm, dc)
				d.dcRaw[n] = dc
				d.ucOf[n] = S(body, "user_code")
				out["class"], out["dc"], out["uc"] = "device", n, "uc-"+n
				out["deviceResponse"] = body
				// the client the storage was told the device code belongs to, and whether the user code of the response is the one the
				// storage bound to this device code
				out["ucBound"] = false
				d.Store.Lock()
				if dv, ok := d.Store.Devices[dc]; ok && dv.State != nil {
					out["req"] = dv.State.ClientID
					out["ucBound"] = dv.UserCode == S(body, "user_code") && dv.UserCode != ""
				}
				d.Store.Unlock()
			}
		}
	case "Withdraw":
		// environment: the administrator removes a grant from the client's registration (tokens issued before stay where they are)
		out["class"] = "noop"
		d.Store.Lock()
		if c, ok := d.Store.Clients[S(a, "client")]; ok {
			// the registration is REPLACED by a new record (as a storage backed by a database does), not edited in place
			nc := *c
			nc.Grants = slices.DeleteFunc(slices.Clone(c.Grants), func(g string) bool { return g == S(a, "grant") })
			d.Store.Clients[S(a, "client")] = &nc
			out["class"] = "ok"
		}
		d.Store.Unlock()
	case "RotateKey":
		// environment: the provider's signing key is replaced (same algorithm); keepKid: the new key reuses the key id
		d.Store.Lock()
		old := d.Store.Signing
		d.rot++
		nk := *modelstore.GenKey(fmt.Sprintf("%s-rot%d", old.KID, d.rot%3), old.Alg)
		if B(a, "keepKid") {
			nk.KID = old.KID
		} else {
			nk.KID = fmt.Sprintf("%s-r%d", strings.SplitN(old.KID, "-r", 2)[0], d.rot)
			d.Store.Retired = append(d.Store.Retired, old) // still published: tokens signed before the rotation keep verifying
		}
		d.Store.Signing = &nk
		d.Store.Unlock()
		d.ks = nil // a relying party that starts after the rotation
		out["class"] = "ok"
	case "Approve", "Deny", "ExpireDevice":
		out["class"] = "noop"
		if raw, ok := d.dcRaw[S(a, "dc")]; ok {
			d.Store.Lock()
			if dv, ok := d.Store.Devices[raw]; ok {
				switch opName {
				case "Approve":
					dv.State.Done, dv.State.Subject, dv.State.AuthTime = true, S(a, "user"), time.Now().Add(-time.Second).Truncate(time.Second)
					dv.State.AMR = []string{"pwd"}
				case "Deny":
					dv.State.Denied = true
				case "ExpireDevice":
					dv.State.Expires = time.Now().Add(-time.Minute)
				}
				out["class"] = "ok"
			}
			d.Store.Unlock()
		}
	case "Poll":
		form, hdr := url.Values{"grant_type": {string(oidc.GrantTypeDeviceCode)}}, http.Header{}
		raw, ok := d.dcRaw[S(a, "dc")]
		if !ok {
			raw = "unknown-dc-" + S(a, "dc")
		}
		form.Set("device_code", raw)
		if B(a, "slow") {
			d.Store.Lock()
			if dv, ok := d.Store.Devices[raw]; ok {
				dv.Slow = true
			}
			d.Store.Unlock()
		}
		d.applyCred(form, hdr, S(a, "caller"), Sub(a, "cred"))
		d.tokenResponse(d.post("/oauth/token", form, hdr), out, "")
		d.Store.Lock()
		if dv, ok := d.Store.Devices[raw]; ok {
			dv.Slow = false
		}
		d.Store.Unlock()
	case "ClientCreds":
		form, hdr := url.Values{"grant_type": {"client_credentials"}}, http.Header{}
		if sc := SS(a, "scopes"); len(sc) > 0 {
			form.Set("scope", strings.Join(sc, " "))
		}
		d.applyCred(form, hdr, S(a, "caller"), Sub(a, "cred"))
		d.tokenResponse(d.post("/oauth/token", form, hdr), out, "")
	case "JWTBearer":
		form := url.Values{"grant_type": {string(oidc.GrantTypeBearer)}}
		key := ClientKey(S(a, "iss"))
		if S(a, "key") == "foreign" {
			key = ForeignKey(S(a, "iss"))
		}
		form.Set("assertion", SignAssertion(S(a, "iss"), S(a, "iss"), []string{Issuer}, time.Now(), time.Now().Add(time.Minute), key))
		if sc := SS(a, "scopes"); len(sc) > 0 {
			form.Set("scope", strings.Join(sc, " "))
		}
		d.tokenResponse(d.post("/oauth/token", form, nil), out, "")
	case "TokenExchange":
		form, hdr := url.Values{"grant_type": {string(oidc.GrantTypeTokenExchange)}}, http.Header{}
		subj, actor := Sub(a, "subj"), Sub(a, "actor")
		form.Set("subject_token", d.RefString(subj))
		if S(subj, "declared") != "absent" {
			form.Set("subject_token_type", tokenTypeURN[S(subj, "declared")])
		}
		if S(actor, "kind") != "none" && S(actor, "kind") != "" {
			form.Set("actor_token", d.RefString(actor))
			if S(actor, "declared") != "absent" { // a token sent without its type
				form.Set("actor_token_type", tokenTypeURN[S(actor, "declared")])
			}
		}
		if rq := S(a, "requested"); rq != "" {
			form.Set("requested_token_type", tokenTypeURN[rq])
		}
		if sc := SS(a, "scopes"); len(sc) > 0 {
			form.Set("scope", strings.Join(sc, " "))
		}
		d.applyCred(form, hdr, S(a, "caller"), Sub(a, "cred"))
		d.tokenResponse(d.post("/oauth/token", form, hdr), out, "")
		if id, ok := out["idt"].(M); ok && S(id, "name") != "none" {
			// actor of an issued ID token
			if raw := d.idtRaw[S(id, "name")]; raw != "" {
				if p := strings.Split(raw, "."); len(p) == 3 {
					var c M
					b, _ := base64.RawURLEncoding.DecodeString(p[1])
					json.Unmarshal(b, &c)
					if act := Sub(c, "act"); S(act, "sub") != "" {
						out["actor"] = S(act, "sub")
					}
				}
			}
		}
	default:
		out["class"] = "unsupported-op"
	}
	return out
}

// RefString renders a token reference [kind, form, id, declared] of a token-exchange request.
func (d *Driver) RefString(ref M) string {
	switch S(ref, "kind") {
	case "access":
		return d.TokString(M{"form": S(ref, "form"), "id": S(ref, "id")})
	case "refresh":
		if raw, ok := d.rtRaw[S(ref, "id")]; ok {
			return raw
		}
		return "unknown-rt-" + S(ref, "id")
	case "id":
		return d.HintString(M{"kind": S(ref, "form"), "id": S(ref, "id")})
	case "extSubject":
		return modelstore.ExtSubjectPrefix + S(ref, "id") // a third-party token the storage accepts as subject token only
	case "extActor":
		return modelstore.ExtActorPrefix + S(ref, "id") // ... as actor token only
	}
	return "garbage"
}

// HintString renders an id_token_hint [kind, id].
func (d *Driver) HintString(h M) string {
	raw, known := d.idtRaw[S(h, "id")]
	if !known {
		return "unknown-id-token-" + S(h, "id") // an id token this provider never issued
	}
	var claims M
	if p := strings.Split(raw, "."); len(p) == 3 {
		b, _ := base64.RawURLEncoding.DecodeString(p[1])
		json.Unmarshal(b, &claims)
	}
	if claims == nil {
		claims = M{"iss": Issuer, "sub": "u1", "aud": []string{"cw"}, "azp": "cw", "iat": time.Now().Unix(), "exp": time.Now().Add(time.Hour).Unix()}
	}
	sign := func(c M, key *modelstore.SignKey) string {
		b, _ := json.Marshal(c)
		signer, err := jose.NewSigner(jose.SigningKey{Algorithm: key.Alg, Key: &jose.JSONWebKey{Key: key.Priv, KeyID: d.Store.Signing.KID}}, (&jose.SignerOptions{}).WithType("JWT"))
		must(err)
		jws, err := signer.Sign(b)
		must(err)
		s, _ := jws.CompactSerialize()
		return s
	}
	switch S(h, "kind") {
	case "valid":
		return raw
	case "expired":
		c := cloneM(claims)
		c["exp"] = time.Now().Add(-time.Hour).Unix()
		c["iat"] = time.Now().Add(-2 * time.Hour).Unix()
		return sign(c, d.Store.Signing)
	case "futureiat":
		c := cloneM(claims)
		c["iat"] = time.Now().Add(2 * time.Minute).Unix()
		c["exp"] = time.Now().Add(time.Hour).Unix()
		return sign(c, d.Store.Signing)
	case "noiat":
		c := cloneM(claims)
		delete(c, "iat")
		return sign(c, d.Store.Signing)
	case "multiaud":
		// validly signed, issued to the same client (azp), but the audience lists a second client as well
		c := cloneM(claims)
		first := ""
		switch a := claims["aud"].(type) {
		case []any:
			if len(a) > 0 {
				first, _ = a[0].(string)
			}
		case string:
			first = a
		}
		if azp, _ := claims["azp"].(string); azp != "" {
			first = azp // the client the token was issued to (the audience may start with resource servers)
		}
		for _, other := range []string{"cw", "cx", "cj"} {
			if other != first {
				c["aud"] = []string{first, other}
				break
			}
		}
		c["azp"] = first
		return sign(c, d.Store.Signing)
	case "wrongkey":
		return sign(claims, modelstore.GenKey("foreign-op", d.Store.Signing.Alg))
	case "wrongiss":
		c := cloneM(claims)
		c["iss"] = "https://other.example.test"
		return sign(c, d.Store.Signing)
	case "algnone":
		b, _ := json.Marshal(claims)
		return base64.RawURLEncoding.EncodeToString([]byte(`{"alg":"none","typ":"JWT"}`)) + "." + base64.RawURLEncoding.EncodeToString(b) + "."
	}
	return "garbage"
}

func cloneValues(v url.Values) url.Values {
	o := url.Values{}
	for k, x := range v {
		o[k] = append([]string(nil), x...)
	}
	return o
}

func cloneM(m M) M {
	o := M{}
	for k, v := range m {
		o[k] = v
	}
	return o
}

var _ = context.Background
var _ = bytes.NewReader
