package opdrv

import "github.com/zitadel/oidc/v3/pkg/oidc"

func oidcS256(v string) string { return oidc.NewSHACodeChallenge(v) }
