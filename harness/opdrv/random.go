package opdrv

import (
	"fmt"
	"math/rand"
	"sort"
)

// RandomHistories drives n seeded random histories of the given depth on each router and records them.
// Operations name existing objects most of the time (so that histories are productive) and
// unknown / foreign / mangled ones otherwise.
func RandomHistories(w *WorldJSON, seed int64, n, depth int, routers []string, focus string, tw *TraceWriter) {
	for i := 0; i < n; i++ {
		for _, r := range routers {
			rng := rand.New(rand.NewSource(seed*1_000_003 + int64(i)))
			cfg := DefaultCfg(r)
			if rng.Intn(6) == 0 {
				cfg.Refresh = false
			}
			if rng.Intn(8) == 0 {
				cfg.Post = false
			}
			if rng.Intn(3) == 0 {
				cfg.SessSt = "sess-" + fmt.Sprint(i)
			}
			if focus == "exchange" || focus == "all" {
				if rng.Intn(6) == 0 {
					cfg.Policy.Deny = true
					cfg.Policy.DenyAtCreate = rng.Intn(2) == 0
				}
				cfg.Policy.DefType = []string{"", "", "refresh", "access"}[rng.Intn(4)]
				cfg.Policy.Imp = []string{"", "", "u2@idp.example"}[rng.Intn(3)]
				cfg.Policy.Drop = []string{"", "email"}[rng.Intn(2)]
			}
			if rng.Intn(3) == 0 {
				cfg.OIDCErrs = true
			}
			if rng.Intn(2) == 0 {
				cfg.LiveRT = true
			}
			if rng.Intn(4) == 0 {
				cfg.NoKeyUse = true
			}
			if (focus == "device" || focus == "clientauth") && rng.Intn(3) == 0 {
				cfg.FastPoll = true
			}
			if focus == "logout" && rng.Intn(2) == 0 {
				cfg.Dyn = true
			}
			if focus == "issue" && rng.Intn(3) == 0 {
				cfg.MidRot = true
			}
			if focus == "issue" {
				cfg.Alg = []string{"ES256", "RS256", "ES384", "EdDSA", "ES512", "PS256", "RS384"}[rng.Intn(7)]
				cfg.Policy.DefType = []string{"", "refresh", "access", "id"}[rng.Intn(4)]
			}
			if focus == "clientauth" && rng.Intn(4) == 0 {
				cfg.CC, cfg.TE, cfg.Dev = rng.Intn(2) == 0, rng.Intn(2) == 0, rng.Intn(2) == 0
			}
			d := NewDriver(w, cfg)
			g := &gen{rng: rng, d: d, w: w, focus: focus}
			id := fmt.Sprintf("rand-%d-%d", seed, i)
			tw.Emit(M{"op": "Reset", "beh": id, "cfg": cfg, "args": M{}, "out": NoOut()}, nil)
			step := 0
			emit := func(op string, args M) M {
				out := d.Exec(op, args)
				step++
				tw.Emit(M{"op": op, "beh": id, "step": step, "router": r, "args": args, "out": out}, d.LastRaw)
				return out
			}
			// productive prefix: token-centred mixes start from completed code flows of one or two clients
			if focus == "exchange" || focus == "tokenuse" || focus == "refresh" || focus == "logout" || focus == "issue" || focus == "faults" {
				for _, c := range [][]string{{"cw"}, {"cx"}, {"cw", "cx"}, {"cx", "cp"}, {"cj", "cw"}}[rng.Intn(5)] {
					g.codeFlow(c, emit)
				}
			}
			if (focus == "clientauth" || focus == "device") && i%25 == 0 {
				// scripted table inside a history: every device client polls an approved code of its own with every kind of credential
				for _, c := range []string{"cx", "cp", "cd", "cn", "cj"} {
					for _, cr := range presentations("cw") {
						out := emit("DeviceAuthorize", M{"caller": c, "cred": g.rightCred(c), "scopes": []string{"openid"}})
						if dc := S(out, "dc"); dc != "none" && dc != "" {
							emit("Approve", M{"dc": dc, "user": "u1"})
							emit("Poll", M{"caller": c, "cred": cr, "dc": dc, "slow": false})
						}
					}
				}
			}
			if (focus == "clientauth" || focus == "code" || focus == "tokenuse") && i%40 == 2 {
				g.credentialMatrix(emit)
			}
			if focus == "exchange" && i%40 == 2 {
				g.exchangeAuthMatrix(emit)
			}
			if focus == "exchange" && i%25 == 5 {
				g.thirdPartyMatrix(emit)
			}
			if (focus == "tokenuse" || focus == "exchange") && i%25 == 3 {
				g.deadTokenMatrix(emit)
			}
			if (focus == "refresh" || focus == "clientauth") && (i%25 == 4 || (!cfg.Refresh && i%3 == 0)) {
				g.refreshWithoutGrant(emit)
			}
			if focus == "refresh" && i%50 == 7 {
				g.scopeMatrix(emit)
			}
			if (focus == "refresh" || focus == "clientauth") && i%20 == 9 {
				g.withdrawnGrant(emit) // ends the history: the registrations of this store are no longer those of the world
				continue
			}
			if (focus == "clientauth" || focus == "exchange") && i%25 == 1 {
				// scripted table inside a history: every client (with and without the token-exchange grant, confidential and public,
				// unknown) asks for an exchange of a live access token with the credentials it is registered for
				g.codeFlow("cw", emit)
				if at := g.existing(d.atRaw, ""); at != "" {
					for _, c := range []string{"cw", "cx", "cp", "cj", "cs", "cd", "cn", "cz"} {
						emit("TokenExchange", M{"caller": c, "cred": g.rightCred(c), "subj": M{"kind": "access", "form": "issued", "id": at, "declared": "access"},
							"actor": M{"kind": "none", "form": "none", "id": "none", "declared": "none"}, "requested": "access", "scopes": []string{"openid"}})
					}
				}
			}
			for s := 0; s < depth; s++ {
				op, args := g.next()
				switch op {
				case "CodeExchange", "Refresh", "ClientCreds", "JWTBearer", "TokenExchange", "Poll":
					if rng.Intn(7) == 0 {
						args["gtInQuery"] = true
					}
				}
				if cfg.MidRot && rng.Intn(5) == 0 {
					switch op {
					case "Callback", "CodeExchange", "Refresh", "Poll", "TokenExchange", "JWTBearer", "ClientCreds":
						args["rotateMid"] = true
					}
				}
				if op == "DeviceAuthorize" && (focus == "device" || focus == "clientauth" || focus == "faults") && rng.Intn(5) == 0 {
					// the storage reports a user-code collision once (op.ErrDuplicateUserCode: "try again with a new code")
					args["fault"], args["faultKind"], args["faultOnce"] = "StoreDeviceAuthorization", "dupcode", true
					emit(op, args)
					continue
				}
				if fm := faultMethods[op]; len(fm) > 0 && (rng.Intn(10) == 0 || ((focus == "faults" || focus == "authorize") && rng.Intn(3) == 0)) {
					// C10: a storage call fails while this request is served
					args["fault"] = fm[rng.Intn(len(fm))]
					args["faultKind"] = []string{"error", "oidc", "oidc", "typednil", "canceled"}[rng.Intn(5)]
				}
				emit(op, args)
			}
		}
	}
}

// codeFlow runs a complete, fitting authorization-code flow for client c.
func (g *gen) codeFlow(c string, emit func(string, M) M) {
	cl := g.w.Clients[c]
	if len(cl.URIs) == 0 {
		return
	}
	chall, ver := "none", "none"
	if cl.Auth == "none" || g.rng.Intn(3) == 0 {
		chall, ver = "s256:v1", "v1"
	}
	out := emit("Authorize", M{"client": c, "uri": cl.URIs[0], "rtype": "code", "rmode": "", "scopes": []string{"openid", "email", "offline_access"},
		"chall": chall, "state": "st1", "nonce": "n1"})
	req := S(out, "req")
	emit("Login", M{"req": req, "user": g.pick("u1", "u2@idp.example")})
	out = emit("Callback", M{"req": req})
	emit("CodeExchange", M{"caller": c, "cred": g.rightCred(c), "code": S(out, "code"), "uri": cl.URIs[0], "verifier": ver})
}

type gen struct {
	focus string
	rng   *rand.Rand
	d     *Driver
	w     *WorldJSON
}

func (g *gen) pick(xs ...string) string { return xs[g.rng.Intn(len(xs))] }

func keys(m map[string]string) []string {
	out := make([]string, 0, len(m))
	for k := range m {
		out = append(out, k)
	}
	sort.Strings(out)
	return out
}

// existing returns an existing name from tbl (mostly) or an unknown one.
func (g *gen) existing(tbl map[string]string, unknown string) string {
	ks := keys(tbl)
	if len(ks) == 0 || g.rng.Intn(10) == 0 {
		return unknown
	}
	return ks[g.rng.Intn(len(ks))]
}

func (g *gen) client() string {
	if g.rng.Intn(15) == 0 {
		return "cz"
	}
	return g.pick("cw", "cw", "cx", "cx", "cp", "cj", "cs", "cd", "cn")
}

func (g *gen) rightCred(c string) M {
	cl, ok := g.w.Clients[c]
	if !ok {
		return M{"kind": "basic", "secret": "right", "key": "none"}
	}
	switch cl.Auth {
	case "none":
		return M{"kind": "none", "secret": "none", "key": "none"}
	case "pkjwt":
		return M{"kind": "assertion", "secret": "none", "key": "own"}
	case "post":
		return M{"kind": "post", "secret": "right", "key": "none"}
	}
	return M{"kind": "basic", "secret": "right", "key": "none"}
}

// foreignCred: caller c goes for an object of `owner`: its own right credentials, half of the time with the owner's id forged into the body
func (g *gen) foreignCred(c, owner string) M {
	cr := g.rightCred(c)
	if cl, ok := g.w.Clients[c]; ok && (cl.Auth == "basic" || cl.Auth == "post") && owner != "" && owner != c && g.rng.Intn(2) == 0 {
		return M{"kind": "basic", "secret": "right", "key": "none", "alias": owner}
	}
	return cr
}

func (g *gen) cred(c string) M {
	switch g.rng.Intn(10) {
	case 0:
		return M{"kind": g.pick("basic", "post"), "secret": "wrong", "key": "none"}
	case 1:
		return M{"kind": "none", "secret": "none", "key": "none"}
	case 2:
		return M{"kind": "assertion", "secret": "none", "key": g.pick("own", "foreign", "sibling")}
	case 3:
		return M{"kind": g.pick("basic", "post"), "secret": "right", "key": "none"}
	case 4:
		if cl, ok := g.w.Clients[c]; ok && (cl.Auth == "basic" || cl.Auth == "post") {
			return M{"kind": "basic", "secret": "right", "key": "none", "alias": g.pick("cw", "cx", "cd", "cp", "cs")}
		}
	}
	return g.rightCred(c)
}

func (g *gen) scopes() []string {
	switch g.rng.Intn(9) {
	case 7:
		return []string{"email", "offline_access"} // a plain OAuth 2.0 request: no "openid"
	case 8:
		return []string{"profile"}
	case 5:
		// a repeated value: legal, stored verbatim by the storage; what is granted is the set of values
		return []string{"openid", "openid", "offline_access"}
	case 6:
		return []string{"openid", "offline_access", "offline_access", "openid"}
	case 0:
		return []string{"openid"}
	case 1:
		return []string{"openid", "profile", "email"}
	case 2:
		return []string{"openid", "offline_access", "email"}
	case 3:
		return []string{"openid", "offline_access"}
	}
	return []string{"openid", "profile", "offline_access"}
}

func (g *gen) tok() M {
	id := g.existing(g.d.atRaw, "a99")
	form := "issued"
	if g.rng.Intn(4) == 0 {
		form = g.pick("flipIV", "flipBody", "trunc", "rekeyed", "jwtOtherIss", "jwtNone", "jwtForeign", "jwtUnknownKid", "jwtNoKid", "garbage")
	}
	return M{"form": form, "id": id}
}

func (g *gen) uriOf(c string) string {
	if cl, ok := g.w.Clients[c]; ok && len(cl.URIs) > 0 && g.rng.Intn(8) != 0 {
		return cl.URIs[g.rng.Intn(len(cl.URIs))]
	}
	return g.pick("evil", "ucw", "ucx", "")
}

// faultMethods: storage methods that may be made to fail during an operation of a random history. Failures after a
// refresh-token rotation are left to the C10 sweep (the abstract state of the monitor cannot know whether the store rotated).
var faultMethods = map[string][]string{
	"Authorize":       {"GetClientByClientID", "CreateAuthRequest"},
	"Callback":        {"AuthRequestByID", "GetClientByClientID", "SaveAuthCode", "CreateAccessToken", "SigningKey", "DeleteAuthRequest", "SetUserinfoFromScopes"},
	"CodeExchange":    {"AuthRequestByCode", "GetClientByClientID", "AuthorizeClientIDSecret", "CreateAccessToken", "CreateAccessAndRefreshTokens", "SigningKey", "DeleteAuthRequest", "DeleteAuthRequest", "SetUserinfoFromScopes", "GetPrivateClaimsFromScopes"},
	"Refresh":         {"TokenRequestByRefreshToken", "GetClientByClientID", "AuthorizeClientIDSecret"},
	"UserInfo":        {"SetUserinfoFromToken", "KeySet"},
	"Introspect":      {"SetIntrospectionFromToken", "AuthorizeClientIDSecret", "KeySet"},
	"Revoke":          {"RevokeToken", "GetRefreshTokenInfo", "KeySet", "AuthorizeClientIDSecret"},
	"DeviceAuthorize": {"StoreDeviceAuthorization", "GetClientByClientID"},
	"Poll":            {"GetDeviceAuthorizatonState", "CreateAccessToken", "CreateAccessAndRefreshTokens", "SigningKey"},
	"ClientCreds":     {"ClientCredentials", "ClientCredentialsTokenRequest", "CreateAccessToken", "SigningKey"},
	"JWTBearer":       {"GetKeyByIDAndClientID", "ValidateJWTProfileScopes", "CreateAccessToken"},
	"TokenExchange":   {"ValidateTokenExchangeRequest", "CreateTokenExchangeRequest", "CreateAccessToken", "CreateAccessAndRefreshTokens", "SigningKey", "TokenRequestByRefreshToken", "GetPrivateClaimsFromTokenExchangeRequest", "SetUserinfoFromTokenExchangeRequest"},
	"EndSession":      {"TerminateSession", "GetClientByClientID", "KeySet"},
}

var focusWeights = map[string]map[string]int{
	"issue": {"Authorize": 4, "Login": 4, "Callback": 6, "CodeExchange": 8, "Refresh": 5, "DeviceAuthorize": 2, "Approve": 2, "Poll": 4,
		"ClientCreds": 2, "JWTBearer": 2, "TokenExchange": 5, "RotateKey": 1},
	"authorize": {"Authorize": 10, "Login": 5, "Callback": 8, "CodeExchange": 2},
	"code":      {"Authorize": 4, "Login": 4, "Callback": 5, "CodeExchange": 10, "Refresh": 1, "UserInfo": 1, "EndSession": 1},
	"refresh":   {"Authorize": 3, "Login": 3, "Callback": 4, "CodeExchange": 5, "Refresh": 10, "Revoke": 1},
	"tokenuse":  {"Authorize": 3, "Login": 3, "Callback": 4, "CodeExchange": 5, "Refresh": 1, "UserInfo": 4, "Introspect": 5, "Revoke": 4, "Expire": 1, "EndSession": 2, "TokenExchange": 3},
	"device":    {"DeviceAuthorize": 4, "Approve": 3, "Deny": 1, "ExpireDevice": 1, "Poll": 10, "UserInfo": 1},
	"logout":    {"Authorize": 3, "Login": 3, "Callback": 4, "CodeExchange": 5, "EndSession": 8, "UserInfo": 1},
	"exchange":  {"Authorize": 3, "Login": 3, "Callback": 4, "CodeExchange": 6, "TokenExchange": 12, "Revoke": 1, "Expire": 1, "UserInfo": 1, "Introspect": 1},
	"clientauth": {"Authorize": 3, "Login": 3, "Callback": 4, "CodeExchange": 5, "Refresh": 3, "Introspect": 3, "Revoke": 3,
		"DeviceAuthorize": 3, "Approve": 1, "Poll": 3, "ClientCreds": 4, "JWTBearer": 2, "TokenExchange": 4},
	"all": {"ClientCreds": 1, "JWTBearer": 1, "TokenExchange": 3, "Authorize": 3, "Login": 3, "Callback": 4, "CodeExchange": 5, "Refresh": 3, "UserInfo": 2, "Introspect": 2, "Revoke": 2,
		"Expire": 1, "EndSession": 2, "DeviceAuthorize": 2, "Approve": 1, "Deny": 1, "ExpireDevice": 1, "Poll": 3},
}

func (g *gen) chooseOp() string {
	w, ok := focusWeights[g.focus]
	if !ok {
		w = focusWeights["all"]
	}
	names := make([]string, 0, len(w))
	total := 0
	for k, v := range w {
		names = append(names, k)
		total += v
	}
	sort.Strings(names)
	x := g.rng.Intn(total)
	for _, k := range names {
		if x < w[k] {
			return k
		}
		x -= w[k]
	}
	return names[0]
}

// pendingReqs: requests by login state (names), so that flows make progress.
func (g *gen) reqsWhere(done bool) []string {
	out := []string{}
	g.d.Store.Lock()
	for n, id := range g.d.reqID {
		if r, ok := g.d.Store.Requests[id]; ok && r.IsDone == done {
			out = append(out, n)
		}
	}
	g.d.Store.Unlock()
	sort.Strings(out)
	return out
}

func (g *gen) liveCodes() []string {
	out := []string{}
	g.d.Store.Lock()
	for n, raw := range g.d.codeRaw {
		if _, ok := g.d.Store.Codes[raw]; ok {
			out = append(out, n)
		}
	}
	g.d.Store.Unlock()
	sort.Strings(out)
	return out
}

func (g *gen) oneOf(xs []string, fallback string) string {
	if len(xs) == 0 || g.rng.Intn(8) == 0 {
		return fallback
	}
	return xs[g.rng.Intn(len(xs))]
}

func (g *gen) next() (string, M) {
	d := g.d
	switch op := g.chooseOp(); op {
	case "Authorize":
		c := g.pick("cw", "cw", "cx", "cx", "cp", "cj", "cn", "cz")
		rtype := "code"
		if c == "cx" && g.rng.Intn(2) == 0 {
			rtype = g.pick("id_token", "id_token token")
		}
		chall := g.pick("none", "none", "plain:v1", "s256:v1", "s256:v2")
		if c == "cp" && g.rng.Intn(4) != 0 {
			chall = g.pick("plain:v1", "s256:v1", "s256:v2")
		}
		a := M{"client": c, "uri": g.uriOf(c), "rtype": rtype, "rmode": g.pick("", "", "query", "fragment", "form_post"),
			"scopes": g.scopes(), "chall": chall,
			"state": g.pick("st1", "s t+2/=&%", "<\"'>", ""), "nonce": g.pick("n1", "n2", "")}
		if len(d.idtRaw) > 0 && g.rng.Intn(5) == 0 {
			// a returning user: the request carries an earlier ID token as hint (the storage is told its subject when the request is created)
			a["hint"] = M{"kind": g.pick("valid", "expired"), "id": g.existing(d.idtRaw, "i99")}
		}
		if g.focus == "authorize" {
			// other defects of the request, raised before or after the redirect-URI validation
			switch g.rng.Intn(8) {
			case 0:
				a["prompt"] = "none login"
			case 1:
				a["scopes"] = []string{}
			case 2:
				a["rtype"] = g.pick("", "id_token", "id_token token", "code")
			case 3:
				a["uri"] = g.pick("evil", "ucw", "ucx", "ucp", "")
			case 4:
				if len(d.idtRaw) > 0 {
					a["hint"] = M{"kind": g.pick("valid", "expired", "futureiat", "noiat", "wrongkey", "algnone"), "id": g.existing(d.idtRaw, "i99")}
				}
			}
		}
		return op, a
	case "RotateKey":
		return op, M{"keepKid": g.rng.Intn(3) == 0}
	case "Login":
		return op, M{"req": g.oneOf(g.reqsWhere(false), g.existing(d.reqID, "r99")), "user": g.pick("u1", "u2@idp.example")}
	case "Callback":
		return op, M{"req": g.oneOf(g.reqsWhere(true), g.existing(d.reqID, "r99"))}
	case "CodeExchange":
		code := g.oneOf(g.liveCodes(), g.existing(d.codeRaw, "k99"))
		c := g.client()
		uri, ver := g.uriOf(c), g.pick("none", "v1", "v2")
		cred := g.cred(c)
		if rn, ok := g.reqOfCode(code); ok && g.rng.Intn(4) != 0 {
			// the fitting request, with at most one deviation
			c, uri, ver = rn.Client, AbstractURI(rn.URI), g.verifierFor(rn.ChallName)
			cred = g.rightCred(c)
			switch g.rng.Intn(9) {
			case 0:
				ver = g.pick("none", "v1", "v2")
			case 1:
				c = g.client()
				cred = g.foreignCred(c, rn.Client)
			case 2:
				cred = g.cred(c)
			case 3:
				uri = g.pick("evil", "ucnEvil", "ucnEvil", "ucw", "ucw2", "ucx", "")
			}
		}
		return op, M{"caller": c, "cred": cred, "code": code, "uri": uri, "verifier": ver}
	case "Refresh":
		rt := g.existing(d.rtRaw, "f99")
		c := g.client()
		cred := g.cred(c)
		if o := g.ownerOfRT(rt); o != "" && o != c && g.rng.Intn(2) == 0 {
			cred = g.foreignCred(c, o)
		}
		if o := g.ownerOfRT(rt); o != "" && g.rng.Intn(4) != 0 {
			c, cred = o, g.rightCred(o)
			if g.rng.Intn(6) == 0 {
				cred = g.cred(c)
			}
		}
		sc := [][]string{{}, {}, {"openid"}, {"openid", "email"}, {"openid", "profile", "email", "offline_access", "phone"}, {"phone"}, {"openid", "offline_access"}, {"offline_access"}, {"email", "offline_access"}, {"profile"}}[g.rng.Intn(10)]
		return op, M{"caller": c, "cred": cred, "rt": rt, "scopes": sc}
	case "UserInfo":
		return op, M{"tok": g.tok()}
	case "Introspect":
		c := g.client()
		cred := g.cred(c)
		if g.rng.Intn(3) != 0 {
			c = g.pick("cw", "cx", "cj", "cs")
			cred = g.rightCred(c)
			if c == "cx" {
				cred = M{"kind": "basic", "secret": "right", "key": "none"}
			}
		}
		return op, M{"caller": c, "cred": cred, "tok": g.tok()}
	case "Revoke":
		c := g.client()
		cred := g.cred(c)
		if g.rng.Intn(3) != 0 {
			cred = g.rightCred(c)
		}
		if g.rng.Intn(3) == 0 {
			return op, M{"caller": c, "cred": cred, "kind": "rt", "tok": M{"form": "issued", "id": g.existing(d.rtRaw, "f99")}, "hint": g.pick("none", "refresh_token", "access_token")}
		}
		t := g.tok()
		if o := g.ownerOfAT(S(t, "id")); o != "" && g.rng.Intn(3) != 0 {
			c, cred = o, g.rightCred(o)
		} else if o != "" && o != c {
			cred = g.foreignCred(c, o)
		}
		return op, M{"caller": c, "cred": cred, "kind": "at", "tok": t, "hint": g.pick("none", "access_token", "refresh_token")}
	case "Expire":
		return op, M{"id": g.existing(d.atRaw, "a99")}
	case "ClientCreds":
		c := g.pick("cs", "cs", "cs", "cw", "cd", "cp", "cz")
		cred := g.rightCred(c)
		if g.rng.Intn(3) == 0 {
			cred = g.cred(c)
		}
		return op, M{"caller": c, "cred": cred, "scopes": [][]string{{}, {"api"}, {"openid", "api"}}[g.rng.Intn(3)]}
	case "JWTBearer":
		return op, M{"iss": g.pick("cj", "cj", "cw", "cz"), "key": g.pick("own", "own", "foreign"), "scopes": [][]string{{"openid"}, {"openid", "email", "api"}}[g.rng.Intn(2)]}
	case "TokenExchange":
		c := g.pick("cw", "cw", "cw", "cs", "cx", "cz")
		cred := g.rightCred(c)
		if g.rng.Intn(5) == 0 {
			cred = g.cred(c)
		}
		subj := g.ref(false)
		actor := M{"kind": "none", "form": "none", "id": "none", "declared": "none"}
		if g.rng.Intn(3) == 0 {
			actor = g.ref(true)
		}
		return op, M{"caller": c, "cred": cred, "subj": subj, "actor": actor,
			"requested": g.pick("", "access", "access", "refresh", "id", "jwt", "unknown"),
			"scopes":    [][]string{{"openid"}, {"openid", "email"}, {"openid", "email", "profile"}, {}, {"email"}}[g.rng.Intn(5)]}
	case "DeviceAuthorize":
		if g.rng.Intn(4) == 0 {
			return op, M{"caller": "cn", "cred": g.rightCred("cn"), "scopes": g.scopes()}
		}
		c := g.pick("cx", "cx", "cp", "cp", "cd", "cd", "cw", "cz")
		cred := g.rightCred(c)
		if c == "cx" && g.rng.Intn(2) == 0 {
			cred = M{"kind": "basic", "secret": "right", "key": "none"}
		}
		if g.rng.Intn(5) == 0 {
			cred = g.cred(c)
		}
		return op, M{"caller": c, "cred": cred, "scopes": g.scopes()}
	case "Approve", "Deny", "ExpireDevice":
		return op, M{"dc": g.existing(d.dcRaw, "d99"), "user": g.pick("u1", "u2@idp.example")}
	case "Poll":
		dc := g.existing(d.dcRaw, "d99")
		c := g.pick("cx", "cp", "cd", "cw")
		if o := g.ownerOfDC(dc); o != "" && g.rng.Intn(5) != 0 {
			c = o
		}
		cred := g.rightCred(c)
		if c == "cx" && g.rng.Intn(2) == 0 {
			cred = M{"kind": "basic", "secret": "right", "key": "none"}
		}
		switch g.rng.Intn(8) {
		case 0:
			cred = g.cred(c)
		case 1:
			// a client registered with a credential that just names itself
			cred = M{"kind": "none", "secret": "none", "key": "none"}
		}
		return op, M{"caller": c, "cred": cred, "dc": dc, "slow": g.rng.Intn(8) == 0}
	default:
		hint := M{"kind": "none", "id": "none"}
		if len(d.idtRaw) > 0 && g.rng.Intn(4) != 0 {
			hint = M{"kind": g.pick("valid", "valid", "expired", "multiaud", "multiaud", "futureiat", "noiat", "wrongkey", "wrongiss", "algnone"), "id": g.existing(d.idtRaw, "i99")}
		}
		host := "A"
		if d.Cfg.Dyn && g.rng.Intn(3) == 0 {
			host = "B"
		}
		return "EndSession", M{"hint": hint, "client": g.pick("", "", "cw", "cx", "cj", "cn"), "uri": g.pick("", "plcw", "plcx", "plcj", "evil", "plcwG", "ucwG", "plcxNear", "plcn", "plcnEvil"), "state": g.pick("", "ls1", "l s+2&="), "host": host}
	}
}

// ref produces a token reference for a token-exchange request.
func (g *gen) ref(preferGood bool) M {
	d := g.d
	if g.focus == "exchange" && g.rng.Intn(8) == 0 {
		// a third-party token, valid in one position only
		return M{"kind": g.pick("extSubject", "extActor"), "form": "issued", "id": g.pick("u1", "u2@idp.example"), "declared": g.pick("jwt", "jwt", "jwt", "access")}
	}
	switch k := g.rng.Intn(10); {
	case k < 5:
		t := g.tok()
		if preferGood {
			t["form"] = "issued"
		}
		decl := "access"
		if g.rng.Intn(5) == 0 && S(t, "form") == "issued" {
			decl = g.pick("refresh", "id", "jwt", "unknown", "absent")
		}
		if S(t, "form") == "garbage" && g.rng.Intn(2) == 0 {
			decl = "absent"
		}
		return M{"kind": "access", "form": S(t, "form"), "id": S(t, "id"), "declared": decl}
	case k < 7:
		decl := "refresh"
		if g.rng.Intn(8) == 0 {
			decl = "access"
		}
		return M{"kind": "refresh", "form": "issued", "id": g.existing(d.rtRaw, "f99"), "declared": decl}
	default:
		if len(d.idtRaw) == 0 {
			return M{"kind": "access", "form": "garbage", "id": "a99", "declared": "access"}
		}
		form := g.pick("valid", "valid", "valid", "expired", "wrongkey", "wrongiss", "algnone")
		if preferGood {
			form = "valid"
		}
		return M{"kind": "id", "form": form, "id": g.existing(d.idtRaw, "i99"), "declared": "id"}
	}
}

func (g *gen) ownerOfAT(name string) string {
	g.d.Store.Lock()
	defer g.d.Store.Unlock()
	for sid, n := range g.d.atNm {
		if n == name {
			if t, ok := g.d.Store.Tokens[sid]; ok {
				return t.Client
			}
		}
	}
	return ""
}

func (g *gen) ownerOfDC(name string) string {
	raw, ok := g.d.dcRaw[name]
	if !ok {
		return ""
	}
	g.d.Store.Lock()
	defer g.d.Store.Unlock()
	if dv, ok := g.d.Store.Devices[raw]; ok {
		return dv.State.ClientID
	}
	return ""
}

type reqInfo struct {
	Client, URI, ChallName string
}

func (g *gen) reqOfCode(code string) (reqInfo, bool) {
	raw, ok := g.d.codeRaw[code]
	if !ok {
		return reqInfo{}, false
	}
	g.d.Store.Lock()
	defer g.d.Store.Unlock()
	id, ok := g.d.Store.Codes[raw]
	if !ok {
		return reqInfo{}, false
	}
	r, ok := g.d.Store.Requests[id]
	if !ok {
		return reqInfo{}, false
	}
	ch := "none"
	if r.Challenge != nil {
		for _, v := range []string{"v1", "v2"} {
			if r.Challenge.Challenge == verifierString(v) || r.Challenge.Challenge != "" && string(r.Challenge.Method) == "S256" && r.Challenge.Challenge == s256(v) {
				ch = v
			}
		}
	}
	return reqInfo{Client: r.Client, URI: r.URI, ChallName: ch}, true
}

func (g *gen) verifierFor(ch string) string {
	if ch == "none" {
		return "none"
	}
	return ch
}

func (g *gen) ownerOfRT(rt string) string {
	raw, ok := g.d.rtRaw[rt]
	if !ok {
		return ""
	}
	g.d.Store.Lock()
	defer g.d.Store.Unlock()
	if r, ok := g.d.Store.Refresh[raw]; ok {
		return r.Client
	}
	return ""
}

func s256(v string) string { return oidcS256(verifierString(v)) }
