package opdrv

import (
	"bufio"
	"encoding/json"
	"fmt"
	"io"
	"os"
)

// Behaviour is one TLC-generated (or randomly generated) sequence of abstract operations.
type Behaviour struct {
	ID    string `json:"id"`
	Cfg   *Cfg   `json:"cfg,omitempty"`
	Steps []Step `json:"steps"`
}

type Step struct {
	Op   string `json:"op"`
	Args M      `json:"args"`
	Exp  M      `json:"out,omitempty"` // outcome predicted by the design spec (Decide*), for divergence notes
}

// TraceWriter writes ndjson trace lines and the parallel concrete log.
type TraceWriter struct {
	w    *bufio.Writer
	raw  *bufio.Writer
	Line int
}

func NewTraceWriter(trace, raw io.Writer) *TraceWriter {
	tw := &TraceWriter{w: bufio.NewWriterSize(trace, 1<<20)}
	if raw != nil {
		tw.raw = bufio.NewWriterSize(raw, 1<<20)
	}
	return tw
}

func (t *TraceWriter) Emit(ev M, raw any) {
	t.Line++
	b, err := json.Marshal(ev)
	must(err)
	t.w.Write(b)
	t.w.WriteByte('\n')
	if t.raw != nil {
		rb, _ := json.Marshal(M{"line": t.Line, "raw": raw})
		t.raw.Write(rb)
		t.raw.WriteByte('\n')
	}
}

func (t *TraceWriter) Flush() {
	t.w.Flush()
	if t.raw != nil {
		t.raw.Flush()
	}
}

// ReplayBehaviour executes b on a fresh provider on the given router and records the trace.
func ReplayBehaviour(w *WorldJSON, b *Behaviour, router string, tw *TraceWriter) (divergences []string) {
	cfg := DefaultCfg(router)
	if b.Cfg != nil {
		cfg = *b.Cfg
		cfg.Router = router
		if cfg.Alg == "" {
			cfg.Alg = "ES256"
		}
	}
	d := NewDriver(w, cfg)
	tw.Emit(M{"op": "Reset", "beh": b.ID, "cfg": cfg, "args": M{}, "out": NoOut()}, nil)
	for i, s := range b.Steps {
		out := d.Exec(s.Op, s.Args)
		tw.Emit(M{"op": s.Op, "beh": b.ID, "step": i + 1, "router": router, "args": s.Args, "out": out}, d.LastRaw)
		if s.Exp != nil {
			if ec, oc := S(s.Exp, "class"), S(out, "class"); ec != "" && ec != oc {
				divergences = append(divergences, fmt.Sprintf("%s/%s step %d %s: design=%s code=%s", b.ID, router, i+1, s.Op, ec, oc))
			}
		}
	}
	return
}

func ReadBehaviours(path string) ([]*Behaviour, error) {
	f, err := os.Open(path)
	if err != nil {
		return nil, err
	}
	defer f.Close()
	var out []*Behaviour
	sc := bufio.NewScanner(f)
	sc.Buffer(make([]byte, 1<<20), 1<<26)
	for sc.Scan() {
		if len(sc.Bytes()) == 0 {
			continue
		}
		b := new(Behaviour)
		if err := json.Unmarshal(sc.Bytes(), b); err != nil {
			return nil, err
		}
		out = append(out, b)
	}
	return out, sc.Err()
}
