package opdrv

// Scripted tables inside seeded histories: products (endpoint x client x credential presentation, token state x endpoint) that
// random mixing reaches only by luck. They are ordinary events of a history: the monitor judges them with the same rules.

var noActor = M{"kind": "none", "form": "none", "id": "none", "declared": "none"}

func atRef(id string) M { return M{"kind": "access", "form": "issued", "id": id, "declared": "access"} }
func rtRef(id string) M {
	return M{"kind": "refresh", "form": "issued", "id": id, "declared": "refresh"}
}

// presentations lists every way a request can present client credentials.
func presentations(other string) []M {
	return []M{
		{"kind": "none", "secret": "none", "key": "none"},
		{"kind": "basic", "secret": "right", "key": "none"},
		{"kind": "basic", "secret": "wrong", "key": "none"},
		{"kind": "post", "secret": "right", "key": "none"},
		{"kind": "post", "secret": "wrong", "key": "none"},
		{"kind": "assertion", "secret": "none", "key": "own"},
		{"kind": "assertion", "secret": "none", "key": "foreign"},
		{"kind": "assertion", "secret": "none", "key": "sibling"},
		{"kind": "basic", "secret": "right", "key": "none", "alias": other},
	}
}

// lastAT / lastRT: the names of the tokens of the most recent token response.
func lastNames(out M) (at, rt, idt string) {
	return S(Sub(out, "at"), "name"), S(Sub(out, "rt"), "name"), S(Sub(out, "idt"), "name")
}

// codeFlowOut runs a complete, fitting authorization-code flow for client c and returns the token response.
func (g *gen) codeFlowOut(c string, emit func(string, M) M) M {
	cl := g.w.Clients[c]
	if len(cl.URIs) == 0 {
		return NoOut()
	}
	chall, ver := "none", "none"
	if cl.Auth == "none" {
		chall, ver = "s256:v1", "v1"
	}
	out := emit("Authorize", M{"client": c, "uri": cl.URIs[0], "rtype": "code", "rmode": "", "scopes": []string{"openid", "email", "offline_access"},
		"chall": chall, "state": "st1", "nonce": "n1"})
	req := S(out, "req")
	emit("Login", M{"req": req, "user": "u1"})
	out = emit("Callback", M{"req": req})
	return emit("CodeExchange", M{"caller": c, "cred": g.rightCred(c), "code": S(out, "code"), "uri": cl.URIs[0], "verifier": ver})
}

// credentialMatrix: every client-authenticated endpoint x every client of interest x every credential presentation,
// each time on an object the client would be entitled to with the right credentials.
func (g *gen) credentialMatrix(emit func(string, M) M) {
	other := func(c string) string {
		if c == "cw" {
			return "cx"
		}
		return "cw"
	}
	// refresh: a fresh refresh token of the client for every presentation (a success rotates it)
	for _, c := range []string{"cw", "cx", "cp", "cj", "cn"} {
		for _, cr := range presentations(other(c)) {
			_, rt, _ := lastNames(g.codeFlowOut(c, emit))
			if rt == "none" || rt == "" {
				continue
			}
			emit("Refresh", M{"caller": c, "cred": cr, "rt": rt, "scopes": []string{}})
		}
	}
	// code exchange: a fresh code of the client for every presentation
	for _, c := range []string{"cw", "cx", "cp", "cj", "cn"} {
		cl := g.w.Clients[c]
		for _, cr := range presentations(other(c)) {
			chall, ver := "none", "none"
			if cl.Auth == "none" {
				chall, ver = "s256:v1", "v1"
			}
			out := emit("Authorize", M{"client": c, "uri": cl.URIs[0], "rtype": "code", "rmode": "", "scopes": []string{"openid"}, "chall": chall, "state": "st1", "nonce": "n1"})
			emit("Login", M{"req": S(out, "req"), "user": "u2@idp.example"})
			out = emit("Callback", M{"req": S(out, "req")})
			emit("CodeExchange", M{"caller": c, "cred": cr, "code": S(out, "code"), "uri": cl.URIs[0], "verifier": ver})
		}
	}
	// token metadata endpoints on a live token of the client itself (audience = the client)
	for _, c := range []string{"cw", "cx", "cp", "cj", "cn"} {
		at, _, _ := lastNames(g.codeFlowOut(c, emit))
		if at == "none" || at == "" {
			continue
		}
		for _, cr := range presentations(other(c)) {
			emit("Introspect", M{"caller": c, "cred": cr, "tok": M{"form": "issued", "id": at}})
		}
		for _, cr := range presentations(other(c)) {
			emit("Revoke", M{"caller": c, "cred": cr, "kind": "at", "tok": M{"form": "issued", "id": at}, "hint": "access_token"})
		}
	}
	// grants without a user: client credentials, token exchange, device authorization
	sub, _, _ := lastNames(g.codeFlowOut("cw", emit))
	for _, c := range []string{"cs", "cw", "cx", "cp", "cj", "cd", "cn", "cz"} {
		for _, cr := range presentations(other(c)) {
			emit("ClientCreds", M{"caller": c, "cred": cr, "scopes": []string{"api"}})
			if sub != "none" && sub != "" {
				emit("TokenExchange", M{"caller": c, "cred": cr, "subj": atRef(sub), "actor": noActor, "requested": "access", "scopes": []string{"openid"}})
			}
			emit("DeviceAuthorize", M{"caller": c, "cred": cr, "scopes": []string{"openid"}})
		}
	}
}

// deadTokenMatrix: a token that was revoked, whose session was ended, or that expired is presented at every endpoint that honours
// tokens - also in the ACTOR position of a token exchange whose subject token is live, and the other way round.
func (g *gen) deadTokenMatrix(emit func(string, M) M) {
	for _, how := range []string{"revoke", "revokeRT", "logout", "expire"} {
		liveAT, _, _ := lastNames(g.codeFlowOut("cw", emit))
		deadAT, deadRT, deadIDT := lastNames(g.codeFlowOut("cw", emit))
		if liveAT == "none" || deadAT == "none" {
			continue
		}
		switch how {
		case "revoke":
			emit("Revoke", M{"caller": "cw", "cred": g.rightCred("cw"), "kind": "at", "tok": M{"form": "issued", "id": deadAT}, "hint": "access_token"})
		case "revokeRT":
			emit("Revoke", M{"caller": "cw", "cred": g.rightCred("cw"), "kind": "rt", "tok": M{"form": "issued", "id": deadRT}, "hint": "refresh_token"})
		case "logout":
			// ends the session of (u1, cw): every token of that session dies, the "live" one as well - a fresh live token of another user follows
			emit("EndSession", M{"hint": M{"kind": "valid", "id": deadIDT}, "client": "", "uri": "", "state": "", "host": "A"})
			out := emit("Authorize", M{"client": "cw", "uri": g.w.Clients["cw"].URIs[0], "rtype": "code", "rmode": "", "scopes": []string{"openid", "offline_access"},
				"chall": "none", "state": "st1", "nonce": "n1"})
			emit("Login", M{"req": S(out, "req"), "user": "u2@idp.example"})
			out = emit("Callback", M{"req": S(out, "req")})
			liveAT, _, _ = lastNames(emit("CodeExchange", M{"caller": "cw", "cred": g.rightCred("cw"), "code": S(out, "code"), "uri": g.w.Clients["cw"].URIs[0], "verifier": "none"}))
		case "expire":
			emit("Expire", M{"id": deadAT})
		}
		emit("UserInfo", M{"tok": M{"form": "issued", "id": deadAT}})
		emit("Introspect", M{"caller": "cw", "cred": g.rightCred("cw"), "tok": M{"form": "issued", "id": deadAT}})
		for _, c := range []string{"cw", "cs"} {
			emit("TokenExchange", M{"caller": c, "cred": g.rightCred(c), "subj": atRef(deadAT), "actor": noActor, "requested": "access", "scopes": []string{"openid"}})
			emit("TokenExchange", M{"caller": c, "cred": g.rightCred(c), "subj": atRef(liveAT), "actor": atRef(deadAT), "requested": "access", "scopes": []string{"openid"}})
			emit("TokenExchange", M{"caller": c, "cred": g.rightCred(c), "subj": atRef(deadAT), "actor": atRef(liveAT), "requested": "access", "scopes": []string{"openid"}})
		}
		if how == "revokeRT" || how == "logout" {
			emit("Refresh", M{"caller": "cw", "cred": g.rightCred("cw"), "rt": deadRT, "scopes": []string{}})
			emit("TokenExchange", M{"caller": "cw", "cred": g.rightCred("cw"), "subj": rtRef(deadRT), "actor": noActor, "requested": "access", "scopes": []string{"openid"}})
		}
		// control: the live token still works in both positions
		emit("UserInfo", M{"tok": M{"form": "issued", "id": liveAT}})
		emit("TokenExchange", M{"caller": "cw", "cred": g.rightCred("cw"), "subj": atRef(liveAT), "actor": atRef(liveAT), "requested": "access", "scopes": []string{"openid"}})
	}
}

// refreshWithoutGrant: a client that holds a refresh token bound to it (obtained by token exchange) but is not registered for the
// refresh grant asks for a refresh - with grant_type in the body and in the URL query.
func (g *gen) refreshWithoutGrant(emit func(string, M) M) {
	sub, _, _ := lastNames(g.codeFlowOut("cw", emit))
	if sub == "none" || sub == "" {
		return
	}
	// a client that IS registered for the refresh grant (and for token exchange) obtains a refresh token by token exchange and redeems it:
	// fine while the provider enables the refresh grant - refused (unsupported_grant_type) while it does not, whatever else is enabled
	if out := emit("TokenExchange", M{"caller": "cw", "cred": g.rightCred("cw"), "subj": atRef(sub), "actor": noActor, "requested": "refresh", "scopes": []string{"openid"}}); true {
		if _, rt, _ := lastNames(out); rt != "none" && rt != "" {
			emit("Refresh", M{"caller": "cw", "cred": g.rightCred("cw"), "rt": rt, "scopes": []string{}})
		}
	}
	for _, inQuery := range []bool{false, true} {
		out := emit("TokenExchange", M{"caller": "cs", "cred": g.rightCred("cs"), "subj": atRef(sub), "actor": noActor, "requested": "refresh", "scopes": []string{"openid"}})
		_, rt, _ := lastNames(out)
		if rt == "none" || rt == "" {
			continue
		}
		a := M{"caller": "cs", "cred": g.rightCred("cs"), "rt": rt, "scopes": []string{}}
		if inQuery {
			a["gtInQuery"] = true
		}
		emit("Refresh", a)
	}
}

// thirdPartyMatrix: third-party tokens (accepted by the storage in one position only) in both positions of a token exchange,
// alone and next to tokens of the provider, for every token type that can be requested.
func (g *gen) thirdPartyMatrix(emit func(string, M) M) {
	ext := func(kind, user string) M { return M{"kind": kind, "form": "issued", "id": user, "declared": "jwt"} }
	own, _, _ := lastNames(g.codeFlowOut("cw", emit))
	subjects := []M{ext("extSubject", "u1"), ext("extActor", "u1")}
	actors := []M{noActor, ext("extActor", "u2@idp.example"), ext("extSubject", "u2@idp.example")}
	if own != "none" && own != "" {
		subjects = append(subjects, atRef(own))
		actors = append(actors, atRef(own))
	}
	for _, sj := range subjects {
		for _, ac := range actors {
			for _, rq := range []string{"access", "id", "refresh"} {
				emit("TokenExchange", M{"caller": "cw", "cred": g.rightCred("cw"), "subj": sj, "actor": ac, "requested": rq, "scopes": []string{"openid"}})
			}
		}
	}
}

// scopeMatrix: granted scope lists (plain, with a repeated value) x requested scope lists of a refresh (empty, subset, repeated
// value, one more scope, disjoint), each on a fresh grant of the client, followed by a plain refresh of whatever token is current -
// over the chain the granted scope never grows.
func (g *gen) scopeMatrix(emit func(string, M) M) {
	granted := [][]string{{"openid", "offline_access"}, {"openid", "openid", "offline_access"}, {"openid", "email", "offline_access", "email"},
		{"openid", "offline_access", "offline_access", "openid"}}
	requested := [][]string{{}, {"openid"}, {"openid", "openid"}, {"openid", "email"}, {"phone"}, {"openid", "phone", "offline_access"},
		{"offline_access", "email"}, {"openid", "profile", "email", "offline_access"}}
	for _, c := range []string{"cw", "cp"} {
		cl := g.w.Clients[c]
		chall, ver := "none", "none"
		if cl.Auth == "none" {
			chall, ver = "s256:v1", "v1"
		}
		for _, gr := range granted {
			for _, rq := range requested {
				out := emit("Authorize", M{"client": c, "uri": cl.URIs[0], "rtype": "code", "rmode": "", "scopes": gr, "chall": chall, "state": "st1", "nonce": "n1"})
				req := S(out, "req")
				emit("Login", M{"req": req, "user": "u1"})
				out = emit("Callback", M{"req": req})
				_, rt, _ := lastNames(emit("CodeExchange", M{"caller": c, "cred": g.rightCred(c), "code": S(out, "code"), "uri": cl.URIs[0], "verifier": ver}))
				if rt == "none" || rt == "" {
					continue
				}
				out = emit("Refresh", M{"caller": c, "cred": g.rightCred(c), "rt": rt, "scopes": rq})
				if _, next, _ := lastNames(out); next != "none" && next != "" {
					rt = next
				}
				emit("Refresh", M{"caller": c, "cred": g.rightCred(c), "rt": rt, "scopes": []string{}})
			}
		}
	}
}

// exchangeAuthMatrix: every client that may exchange tokens first succeeds with its registered credentials and then presents every
// other kind of credentials - what a client proved in an earlier request does not authenticate a later one.
func (g *gen) exchangeAuthMatrix(emit func(string, M) M) {
	sub, _, _ := lastNames(g.codeFlowOut("cw", emit))
	if sub == "none" || sub == "" {
		return
	}
	other := func(c string) string {
		if c == "cw" {
			return "cx"
		}
		return "cw"
	}
	for _, c := range []string{"cw", "cs", "cx", "cj"} {
		for _, cr := range presentations(other(c)) {
			emit("TokenExchange", M{"caller": c, "cred": g.rightCred(c), "subj": atRef(sub), "actor": noActor, "requested": "access", "scopes": []string{"openid"}})
			emit("TokenExchange", M{"caller": c, "cred": cr, "subj": atRef(sub), "actor": noActor, "requested": "access", "scopes": []string{"openid"}})
		}
	}
}

// withdrawnGrant: clients of every kind obtain a refresh token, the administrator then withdraws the refresh grant from their
// registration, and they try to redeem the token they still hold (with their registered credentials).
func (g *gen) withdrawnGrant(emit func(string, M) M) {
	for _, c := range []string{"cp", "cw", "cj"} {
		_, rt, _ := lastNames(g.codeFlowOut(c, emit))
		if rt == "none" || rt == "" {
			continue
		}
		emit("Withdraw", M{"client": c, "grant": "refresh"})
		emit("Refresh", M{"caller": c, "cred": g.rightCred(c), "rt": rt, "scopes": []string{}})
	}
}
