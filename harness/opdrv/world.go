// Package opdrv drives the real OpenID Provider (both routers) with the abstract operations
// of spec/OP.tla and projects the concrete responses back to the abstract vocabulary.
package opdrv

import (
	"encoding/json"
	"fmt"
	"io"
	"log/slog"
	"net/http"
	"os"
	"sort"
	"strings"
	"sync/atomic"
	"time"

	jose "github.com/go-jose/go-jose/v4"

	"verif/harness/modelstore"

	"github.com/zitadel/oidc/v3/pkg/oidc"
	"github.com/zitadel/oidc/v3/pkg/op"
)

const Issuer = "https://op.example.test"

// TenantB is a second host of an issuer-from-host provider.
const TenantB = "https://tenant-b.example.test"

// WorldJSON is the JSON form of OPWorld!World (written by TLC).
type WorldJSON struct {
	Clients map[string]struct {
		Auth       string   `json:"auth"`
		App        string   `json:"app"`
		Grants     []string `json:"grants"`
		RTypes     []string `json:"rtypes"`
		URIs       []string `json:"uris"`
		PostLogout []string `json:"postLogout"`
		LoginGlob  []string `json:"loginGlob"` // names of URIs matched by the client's login redirect glob (only)
		PLGlob     []string `json:"plGlob"`    // names of URIs matched by the client's post-logout redirect glob (only)
		Skew       int      `json:"skew"`      // client clock skew, seconds
		AT         string   `json:"at"`
		Assert     bool     `json:"assert"`
		Aud        []string `json:"aud"`    // resource servers the client's tokens are meant for (empty: the client itself)
		HasKey     bool     `json:"hasKey"` // the storage holds a public key for the client (whatever its auth method)
		Method     string   `json:"method"` // "unset": the registration names no auth method (empty string = client_secret_basic by default)
	} `json:"clients"`
	Users []string `json:"users"`
	URIs  []string `json:"uris"`
}

func LoadWorld(path string) (*WorldJSON, error) {
	b, err := os.ReadFile(path)
	if err != nil {
		return nil, err
	}
	w := new(WorldJSON)
	if err := json.Unmarshal(b, w); err != nil {
		return nil, err
	}
	return w, nil
}

// ConcreteURI maps the abstract URI names of OPWorld to concrete strings.
var ConcreteURI = map[string]string{
	"ucw":      "https://cw.example.test/cb",
	"ucw2":     "https://cw.example.test/cb2?keep=a%2Bb&k=1",
	"ucx":      "https://cx.example.test/cb",
	"ucp":      "com.example.cp:/oauth/cb",
	"ucj":      "https://cj.example.test/cb",
	"ucn":      "http://127.0.0.1:7777/cn/cb",
	"evil":     "https://evil.example.test/cb",
	"ucnEvil":  "https://evil.example.test/cn/cb",
	"plcw":     "https://cw.example.test/bye",
	"plcx":     "https://cx.example.test/bye?x=1",
	"plcj":     "https://cj.example.test/bye",
	"plcxNear": "https://cx.example.test/bye.x=1",
	"plcn":     "http://127.0.0.1:7777/cn/bye",
	"plcnEvil": "https://evil.example.test/cn/bye",
	"ucwG":     "https://cw.example.test/cbs/one",
	"plcwG":    "https://cw.example.test/byes/one",
	"":         "",
}

// ConcreteGlob: the glob pattern behind a globbed URI name.
var ConcreteGlob = map[string]string{"ucwG": "https://cw.example.test/cbs/*", "plcwG": "https://cw.example.test/byes/*"}

func AbstractURI(concrete string) string {
	for k, v := range ConcreteURI {
		if v == concrete && k != "" {
			return k
		}
	}
	if concrete == "" {
		return ""
	}
	return "other:" + concrete
}

func Secret(client string) string { return "secret-" + client }

// ClientKey returns the (cached) private key registered for a private_key_jwt client.
func ClientKey(client string) *modelstore.SignKey {
	return modelstore.GenKey("k"+client, jose.ES256)
}

// ForeignKey is a key that is registered for nobody but uses the kid of `client`'s key.
func ForeignKey(client string) *modelstore.SignKey {
	k := *modelstore.GenKey("foreign-for-"+client, jose.ES256)
	k.KID = "k" + client
	return &k
}

func BuildRegs(w *WorldJSON) []*modelstore.ClientReg {
	var out []*modelstore.ClientReg
	ids := make([]string, 0, len(w.Clients))
	for id := range w.Clients {
		ids = append(ids, id)
	}
	sort.Strings(ids)
	for _, id := range ids {
		c := w.Clients[id]
		r := &modelstore.ClientReg{ID: id, Auth: c.Auth, App: c.App, Grants: c.Grants, RTypes: c.RTypes,
			ATType: c.AT, IDTLifetime: time.Hour, ExtraScopes: []string{"api"}, Assertion: c.Assert, MethodUnset: c.Method == "unset" && c.Auth == "basic", Audience: c.Aud}
		if c.Auth == "basic" || c.Auth == "post" {
			r.Secret = Secret(id)
		}
		r.Skew = time.Duration(c.Skew) * time.Second
		for _, u := range c.URIs {
			r.URIs = append(r.URIs, ConcreteURI[u])
		}
		for _, u := range c.PostLogout {
			r.PostLogout = append(r.PostLogout, ConcreteURI[u])
		}
		for _, u := range c.LoginGlob {
			r.HasGlobs, r.Globs = true, append(r.Globs, ConcreteGlob[u])
		}
		for _, u := range c.PLGlob {
			r.HasGlobs, r.PLGlobs = true, append(r.PLGlobs, ConcreteGlob[u])
		}
		if c.Auth == "pkjwt" || c.HasKey {
			k := ClientKey(id)
			r.Keys = map[string]*jose.JSONWebKey{k.KID: {Key: k.Pub, KeyID: k.KID, Use: "sig", Algorithm: string(k.Alg)}}
		}
		out = append(out, r)
	}
	return out
}

// Cfg is the provider configuration of one history (spec variable cfg).
type Cfg struct {
	Router   string `json:"router"`
	Post     bool   `json:"post"`
	PKJWT    bool   `json:"pkjwt"`
	Refresh  bool   `json:"refresh"`
	ReqObj   bool   `json:"reqobj"`
	S256     bool   `json:"s256"`
	CC       bool   `json:"cc"`
	TE       bool   `json:"te"`
	Dev      bool   `json:"dev"`
	OIDCErrs bool   `json:"oidcErrs"` // the storage reports an unknown client as *oidc.Error
	LiveRT   bool   `json:"liveRT"`   // the storage's RefreshTokenRequest is a live view of the stored grant
	NoKeyUse bool   `json:"noKeyUse"` // the storage's public keys carry no "use"
	Dyn      bool   `json:"dyn"`      // issuer derived from the request host (op.IssuerFromHost): several tenants on one provider
	FastPoll bool   `json:"fastPoll"` // device authorization configured with a poll interval of one second (instead of five)
	MidRot   bool   `json:"midRot"`   // the operator rotates signing keys across algorithms (verifiers configured for all of them); rotations may land mid-request
	Alg      string `json:"alg"`
	SessSt   string `json:"sessionState"`
	Policy   Policy `json:"policy"`
}

// Policy is the token-exchange policy of the store (spec: cfg.policy).
type Policy struct {
	Deny         bool   `json:"deny"`
	DenyAtCreate bool   `json:"denyAtCreate"` // which of the storage's two hooks raises the veto (the spec does not care)
	DefType      string `json:"defType"`
	Imp          string `json:"imp"`
	Drop         string `json:"drop"`
}

var tokenTypeURN = map[string]string{
	"access":  "urn:ietf:params:oauth:token-type:access_token",
	"refresh": "urn:ietf:params:oauth:token-type:refresh_token",
	"id":      "urn:ietf:params:oauth:token-type:id_token",
	"jwt":     "urn:ietf:params:oauth:token-type:jwt",
	"unknown": "urn:example:token-type:unknown",
}

func typeFromURN(u string) string {
	for k, v := range tokenTypeURN {
		if v == u {
			return k
		}
	}
	return u
}

// AllAlgs: every signature algorithm the harness ever signs provider tokens with.
var AllAlgs = []string{"RS256", "ES256", "PS256", "ES384", "ES512", "EdDSA", "RS384"}

// otherHashFamily names an algorithm whose at_hash / c_hash hash differs from alg's.
func otherHashFamily(alg string) string {
	switch alg {
	case "RS256", "ES256":
		return "ES384"
	case "PS256":
		return "ES512"
	}
	return "ES256"
}

func DefaultCfg(router string) Cfg {
	return Cfg{Router: router, Post: true, PKJWT: true, Refresh: true, ReqObj: true, S256: true, CC: true, TE: true, Dev: true, Alg: "ES256"}
}

var CryptoKey = [32]byte{1, 2, 3, 4, 5, 6, 7, 8, 9, 10, 11, 12, 13, 14, 15, 16, 17, 18, 19, 20, 21, 22, 23, 24, 25, 26, 27, 28, 29, 30, 31, 32}
var OtherCryptoKey = [32]byte{9, 9, 9, 4, 5, 6, 7, 8, 9, 10, 11, 12, 13, 14, 15, 16, 17, 18, 19, 20, 21, 22, 23, 24, 25, 26, 27, 28, 29, 30, 31, 32}

func init() {
	slog.SetDefault(slog.New(slog.NewTextHandler(io.Discard, nil)))
}

var quiet = slog.New(slog.NewTextHandler(io.Discard, nil))

// BuildProvider constructs a real provider on the requested router over store.
func BuildProvider(store *modelstore.Store, cfg Cfg, extra ...op.Option) (http.Handler, *op.Provider, error) {
	conf := &op.Config{
		CryptoKey:                CryptoKey,
		DefaultLogoutRedirectURI: "https://op.example.test/logged-out",
		CodeMethodS256:           cfg.S256,
		AuthMethodPost:           cfg.Post,
		AuthMethodPrivateKeyJWT:  cfg.PKJWT,
		GrantTypeRefreshToken:    cfg.Refresh,
		RequestObjectSupported:   cfg.ReqObj,
		DeviceAuthorization: op.DeviceAuthorizationConfig{
			Lifetime: 5 * time.Minute, PollInterval: 5 * time.Second, UserFormPath: "/device", UserCode: op.UserCodeBase20,
		},
	}
	if cfg.FastPoll {
		conf.DeviceAuthorization.PollInterval = time.Second
	}
	store.SessionState = cfg.SessSt
	store.NotFoundAsOIDC = cfg.OIDCErrs
	store.LiveRefresh, store.KeyUseAbsent = cfg.LiveRT, cfg.NoKeyUse
	store.Policy = modelstore.TEPolicy{Deny: cfg.Policy.Deny, DenyAtCreate: cfg.Policy.DenyAtCreate, Impersonate: cfg.Policy.Imp, DropScope: cfg.Policy.Drop}
	if cfg.Policy.DefType != "" {
		store.Policy.DefaultType = oidc.TokenType(tokenTypeURN[cfg.Policy.DefType])
	}
	st := modelstore.WithCaps(store, cfg.CC, cfg.TE, cfg.Dev)
	opts := append([]op.Option{op.WithLogger(quiet)}, extra...)
	if alg := string(store.Signing.Alg); alg != "" && alg != "RS256" && alg != "ES256" && alg != "PS256" {
		// an operator who signs with an algorithm outside the verifiers' default list configures the provider's own verifiers for it
		opts = append(opts, op.WithAccessTokenVerifierOpts(op.WithSupportedAccessTokenSigningAlgorithms(alg)),
			op.WithIDTokenHintVerifierOpts(op.WithSupportedIDTokenHintSigningAlgorithms(alg)))
	}
	if cfg.MidRot {
		opts = append(opts, op.WithAccessTokenVerifierOpts(op.WithSupportedAccessTokenSigningAlgorithms(AllAlgs...)),
			op.WithIDTokenHintVerifierOpts(op.WithSupportedIDTokenHintSigningAlgorithms(AllAlgs...)))
	}
	issuer := op.StaticIssuer(Issuer)
	if cfg.Dyn {
		issuer = op.IssuerFromHost("")
	}
	p, err := op.NewProvider(conf, st, issuer, opts...)
	if err != nil {
		return nil, nil, err
	}
	if cfg.Router == "L" {
		h := op.RegisterLegacyServer(op.NewLegacyServer(p, *op.DefaultEndpoints), op.AuthorizeCallbackHandler(p), op.WithFallbackLogger(quiet))
		return h, p, nil
	}
	return p, p, nil
}

var keyPoolSeq atomic.Int64

// SigningKeyFor returns a signing key for alg. Successive providers of one process get DIFFERENT key material under the SAME
// key id (a pool of three keys per algorithm): a multi-tenant process whose tenants happen to use equal key ids.
func SigningKeyFor(alg string) *modelstore.SignKey {
	if alg == "" {
		alg = "ES256"
	}
	i := keyPoolSeq.Add(1) % 3
	k := *modelstore.GenKey(fmt.Sprintf("op-%s-pool%d", strings.ToLower(alg), i), jose.SignatureAlgorithm(alg))
	k.KID = "op-" + strings.ToLower(alg)
	return &k
}

func must(err error) {
	if err != nil {
		panic(fmt.Sprintf("harness: %v", err))
	}
}
