// Package flowdrv drives the closed loop of spec/Flow.tla: the library's own relying parties (rp.NewRelyingPartyOIDC with the
// login handlers, rp.Userinfo, rp.RefreshTokens, rp.RevokeToken, rp.EndSession, rp.DeviceAuthorization / rp.DeviceAccessToken,
// rs.Introspect) talking in-process to the library's own provider (either router) over the harness storage. It replays behaviours
// of FlowDesign, adds seeded random histories, and records the trace that FlowTrace judges.
package flowdrv

import (
	"bufio"
	"context"
	"crypto/x509"
	"encoding/base64"
	"encoding/json"
	"encoding/pem"
	"errors"
	"fmt"
	"io"
	"math/rand"
	"net/http"
	"net/http/httptest"
	"net/url"
	"os"
	"runtime"
	"runtime/debug"
	"strings"
	"sync"
	"time"

	"golang.org/x/oauth2"

	"verif/harness/modelstore"
	"verif/harness/opdrv"

	"github.com/zitadel/oidc/v3/pkg/client"
	"github.com/zitadel/oidc/v3/pkg/client/rp"
	"github.com/zitadel/oidc/v3/pkg/client/rs"
	"github.com/zitadel/oidc/v3/pkg/client/tokenexchange"
	"github.com/zitadel/oidc/v3/pkg/crypto"
	httphelper "github.com/zitadel/oidc/v3/pkg/http"
	"github.com/zitadel/oidc/v3/pkg/oidc"
)

type M = map[string]any

// scopes: every relying party gets a slice of its own (the configuration is the caller's; the harness keeps the reference value apart)
func scopes() []string { return []string{"openid", "profile", "email", "offline_access"} }

const scopeString = "openid profile email offline_access"

const defaultLogout = "https://op.example.test/logged-out"

var postLogout = map[string]string{"cw": opdrv.ConcreteURI["plcw"], "cx": opdrv.ConcreteURI["plcx"], "cj": opdrv.ConcreteURI["plcj"]}
var redirectOf = map[string]string{"cw": opdrv.ConcreteURI["ucw"], "cx": opdrv.ConcreteURI["ucx"], "cj": opdrv.ConcreteURI["ucj"], "cp": opdrv.ConcreteURI["ucp"]}

// opTransport hands the requests of the relying parties to the in-process provider and remembers what the token endpoint answered.
type opTransport struct {
	w *World
}

func (t opTransport) RoundTrip(r *http.Request) (*http.Response, error) {
	rec := httptest.NewRecorder()
	// the provider's request context is its own: a client-side deadline does not travel over the wire
	t.w.h.ServeHTTP(rec, r.WithContext(context.WithoutCancel(r.Context())))
	if strings.HasSuffix(r.URL.Path, "/oauth/token") {
		t.w.mu.Lock()
		t.w.tokenReqs++
		var body struct {
			Error string `json:"error"`
		}
		json.Unmarshal(rec.Body.Bytes(), &body)
		t.w.lastTokenErr = body.Error
		t.w.mu.Unlock()
	}
	return rec.Result(), nil
}

type got struct {
	tokens *oidc.Tokens[*oidc.IDTokenClaims]
	state  string
}

type party struct {
	id       string
	rp       rp.RelyingParty
	login    http.Handler
	loginFP  http.Handler // the same login handler asking for response_mode=form_post
	te       tokenexchange.TokenExchanger
	callback http.Handler
	rs       rs.ResourceServer
	ch       *httphelper.CookieHandler
	pkce     bool
	last     *got
	unauth   int
	errs     int
}

type attempt struct {
	name, b, rp, state string
	mode               string
	post               bool // the provider answered with an auto-submitting form: the user agent POSTs the parameters
	authURL            string
	reqID              string
	callbackQuery      string // raw query of the provider's redirect to the relying party
}

type session struct {
	at, rt, idt, sub string
}

type World struct {
	cfg    opdrv.Cfg
	pkce   bool
	store  *modelstore.Store
	h      http.Handler
	hc     *http.Client
	rps    map[string]*party
	jar    map[string]map[string]string // browser/rp -> cookie name -> value
	atts   map[string]*attempt
	sess   map[string]*session
	devs   map[string]*oidc.DeviceAuthorizationResponse
	devRP  map[string]string
	names  map[string]string // raw token -> abstract name
	nA, nF int

	mu           sync.Mutex
	tokenReqs    int
	lastTokenErr string
	nState       int
}

func pemOf(k *modelstore.SignKey) []byte {
	b, err := x509.MarshalPKCS8PrivateKey(k.Priv)
	if err != nil {
		panic("harness: " + err.Error())
	}
	return pem.EncodeToMemory(&pem.Block{Type: "PRIVATE KEY", Bytes: b})
}

func NewWorld(w *opdrv.WorldJSON, router string, pkce bool, rng *rand.Rand) *World {
	cfg := opdrv.DefaultCfg(router)
	store := modelstore.New(opdrv.BuildRegs(w), opdrv.SigningKeyFor("ES256"))
	h, _, err := opdrv.BuildProvider(store, cfg)
	if err != nil {
		panic("harness: " + err.Error())
	}
	fw := &World{cfg: cfg, pkce: pkce, store: store, h: h, rps: map[string]*party{}, jar: map[string]map[string]string{}, atts: map[string]*attempt{},
		sess: map[string]*session{}, devs: map[string]*oidc.DeviceAuthorizationResponse{}, devRP: map[string]string{}, names: map[string]string{}}
	fw.hc = &http.Client{Transport: opTransport{fw}}
	ctx := context.Background()
	salt := rng.Int63()
	for i, id := range []string{"cw", "cx", "cj", "cp"} {
		p := &party{id: id, pkce: pkce || id == "cp"}
		key := func(seed byte) []byte {
			b := make([]byte, 32)
			for j := range b {
				b[j] = seed + byte(j) + byte(i*7)
			}
			return b
		}
		p.ch = httphelper.NewCookieHandler(key(1), key(60), httphelper.WithUnsecure())
		opts := []rp.Option{rp.WithCookieHandler(p.ch), rp.WithHTTPClient(fw.hc),
			rp.WithUnauthorizedHandler(func(rw http.ResponseWriter, r *http.Request, desc, state string) {
				p.unauth++
				http.Error(rw, desc, http.StatusUnauthorized)
			}),
			rp.WithErrorHandler(func(rw http.ResponseWriter, r *http.Request, errorType, errorDesc, state string) {
				p.errs++
				http.Error(rw, errorType, http.StatusBadRequest)
			})}
		if p.pkce {
			opts = append(opts, rp.WithPKCE(p.ch))
		}
		secret := ""
		switch w.Clients[id].Auth {
		case "basic":
			secret = opdrv.Secret(id)
		case "post":
			secret = opdrv.Secret(id)
			opts = append(opts, rp.WithAuthStyle(oauth2.AuthStyleInParams))
		case "pkjwt":
			k := opdrv.ClientKey(id)
			opts = append(opts, rp.WithJWTProfile(rp.SignerFromKeyAndKeyID(pemOf(k), k.KID)))
		}
		p.rp, err = rp.NewRelyingPartyOIDC(ctx, opdrv.Issuer, id, secret, redirectOf[id], scopes(), opts...)
		if err != nil {
			panic("harness: relying party " + id + ": " + err.Error())
		}
		stateFn := func() string {
			fw.mu.Lock()
			defer fw.mu.Unlock()
			fw.nState++
			return fmt.Sprintf("st%d-%x+/=&\"<%d", fw.nState, salt, fw.nState*7919) // a state that needs escaping on its way
		}
		p.login = rp.AuthURLHandler(stateFn, p.rp)
		p.loginFP = rp.AuthURLHandler(stateFn, p.rp, rp.WithResponseModeURLParam(oidc.ResponseModeFormPost))
		if id == "cw" {
			if p.te, err = tokenexchange.NewTokenExchangerClientCredentials(ctx, opdrv.Issuer, id, secret, tokenexchange.WithHTTPClient(fw.hc)); err != nil {
				panic("harness: token exchanger: " + err.Error())
			}
		}
		p.callback = rp.CodeExchangeHandler(func(rw http.ResponseWriter, r *http.Request, tokens *oidc.Tokens[*oidc.IDTokenClaims], state string, _ rp.RelyingParty) {
			p.last = &got{tokens: tokens, state: state}
			rw.WriteHeader(http.StatusOK)
		}, p.rp)
		switch w.Clients[id].Auth {
		case "pkjwt":
			k := opdrv.ClientKey(id)
			p.rs, err = rs.NewResourceServerJWTProfile(ctx, opdrv.Issuer, id, k.KID, pemOf(k), rs.WithClient(fw.hc))
		default:
			p.rs, err = rs.NewResourceServerClientCredentials(ctx, opdrv.Issuer, id, secret, rs.WithClient(fw.hc))
		}
		if err != nil {
			panic("harness: resource server " + id + ": " + err.Error())
		}
		fw.rps[id] = p
	}
	return fw
}

func (w *World) jarOf(b, rpID string) map[string]string {
	k := b + "/" + rpID
	if w.jar[k] == nil {
		w.jar[k] = map[string]string{}
	}
	return w.jar[k]
}

func serve(h http.Handler, r *http.Request) (rec *httptest.ResponseRecorder, pnc string) {
	rec = httptest.NewRecorder()
	func() {
		defer func() {
			if x := recover(); x != nil {
				pnc = fmt.Sprintf("%v\n%s", x, debug.Stack())
			}
		}()
		h.ServeHTTP(rec, r)
	}()
	return
}

func catch(f func()) (pnc string) {
	defer func() {
		if x := recover(); x != nil {
			pnc = fmt.Sprintf("%v\n%s", x, debug.Stack())
		}
	}()
	f()
	return
}

func (w *World) applySetCookies(jar map[string]string, rec *httptest.ResponseRecorder) (deleted map[string]bool) {
	deleted = map[string]bool{}
	for _, c := range rec.Result().Cookies() {
		if c.MaxAge < 0 || c.Value == "" {
			delete(jar, c.Name)
			deleted[c.Name] = true
		} else {
			jar[c.Name] = c.Value
		}
	}
	return
}

func (w *World) decode(h *httphelper.CookieHandler, name, value string) (string, bool) {
	r := httptest.NewRequest(http.MethodGet, "https://rp.example.test/", nil)
	r.AddCookie(&http.Cookie{Name: name, Value: value})
	v, err := h.CheckCookie(r, name)
	return v, err == nil
}

// name gives a token string its abstract name (a1, a2 ... / f1, f2 ...) in the order of first appearance.
func (w *World) name(prefix, raw string) string {
	if raw == "" {
		return "none"
	}
	if n, ok := w.names[raw]; ok {
		return n
	}
	var n string
	if prefix == "a" {
		w.nA++
		n = fmt.Sprintf("a%d", w.nA)
	} else {
		w.nF++
		n = fmt.Sprintf("f%d", w.nF)
	}
	w.names[raw] = n
	return n
}

// tokenID: the storage id behind an access token string (opaque: sealed "id:subject"; JWT: jti).
func tokenID(raw string) string {
	if strings.Count(raw, ".") == 2 {
		if p, err := base64.RawURLEncoding.DecodeString(strings.Split(raw, ".")[1]); err == nil {
			var c struct {
				JTI string `json:"jti"`
			}
			json.Unmarshal(p, &c)
			return c.JTI
		}
		return ""
	}
	plain, err := crypto.DecryptAES(raw, string(opdrv.CryptoKey[:]))
	if err != nil {
		return ""
	}
	id, _, _ := strings.Cut(plain, ":")
	return id
}

// atSubject: the subject the storage holds for the access token.
func (w *World) atSubject(raw string) string {
	w.store.Lock()
	defer w.store.Unlock()
	if t, ok := w.store.Tokens[tokenID(raw)]; ok {
		return t.Subject
	}
	return "unknown"
}

func (w *World) atScopes(raw string) []string {
	w.store.Lock()
	defer w.store.Unlock()
	if t, ok := w.store.Tokens[tokenID(raw)]; ok {
		return t.Scopes
	}
	return nil
}

func sessKey(a M) string { return a["b"].(string) + "/" + a["rp"].(string) }

func (w *World) Exec(op string, a M) M {
	var o M
	if p := catch(func() { o = w.exec(op, a) }); p != "" {
		return M{"class": "panic", "detail": p}
	}
	return o
}

func str(a M, k string) string { s, _ := a[k].(string); return s }

func (w *World) exec(op string, a M) M {
	ctx, cancel := context.WithTimeout(context.Background(), 20*time.Second)
	defer cancel()
	switch op {
	case "Start":
		b, id := str(a, "b"), str(a, "rp")
		p := w.rps[id]
		o := M{"class": "error", "att": "none", "client": false, "redirect": false, "scopes": false, "stateCookie": false, "challenge": "none"}
		login := p.login
		if str(a, "mode") == "form_post" {
			login = p.loginFP
		}
		rec, pnc := serve(login, httptest.NewRequest(http.MethodGet, "https://rp.example.test/login", nil))
		if pnc != "" {
			return M{"class": "panic", "detail": pnc}
		}
		jar := w.jarOf(b, id)
		w.applySetCookies(jar, rec)
		loc, err := url.Parse(rec.Header().Get("Location"))
		if rec.Code != http.StatusFound || err != nil {
			return o
		}
		q := loc.Query()
		at := &attempt{name: fmt.Sprintf("t%d", len(w.atts)+1), b: b, rp: id, state: q.Get("state"), authURL: loc.String(), mode: str(a, "mode")}
		w.atts[at.name] = at
		o["class"], o["att"] = "redirect", at.name
		o["client"] = q.Get("client_id") == id && strings.HasPrefix(loc.String(), opdrv.Issuer+"/authorize?")
		o["redirect"] = q.Get("redirect_uri") == redirectOf[id]
		o["scopes"] = q.Get("scope") == scopeString && q.Get("response_type") == "code"
		if v, ok := w.decode(p.ch, "state", jar["state"]); ok && v == at.state && at.state != "" {
			o["stateCookie"] = true
		}
		if ch := q.Get("code_challenge"); ch != "" {
			o["challenge"] = "other"
			if v, ok := w.decode(p.ch, "pkce", jar["pkce"]); ok && oidc.NewSHACodeChallenge(v) == ch && q.Get("code_challenge_method") == "S256" {
				o["challenge"] = "s256ofCookieVerifier"
			}
		}
		return o
	case "Authorize":
		at, ok := w.atts[str(a, "att")]
		if !ok {
			return M{"class": "error"}
		}
		u, _ := url.Parse(at.authURL)
		r := opdrv.Serve(w.h, httptest.NewRequest(http.MethodGet, opdrv.Issuer+u.Path+"?"+u.RawQuery, nil))
		if r.Panic != "" {
			return M{"class": "panic", "detail": r.Panic}
		}
		if r.Status == http.StatusFound && strings.HasPrefix(r.Location, "/login?authRequestID=") {
			at.reqID = strings.TrimPrefix(r.Location, "/login?authRequestID=")
			return M{"class": "login"}
		}
		return M{"class": "error", "status": r.Status, "body": r.Body, "location": r.Location}
	case "Login":
		at, ok := w.atts[str(a, "att")]
		if !ok || at.reqID == "" || at.callbackQuery != "" {
			return M{"class": "noop"}
		}
		if w.store.Login(at.reqID, str(a, "user")) {
			return M{"class": "ok"}
		}
		return M{"class": "noop"}
	case "OPCallback":
		at, ok := w.atts[str(a, "att")]
		o := M{"class": "error", "stateEcho": false, "target": false, "channel": "none"}
		if !ok || at.reqID == "" {
			return o
		}
		r := opdrv.Serve(w.h, httptest.NewRequest(http.MethodGet, opdrv.Issuer+"/authorize/callback?id="+url.QueryEscape(at.reqID), nil))
		if r.Panic != "" {
			return M{"class": "panic", "detail": r.Panic}
		}
		if r.Status == http.StatusOK && strings.Contains(r.Body, "<form") {
			// response_mode=form_post: an auto-submitting form whose action is the redirect URI
			action, params, ok := opdrv.ParseFormPost(r.Body)
			if !ok || params.Get("code") == "" {
				o["body"] = r.Body
				return o
			}
			at.callbackQuery, at.post = params.Encode(), true
			o["class"], o["channel"] = "code", "form"
			o["stateEcho"] = params.Get("state") == at.state
			o["target"] = action == redirectOf[at.rp]
			return o
		}
		loc, err := url.Parse(r.Location)
		if r.Status != http.StatusFound || err != nil {
			o["status"], o["body"] = r.Status, r.Body
			return o
		}
		q := loc.Query()
		if q.Get("code") == "" {
			o["location"] = r.Location
			return o
		}
		at.callbackQuery = loc.RawQuery
		o["class"], o["channel"] = "code", "query"
		o["stateEcho"] = q.Get("state") == at.state
		base := *loc
		base.RawQuery, base.Fragment = "", ""
		o["target"] = base.String() == redirectOf[at.rp]
		return o
	case "RPCallback":
		b := str(a, "b")
		o := M{"class": "error", "sub": "none", "atSub": "none", "client": "none", "at": "none", "rt": "none", "idt": false, "tokenRequests": 0, "stateChecked": false, "stateToApp": false}
		at, ok := w.atts[str(a, "att")]
		id := str(a, "rp")
		query := "code=forged-code&state=never-issued"
		if ok {
			id = at.rp
			query = at.callbackQuery
			if query == "" {
				query = url.Values{"code": {"forged-code"}, "state": {at.state}}.Encode()
			}
		}
		p := w.rps[id]
		r := httptest.NewRequest(http.MethodGet, "https://rp.example.test/auth/callback?"+query, nil)
		if ok && at.post {
			r = httptest.NewRequest(http.MethodPost, "https://rp.example.test/auth/callback", strings.NewReader(query))
			r.Header.Set("Content-Type", "application/x-www-form-urlencoded")
		}
		jar := w.jarOf(b, id)
		for k, v := range jar {
			r.AddCookie(&http.Cookie{Name: k, Value: v})
		}
		p.last = nil
		w.mu.Lock()
		n0, u0 := w.tokenReqs, p.unauth
		w.mu.Unlock()
		rec, pnc := serve(p.callback, r)
		if pnc != "" {
			return M{"class": "panic", "detail": pnc}
		}
		deleted := w.applySetCookies(jar, rec)
		o["stateChecked"] = deleted["state"]
		w.mu.Lock()
		o["tokenRequests"] = w.tokenReqs - n0
		o["tokenErr"] = w.lastTokenErr
		w.mu.Unlock()
		switch {
		case p.last != nil && p.last.tokens != nil:
			t := p.last.tokens
			o["class"] = "tokens"
			o["stateToApp"] = ok && p.last.state == at.state
			o["at"], o["rt"] = w.name("a", t.AccessToken), w.name("f", t.RefreshToken)
			o["atSub"] = w.atSubject(t.AccessToken)
			if t.IDTokenClaims != nil {
				o["idt"] = t.IDToken != ""
				o["sub"] = t.IDTokenClaims.Subject
				o["client"] = t.IDTokenClaims.AuthorizedParty
				if o["client"] == "" && len(t.IDTokenClaims.Audience) > 0 {
					o["client"] = t.IDTokenClaims.Audience[0]
				}
			}
			w.sess[b+"/"+id] = &session{at: t.AccessToken, rt: t.RefreshToken, idt: t.IDToken, sub: fmt.Sprint(o["sub"])}
		case p.unauth > u0 || rec.Code == http.StatusUnauthorized:
			o["class"] = "unauthorized"
			o["body"] = strings.TrimSpace(rec.Body.String())
		}
		o["status"] = rec.Code
		return o
	case "Userinfo":
		s, ok := w.sess[sessKey(a)]
		if !ok {
			return M{"class": "error", "sub": "none"}
		}
		want := s.sub
		if str(a, "claim") == "other" {
			want = "u1"
			if s.sub == "u1" {
				want = "u2@idp.example"
			}
		}
		info, err := rp.Userinfo[*oidc.UserInfo](ctx, s.at, "Bearer", want, w.rps[str(a, "rp")].rp)
		if err != nil || info == nil {
			return M{"class": "error", "sub": "none", "detail": fmt.Sprint(err)}
		}
		return M{"class": "claims", "sub": info.Subject}
	case "Introspect":
		s, ok := w.sess[sessKey(a)]
		if !ok {
			return M{"class": "error", "sub": "none"}
		}
		resp, err := rs.Introspect[*oidc.IntrospectionResponse](ctx, w.rps[str(a, "rp")].rs, s.at)
		if err != nil || resp == nil {
			return M{"class": "error", "sub": "none", "detail": fmt.Sprint(err)}
		}
		if resp.Active {
			return M{"class": "active", "sub": resp.Subject}
		}
		return M{"class": "inactive", "sub": "none"}
	case "Refresh":
		s, ok := w.sess[sessKey(a)]
		o := M{"class": "error", "sub": "none", "atSub": "none", "at": "none", "rt": "none"}
		if !ok {
			return o
		}
		p := w.rps[str(a, "rp")]
		assertion, atype := "", ""
		if signer := p.rp.Signer(); signer != nil {
			var err error
			if assertion, err = client.SignedJWTProfileAssertion(p.id, []string{opdrv.Issuer}, time.Hour, signer); err != nil {
				panic("harness: " + err.Error())
			}
			atype = oidc.ClientAssertionTypeJWTAssertion
		}
		t, err := rp.RefreshTokens[*oidc.IDTokenClaims](ctx, p.rp, s.rt, assertion, atype)
		if err != nil || t == nil {
			o["detail"] = fmt.Sprint(err)
			return o
		}
		o["class"], o["at"], o["rt"] = "tokens", w.name("a", t.AccessToken), w.name("f", t.RefreshToken)
		o["atSub"] = w.atSubject(t.AccessToken)
		o["sub"] = o["atSub"]
		if t.IDTokenClaims != nil {
			o["sub"] = t.IDTokenClaims.Subject
		}
		s.at, s.rt = t.AccessToken, t.RefreshToken
		if t.IDToken != "" {
			s.idt = t.IDToken
		}
		return o
	case "Revoke":
		s, ok := w.sess[sessKey(a)]
		if !ok {
			return M{"class": "error"}
		}
		tok, hint := s.at, "access_token"
		if str(a, "kind") == "rt" {
			tok, hint = s.rt, "refresh_token"
		}
		if err := rp.RevokeToken(ctx, w.rps[str(a, "rp")].rp, tok, hint); err != nil {
			return M{"class": "error", "detail": err.Error()}
		}
		return M{"class": "ok"}
	case "Expire":
		s, ok := w.sess[sessKey(a)]
		if !ok {
			return M{"class": "noop"}
		}
		w.store.Lock()
		if t, ok := w.store.Tokens[tokenID(s.at)]; ok {
			t.Expired = true
		}
		w.store.Unlock()
		return M{"class": "ok"}
	case "EndSession":
		s, ok := w.sess[sessKey(a)]
		o := M{"class": "error", "state": false, "target": "none"}
		if !ok || s.idt == "" {
			return o
		}
		id := str(a, "rp")
		const state = "bye state+/=&1"
		u, err := rp.EndSession(ctx, w.rps[id].rp, s.idt, postLogout[id], state)
		if err != nil || u == nil {
			o["detail"] = fmt.Sprint(err)
			return o
		}
		o["class"] = "redirect"
		o["state"] = u.Query().Get("state") == state
		q := u.Query()
		q.Del("state")
		base := *u
		base.RawQuery = q.Encode()
		o["target"] = "other:" + u.String()
		if sameURL(base.String(), postLogout[id]) && postLogout[id] != "" {
			o["target"] = "registered"
		} else if sameURL(base.String(), defaultLogout) {
			o["target"] = "default"
		}
		return o
	case "TokenExchange":
		s, ok := w.sess[sessKey(a)]
		o := M{"class": "error", "sub": "none", "at": "none", "issuedType": "none"}
		p := w.rps[str(a, "rp")]
		if !ok || p.te == nil {
			return o
		}
		resp, err := tokenexchange.ExchangeToken(ctx, p.te, s.at, oidc.AccessTokenType, "", "", nil, nil, []string{"openid"}, oidc.AccessTokenType)
		if err != nil || resp == nil {
			o["detail"] = fmt.Sprint(err)
			return o
		}
		o["class"], o["at"], o["sub"] = "tokens", w.name("a", resp.AccessToken), w.atSubject(resp.AccessToken)
		if resp.IssuedTokenType == oidc.AccessTokenType {
			o["issuedType"] = "access"
		} else {
			o["issuedType"] = string(resp.IssuedTokenType)
		}
		return o
	case "ClientCreds":
		tok, err := rp.ClientCredentials(ctx, w.rps[str(a, "rp")].rp, nil)
		if err != nil || tok == nil || tok.AccessToken == "" {
			return M{"class": "error", "detail": fmt.Sprint(err)}
		}
		return M{"class": "tokens"}
	case "DeviceStart":
		id := str(a, "rp")
		o := M{"class": "error", "dc": "none", "uriOnIssuer": false}
		resp, err := rp.DeviceAuthorization(ctx, scopes(), w.rps[id].rp, nil)
		if err != nil || resp == nil {
			o["detail"] = fmt.Sprint(err)
			return o
		}
		n := fmt.Sprintf("d%d", len(w.devs)+1)
		w.devs[n], w.devRP[n] = resp, id
		o["class"], o["dc"] = "device", n
		o["uriOnIssuer"] = strings.HasPrefix(resp.VerificationURI, opdrv.Issuer+"/") && strings.Contains(resp.VerificationURIComplete, url.QueryEscape(resp.UserCode))
		return o
	case "DeviceApprove":
		d, ok := w.devs[str(a, "dc")]
		if !ok {
			return M{"class": "noop"}
		}
		w.store.Lock()
		defer w.store.Unlock()
		dv, ok := w.store.Devices[d.DeviceCode]
		if !ok || dv.State.Done || dv.State.Denied {
			return M{"class": "noop"}
		}
		dv.State.Done, dv.State.Subject, dv.State.AuthTime = true, str(a, "user"), time.Now().Add(-time.Second).Truncate(time.Second)
		dv.State.AMR = []string{"pwd"}
		return M{"class": "ok"}
	case "DevicePoll":
		o := M{"class": "error", "sub": "none", "atSub": "none", "at": "none", "scopesOK": false, "idt": false}
		d, ok := w.devs[str(a, "dc")]
		if !ok {
			return o
		}
		p := w.rps[str(a, "rp")]
		// the helper polls every `interval` until the provider answers with tokens or a final error; a pending flow ends with our deadline
		deadline := 160 * time.Millisecond
		w.store.Lock()
		if dv, ok := w.store.Devices[d.DeviceCode]; ok && dv.State.Done {
			deadline = 5 * time.Second // an approved flow is answered by the first poll; leave room for a loaded machine
		}
		w.store.Unlock()
		pctx, pcancel := context.WithTimeout(ctx, deadline)
		defer pcancel()
		w.mu.Lock()
		w.lastTokenErr = ""
		w.mu.Unlock()
		resp, err := rp.DeviceAccessToken(pctx, d.DeviceCode, 40*time.Millisecond, p.rp)
		if err != nil || resp == nil {
			w.mu.Lock()
			last := w.lastTokenErr
			w.mu.Unlock()
			if errors.Is(err, context.DeadlineExceeded) && last == string(oidc.AuthorizationPending) {
				o["class"] = "pending"
			} else if errors.Is(err, context.DeadlineExceeded) && last == "" {
				o["class"] = "timeout" // our deadline came before the helper's first poll was answered: nothing observed
			}
			o["detail"] = fmt.Sprint(err)
			return o
		}
		o["class"], o["at"] = "tokens", w.name("a", resp.AccessToken)
		o["atSub"] = w.atSubject(resp.AccessToken)
		o["sub"] = o["atSub"]
		got := map[string]bool{}
		for _, s := range w.atScopes(resp.AccessToken) {
			got[s] = true
		}
		o["scopesOK"] = got["openid"] && got["profile"] && got["email"]
		if resp.IDToken != "" {
			claims, err := rp.VerifyTokens[*oidc.IDTokenClaims](ctx, resp.AccessToken, resp.IDToken, p.rp.IDTokenVerifier())
			if err == nil {
				o["idt"], o["sub"] = true, claims.Subject
			} else {
				o["idtErr"] = err.Error()
			}
		}
		return o
	}
	panic("harness: unknown flow operation " + op)
}

func sameURL(a, b string) bool {
	ua, e1 := url.Parse(a)
	ub, e2 := url.Parse(b)
	if e1 != nil || e2 != nil {
		return a == b
	}
	qa, qb := ua.Query().Encode(), ub.Query().Encode()
	ua.RawQuery, ub.RawQuery = "", ""
	return ua.String() == ub.String() && qa == qb
}

type Behaviour struct {
	ID    string `json:"id"`
	Cfg   M      `json:"cfg"`
	Steps []struct {
		Op   string `json:"op"`
		Args M      `json:"args"`
	} `json:"steps"`
}

// Replay executes behaviours of FlowDesign (ndjson) and seeded random histories - each on a provider and relying parties of its own,
// several at a time - and writes the trace in the order of the jobs.
func Replay(world *opdrv.WorldJSON, in, out string, seed int64, nRandom, depth int) (lines int, err error) {
	type job struct {
		beh  *Behaviour
		rand int
	}
	var jobs []job
	if in != "" {
		fi, err := os.Open(in)
		if err != nil {
			return 0, err
		}
		defer fi.Close()
		sc := bufio.NewScanner(fi)
		sc.Buffer(make([]byte, 1<<20), 1<<26)
		for sc.Scan() {
			b := new(Behaviour)
			if err := json.Unmarshal(sc.Bytes(), b); err != nil {
				return 0, err
			}
			jobs = append(jobs, job{beh: b})
		}
	}
	for i := 0; i < nRandom; i++ {
		jobs = append(jobs, job{rand: i})
	}
	results := make([][]M, len(jobs))
	runJob := func(i int) {
		j := jobs[i]
		var evs []M
		if j.beh != nil {
			b := j.beh
			router, _ := b.Cfg["router"].(string)
			pk, _ := b.Cfg["pkce"].(bool)
			w := NewWorld(world, router, pk, rand.New(rand.NewSource(seed*7919+int64(i))))
			evs = append(evs, M{"op": "Reset", "run": b.ID, "cfg": M{"router": router, "pkce": pk}, "args": M{}, "out": M{"class": "ok"}})
			for k, s := range b.Steps {
				evs = append(evs, M{"op": s.Op, "run": b.ID, "step": k + 1, "args": s.Args, "out": w.Exec(s.Op, s.Args)})
			}
		} else {
			rng := rand.New(rand.NewSource(seed*104729 + int64(j.rand)))
			router := []string{"P", "L"}[j.rand%2]
			pk := rng.Intn(2) == 0
			w := NewWorld(world, router, pk, rng)
			id := fmt.Sprintf("rand-%d-%d", seed, j.rand)
			evs = append(evs, M{"op": "Reset", "run": id, "cfg": M{"router": router, "pkce": pk}, "args": M{}, "out": M{"class": "ok"}})
			g := &gen{w: w, rng: rng}
			for s := 0; s < depth; s++ {
				op, a := g.next()
				evs = append(evs, M{"op": op, "run": id, "step": s + 1, "args": a, "out": w.Exec(op, a)})
			}
		}
		results[i] = evs
	}
	var wg sync.WaitGroup
	next := make(chan int)
	for k := 0; k < runtime.NumCPU(); k++ {
		wg.Add(1)
		go func() {
			defer wg.Done()
			for i := range next {
				runJob(i)
			}
		}()
	}
	for i := range jobs {
		next <- i
	}
	close(next)
	wg.Wait()
	fo, err := os.Create(out)
	if err != nil {
		return 0, err
	}
	defer fo.Close()
	bw := bufio.NewWriterSize(fo, 1<<20)
	defer bw.Flush()
	enc := json.NewEncoder(bw)
	for _, evs := range results {
		for _, e := range evs {
			enc.Encode(e)
			lines++
		}
	}
	return lines, nil
}

type gen struct {
	w   *World
	rng *rand.Rand
}

func (g *gen) pick(xs ...string) string { return xs[g.rng.Intn(len(xs))] }

func (g *gen) sessions() []string {
	out := []string{}
	for k := range g.w.sess {
		out = append(out, k)
	}
	sortStrings(out)
	return out
}

func sortStrings(s []string) {
	for i := 1; i < len(s); i++ {
		for j := i; j > 0 && s[j] < s[j-1]; j-- {
			s[j], s[j-1] = s[j-1], s[j]
		}
	}
}

// next: mostly the step that moves some login attempt forward, otherwise an operation on an existing session / device flow.
func (g *gen) next() (string, M) {
	w := g.w
	names := []string{}
	for n := range w.atts {
		names = append(names, n)
	}
	sortStrings(names)
	if len(names) == 0 || g.rng.Intn(6) == 0 {
		return "Start", M{"b": g.pick("b1", "b2"), "rp": g.pick("cw", "cx", "cj", "cp"), "mode": g.pick("query", "query", "form_post")}
	}
	if g.rng.Intn(2) == 0 {
		at := w.atts[names[g.rng.Intn(len(names))]]
		switch {
		case at.reqID == "":
			return "Authorize", M{"att": at.name}
		case at.callbackQuery == "" && g.rng.Intn(4) != 0:
			w.store.Lock()
			done := false
			if r, ok := w.store.Requests[at.reqID]; ok {
				done = r.IsDone
			}
			w.store.Unlock()
			if !done {
				return "Login", M{"att": at.name, "user": g.pick("u1", "u2@idp.example")}
			}
			return "OPCallback", M{"att": at.name}
		default:
			b := at.b
			if g.rng.Intn(4) == 0 {
				b = g.pick("b1", "b2") // maybe another browser: login CSRF
			}
			return "RPCallback", M{"b": b, "att": at.name, "rp": at.rp}
		}
	}
	if ss := g.sessions(); len(ss) > 0 && g.rng.Intn(4) != 0 {
		k := ss[g.rng.Intn(len(ss))]
		b, id, _ := strings.Cut(k, "/")
		a := M{"b": b, "rp": id}
		switch g.rng.Intn(10) {
		case 9:
			return "TokenExchange", a
		case 0, 1:
			a["claim"] = g.pick("own", "own", "other")
			return "Userinfo", a
		case 2:
			return "Introspect", a
		case 3, 4:
			return "Refresh", a
		case 5:
			a["kind"] = g.pick("at", "rt")
			return "Revoke", a
		case 6:
			return "Expire", a
		case 7:
			return "EndSession", a
		}
		a["claim"] = "own"
		return "Userinfo", a
	}
	if g.rng.Intn(8) == 0 {
		return "ClientCreds", M{"rp": g.pick("cw", "cx", "cj", "cp")}
	}
	dn := []string{}
	for n := range w.devs {
		dn = append(dn, n)
	}
	sortStrings(dn)
	switch {
	case len(dn) == 0 || g.rng.Intn(3) == 0:
		return "DeviceStart", M{"rp": g.pick("cx", "cj", "cp", "cw")}
	case g.rng.Intn(2) == 0:
		return "DeviceApprove", M{"dc": dn[g.rng.Intn(len(dn))], "user": g.pick("u1", "u2@idp.example")}
	}
	d := dn[g.rng.Intn(len(dn))]
	rpID := w.devRP[d]
	if g.rng.Intn(5) == 0 {
		rpID = g.pick("cx", "cj", "cp")
	}
	return "DevicePoll", M{"rp": rpID, "dc": d}
}

var _ = io.Discard
