// Package rpdrv drives the real Relying Party login handlers (rp.AuthURLHandler / rp.CodeExchangeHandler) with a fake provider
// and a hand-rolled cookie jar per browser, replaying behaviours of spec/RPDesign.tla and recording traces for spec/RPTrace.tla (C17).
package rpdrv

import (
	"bufio"
	"context"
	"encoding/json"
	"fmt"
	"io"
	"math/rand"
	"net/http"
	"net/http/httptest"
	"net/url"
	"os"
	"runtime/debug"
	"strings"
	"sync"
	"time"

	jose "github.com/go-jose/go-jose/v4"
	"golang.org/x/oauth2"

	"verif/harness/modelstore"

	"github.com/zitadel/oidc/v3/pkg/client/rp"
	httphelper "github.com/zitadel/oidc/v3/pkg/http"
	"github.com/zitadel/oidc/v3/pkg/oidc"
)

type M = map[string]any

const (
	fakeOP   = "https://op.example.test"
	clientID = "rp-client-1"
	redirect = "https://rp.example.test/auth/callback"
)

var scopes = []string{"openid", "profile", "email"}

type attempt struct {
	name, state, verifier   string
	pkceCookie, stateCookie string // the cookie values the RP minted for this attempt
}

type tokenRequest struct {
	form url.Values
}

type World struct {
	pkce      bool
	via, disc string
	opKey     *modelstore.SignKey
	ch, other *httphelper.CookieHandler
	near      *httphelper.CookieHandler
	party     rp.RelyingParty
	login     http.Handler
	callback  http.Handler

	mu        sync.Mutex
	nState    int
	attempts  map[string]*attempt // by state string
	byName    map[string]*attempt
	tokenReqs []tokenRequest
	appCalls  []string // states handed to the application callback
	errCalls  []string // states handed to the application's error handler
	unauth    int

	jar map[string]map[string]string // browser -> cookie name -> value
}

func jsonResp(r *http.Request, doc any) *http.Response {
	b, _ := json.Marshal(doc)
	return &http.Response{StatusCode: 200, Header: http.Header{"Content-Type": {"application/json"}}, Body: io.NopCloser(strings.NewReader(string(b))), Request: r}
}

func (w *World) RoundTrip(r *http.Request) (*http.Response, error) {
	switch r.URL.Path {
	case "/.well-known/openid-configuration":
		doc := M{"issuer": fakeOP, "authorization_endpoint": fakeOP + "/authorize", "token_endpoint": fakeOP + "/token", "jwks_uri": fakeOP + "/keys",
			"id_token_signing_alg_values_supported": []string{"ES256"}, "response_types_supported": []string{"code"}, "subject_types_supported": []string{"public"}}
		switch w.disc {
		case "s256":
			doc["code_challenge_methods_supported"] = []string{"S256"}
		case "plainOnly":
			doc["code_challenge_methods_supported"] = []string{"plain"}
		}
		return jsonResp(r, doc), nil
	case "/keys":
		return jsonResp(r, jose.JSONWebKeySet{Keys: []jose.JSONWebKey{{Key: w.opKey.Pub, KeyID: w.opKey.KID, Use: "sig", Algorithm: "ES256"}}}), nil
	}
	body, _ := io.ReadAll(r.Body)
	form, _ := url.ParseQuery(string(body))
	w.mu.Lock()
	w.tokenReqs = append(w.tokenReqs, tokenRequest{form: form})
	w.mu.Unlock()
	resp := `{"access_token":"at-` + fmt.Sprint(len(w.tokenReqs)) + `","token_type":"Bearer","expires_in":300}`
	if w.via == "oidc" {
		// a relying party built by discovery verifies the ID token of the response
		now := time.Now().Unix()
		claims, _ := json.Marshal(M{"iss": fakeOP, "sub": "user-1", "aud": []string{clientID}, "exp": now + 600, "iat": now - 1, "auth_time": now - 1})
		signer, _ := jose.NewSigner(jose.SigningKey{Algorithm: jose.ES256, Key: &jose.JSONWebKey{Key: w.opKey.Priv, KeyID: w.opKey.KID}}, (&jose.SignerOptions{}).WithType("JWT"))
		jws, _ := signer.Sign(claims)
		idt, _ := jws.CompactSerialize()
		resp = `{"access_token":"at-` + fmt.Sprint(len(w.tokenReqs)) + `","token_type":"Bearer","expires_in":300,"id_token":"` + idt + `"}`
	}
	return &http.Response{StatusCode: 200, Header: http.Header{"Content-Type": {"application/json"}}, Body: io.NopCloser(strings.NewReader(resp)), Request: r}, nil
}

func key(seed byte, n int) []byte {
	b := make([]byte, n)
	for i := range b {
		b[i] = seed + byte(i)
	}
	return b
}

func NewWorld(pkce bool, via, disc string, rng *rand.Rand) *World {
	if via == "" {
		via = "oauth"
	}
	if disc == "" {
		disc = "s256"
	}
	w := &World{pkce: pkce, via: via, disc: disc, opKey: modelstore.GenKey("rp-fake-op", jose.ES256), attempts: map[string]*attempt{}, byName: map[string]*attempt{}, jar: map[string]map[string]string{"b1": {}, "b2": {}}}
	// the relying party's hash key is long (80 bytes); "near" is another key that differs from it in the tail only
	hk, nk := key(1, 80), key(1, 80)
	nk[79] ^= 0x55
	nk[70] ^= 0x0f
	w.ch = httphelper.NewCookieHandler(hk, key(40, 32), httphelper.WithUnsecure())
	w.near = httphelper.NewCookieHandler(nk, key(40, 32), httphelper.WithUnsecure())
	w.other = httphelper.NewCookieHandler(key(90, 32), key(140, 32), httphelper.WithUnsecure())
	cfg := &oauth2.Config{ClientID: clientID, ClientSecret: "secret", RedirectURL: redirect, Scopes: scopes,
		Endpoint: oauth2.Endpoint{AuthURL: fakeOP + "/authorize", TokenURL: fakeOP + "/token"}}
	opts := []rp.Option{rp.WithCookieHandler(w.ch), rp.WithHTTPClient(&http.Client{Transport: w}),
		rp.WithUnauthorizedHandler(func(rw http.ResponseWriter, r *http.Request, desc, state string) {
			w.mu.Lock()
			w.unauth++
			w.mu.Unlock()
			http.Error(rw, desc, http.StatusUnauthorized)
		})}
	opts = append(opts, rp.WithErrorHandler(func(rw http.ResponseWriter, r *http.Request, errorType, errorDesc, state string) {
		w.mu.Lock()
		w.errCalls = append(w.errCalls, state)
		w.mu.Unlock()
		http.Error(rw, errorType, http.StatusBadRequest)
	}))
	if pkce {
		opts = append(opts, rp.WithPKCE(w.ch))
	}
	var party rp.RelyingParty
	var err error
	if via == "oidc" {
		party, err = rp.NewRelyingPartyOIDC(context.Background(), fakeOP, clientID, "secret", redirect, scopes, opts...)
	} else {
		party, err = rp.NewRelyingPartyOAuth(cfg, opts...)
	}
	if err != nil {
		panic(err)
	}
	w.party = party
	salt := rng.Int63()
	stateFn := func() string {
		w.mu.Lock()
		defer w.mu.Unlock()
		w.nState++
		return fmt.Sprintf("st%d-%x-%d", w.nState, salt, w.nState*7919)
	}
	w.login = rp.AuthURLHandler(stateFn, party)
	w.callback = rp.CodeExchangeHandler(func(rw http.ResponseWriter, r *http.Request, tokens *oidc.Tokens[*oidc.IDTokenClaims], state string, _ rp.RelyingParty) {
		w.mu.Lock()
		w.appCalls = append(w.appCalls, state)
		w.mu.Unlock()
		rw.WriteHeader(http.StatusOK)
	}, party)
	return w
}

func (w *World) decode(h *httphelper.CookieHandler, name, value string) (string, bool) {
	r := httptest.NewRequest(http.MethodGet, "https://rp.example.test/", nil)
	r.AddCookie(&http.Cookie{Name: name, Value: value})
	v, err := h.CheckCookie(r, name)
	return v, err == nil
}

func (w *World) encode(h *httphelper.CookieHandler, name, plain string) string {
	rec := httptest.NewRecorder()
	if err := h.SetCookie(rec, name, plain); err != nil {
		panic(err)
	}
	for _, c := range rec.Result().Cookies() {
		if c.Name == name {
			return c.Value
		}
	}
	panic("harness: no cookie minted")
}

func serve(h http.Handler, r *http.Request) (rec *httptest.ResponseRecorder, pnc string) {
	rec = httptest.NewRecorder()
	func() {
		defer func() {
			if x := recover(); x != nil {
				pnc = fmt.Sprintf("%v\n%s", x, debug.Stack())
			}
		}()
		h.ServeHTTP(rec, r)
	}()
	return
}

// applySetCookies updates the browser's jar from the response; returns the names deleted.
func (w *World) applySetCookies(b string, rec *httptest.ResponseRecorder) (deleted map[string]bool) {
	deleted = map[string]bool{}
	for _, c := range rec.Result().Cookies() {
		if c.MaxAge < 0 || c.Value == "" {
			delete(w.jar[b], c.Name)
			deleted[c.Name] = true
		} else {
			w.jar[b][c.Name] = c.Value
		}
	}
	return
}

func (w *World) StartLogin(a M) M {
	b := a["b"].(string)
	o := M{"class": "error", "att": "none", "client": false, "redirect": false, "scopes": false, "stateInURL": false, "stateCookie": false, "challenge": "none"}
	// query parameters somebody put on the link to the login URL
	link := "https://rp.example.test/login"
	if q, _ := a["q"].(string); q != "" && q != "none" {
		link += "?" + map[string]string{"challenge": "code_challenge=attacker-chosen-challenge-0123456789abcdefghijklmnop", "method": "code_challenge_method=plain",
			"state": "state=attacker-state", "redirect": "redirect_uri=https%3A%2F%2Fevil.example.test%2Fcb", "client": "client_id=other-client",
			"scope": "scope=openid+admin"}[q]
	}
	rec, pnc := serve(w.login, httptest.NewRequest(http.MethodGet, link, nil))
	if pnc != "" {
		o["class"], o["detail"] = "panic", pnc
		return o
	}
	w.applySetCookies(b, rec)
	loc, err := url.Parse(rec.Header().Get("Location"))
	if rec.Code != http.StatusFound || err != nil {
		return o
	}
	q := loc.Query()
	state := q.Get("state")
	w.mu.Lock()
	at := &attempt{name: fmt.Sprintf("t%d", len(w.attempts)+1), state: state, pkceCookie: w.jar[b]["pkce"], stateCookie: w.jar[b]["state"]}
	w.attempts[state] = at
	w.byName[at.name] = at
	w.mu.Unlock()
	o["class"], o["att"] = "redirect", at.name
	o["client"] = q.Get("client_id") == clientID && strings.HasPrefix(loc.String(), fakeOP+"/authorize?")
	o["redirect"] = q.Get("redirect_uri") == redirect
	o["scopes"] = q.Get("scope") == strings.Join(scopes, " ") && q.Get("response_type") == "code"
	o["stateInURL"] = state != "" && strings.HasPrefix(state, "st")
	if v, ok := w.decode(w.ch, "state", w.jar[b]["state"]); ok && v == state {
		o["stateCookie"] = true
	}
	if ch := q.Get("code_challenge"); ch != "" {
		o["challenge"] = "other"
		if v, ok := w.decode(w.ch, "pkce", w.jar[b]["pkce"]); ok {
			at.verifier = v
			if oidc.NewSHACodeChallenge(v) == ch && q.Get("code_challenge_method") == "S256" {
				o["challenge"] = "s256ofCookieVerifier"
			}
		}
	}
	return o
}

func (w *World) Callback(a M) M {
	b, att, form, tamper := a["b"].(string), a["att"].(string), a["form"].(string), a["tamper"].(string)
	o := M{"class": "error", "tokenRequests": 0, "verifier": "none", "stateChecked": false, "verifierRead": false, "stateToApp": "none"}
	state := "unknown-state-0000"
	if at, ok := w.byName[att]; ok {
		state = at.state
	}
	switch form {
	case "prefix":
		state = state[:len(state)/2]
	case "suffix":
		state += "x"
	case "empty":
		state = ""
	}
	q := url.Values{"code": {"code-123"}}
	if e, _ := a["err"].(bool); e {
		// the provider reports an error instead of a code
		q = url.Values{"error": {"access_denied"}, "error_description": {"the user said no"}}
	}
	if tamper == "replayPkceAsState" {
		// the state parameter is the verifier of that attempt: what the attempt's pkce cookie decodes to
		if at, ok := w.byName[att]; ok && at.verifier != "" {
			state = at.verifier
		}
	}
	if state != "" {
		q.Set("state", state)
	}
	r := httptest.NewRequest(http.MethodGet, "https://rp.example.test/auth/callback?"+q.Encode(), nil)
	if m, _ := a["method"].(string); m == "POST" {
		// response_mode=form_post: the user agent POSTs the parameters in the body
		r = httptest.NewRequest(http.MethodPost, "https://rp.example.test/auth/callback", strings.NewReader(q.Encode()))
		r.Header.Set("Content-Type", "application/x-www-form-urlencoded")
	}
	cookies := map[string]string{}
	for k, v := range w.jar[b] {
		cookies[k] = v
	}
	plainOf := func(name string) string {
		v, _ := w.decode(w.ch, name, w.jar[b][name])
		return v
	}
	switch tamper {
	case "dropState":
		delete(cookies, "state")
	case "dropPkce":
		delete(cookies, "pkce")
	case "otherKey":
		if _, ok := cookies["state"]; ok {
			cookies["state"] = w.encode(w.other, "state", plainOf("state"))
		}
	case "otherKeyPkce":
		if _, ok := cookies["pkce"]; ok {
			cookies["pkce"] = w.encode(w.other, "pkce", plainOf("pkce"))
		}
	case "nearKey":
		if _, ok := cookies["state"]; ok {
			cookies["state"] = w.encode(w.near, "state", plainOf("state"))
		}
	case "nearKeyPkce":
		if _, ok := cookies["pkce"]; ok {
			cookies["pkce"] = w.encode(w.near, "pkce", plainOf("pkce"))
		}
	case "swapNames":
		s, p := cookies["state"], cookies["pkce"]
		delete(cookies, "state")
		delete(cookies, "pkce")
		if p != "" {
			cookies["state"] = p
		} else if s != "" {
			// no pkce cookie to swap with: present the state value minted under the RP's key for the other name
			cookies["state"] = w.encode(w.ch, "pkce", plainOf("state"))
		}
		if s != "" {
			cookies["pkce"] = s
		}
	case "truncate":
		if v, ok := cookies["state"]; ok && len(v) > 3 {
			cookies["state"] = v[:len(v)-3]
		}
	case "replayPkceAsState":
		// the cookies that attempt att received (whether or not they were used since): its pkce cookie under BOTH names
		delete(cookies, "state")
		delete(cookies, "pkce")
		if at, ok := w.byName[att]; ok {
			if at.pkceCookie != "" {
				cookies["state"], cookies["pkce"] = at.pkceCookie, at.pkceCookie
			} else if at.stateCookie != "" {
				// an attempt without PKCE: its state value minted under the RP's key for the other cookie name
				cookies["state"] = w.encode(w.ch, "pkce", at.state)
			}
		}
	}
	for k, v := range cookies {
		r.AddCookie(&http.Cookie{Name: k, Value: v})
	}
	w.mu.Lock()
	n0, c0, u0, e0 := len(w.tokenReqs), len(w.appCalls), w.unauth, len(w.errCalls)
	w.mu.Unlock()
	rec, pnc := serve(w.callback, r)
	if pnc != "" {
		o["class"], o["detail"] = "panic", pnc
		return o
	}
	deleted := w.applySetCookies(b, rec)
	o["stateChecked"], o["verifierRead"] = deleted["state"], deleted["pkce"]
	w.mu.Lock()
	defer w.mu.Unlock()
	o["tokenRequests"] = len(w.tokenReqs) - n0
	if len(w.tokenReqs) > n0 {
		v := w.tokenReqs[len(w.tokenReqs)-1].form.Get("code_verifier")
		switch {
		case v == "":
			o["verifier"] = "none"
		default:
			o["verifier"] = "other"
			for _, at := range w.attempts {
				if at.verifier == v {
					o["verifier"] = at.name
				}
			}
		}
	}
	switch {
	case len(w.appCalls) > c0:
		o["class"] = "exchanged"
		o["stateToApp"] = "other"
		if at, ok := w.attempts[w.appCalls[len(w.appCalls)-1]]; ok {
			o["stateToApp"] = at.name
		}
	case len(w.errCalls) > e0:
		o["class"] = "errorHandled"
		o["stateToApp"] = "other"
		if at, ok := w.attempts[w.errCalls[len(w.errCalls)-1]]; ok {
			o["stateToApp"] = at.name
		}
	case w.unauth > u0 || rec.Code == http.StatusUnauthorized:
		o["class"] = "unauthorized"
	}
	o["status"] = rec.Code
	return o
}

type Behaviour struct {
	ID    string `json:"id"`
	Cfg   M      `json:"cfg"`
	Steps []struct {
		Op   string `json:"op"`
		Args M      `json:"args"`
	} `json:"steps"`
}

// Replay executes behaviours (ndjson) and random histories against the real handlers and writes the trace.
func Replay(in, out string, seed int64, nRandom, depth int) (lines int, err error) {
	fo, err := os.Create(out)
	if err != nil {
		return 0, err
	}
	defer fo.Close()
	bw := bufio.NewWriterSize(fo, 1<<20)
	defer bw.Flush()
	enc := json.NewEncoder(bw)
	emit := func(m M) { enc.Encode(m); lines++ }
	rng := rand.New(rand.NewSource(seed))
	if in != "" {
		fi, err := os.Open(in)
		if err != nil {
			return 0, err
		}
		defer fi.Close()
		sc := bufio.NewScanner(fi)
		sc.Buffer(make([]byte, 1<<20), 1<<26)
		for sc.Scan() {
			var b Behaviour
			if err := json.Unmarshal(sc.Bytes(), &b); err != nil {
				return 0, err
			}
			pk, _ := b.Cfg["pkce"].(bool)
			via, _ := b.Cfg["via"].(string)
			disc, _ := b.Cfg["disc"].(string)
			w := NewWorld(pk, via, disc, rng)
			emit(M{"op": "Reset", "run": b.ID, "cfg": M{"pkce": pk, "via": w.via, "disc": w.disc}, "args": M{}, "out": M{}})
			for i, s := range b.Steps {
				var o M
				if s.Op == "StartLogin" {
					o = w.StartLogin(s.Args)
				} else {
					o = w.Callback(s.Args)
				}
				emit(M{"op": s.Op, "run": b.ID, "step": i + 1, "args": s.Args, "out": o})
			}
		}
	}
	tampers := []string{"asis", "asis", "asis", "dropState", "dropPkce", "otherKey", "swapNames", "truncate", "otherKeyPkce", "replayPkceAsState", "replayPkceAsState", "nearKey", "nearKeyPkce"}
	forms := []string{"exact", "exact", "exact", "exact", "prefix", "suffix", "empty"}
	for i := 0; i < nRandom; i++ {
		pk := rng.Intn(3) != 0
		w := NewWorld(pk, []string{"oauth", "oidc"}[rng.Intn(2)], []string{"s256", "none", "plainOnly"}[rng.Intn(3)], rng)
		id := fmt.Sprintf("rand-%d-%d", seed, i)
		emit(M{"op": "Reset", "run": id, "cfg": M{"pkce": pk, "via": w.via, "disc": w.disc}, "args": M{}, "out": M{}})
		n := 0
		for s := 0; s < depth; s++ {
			b := []string{"b1", "b2"}[rng.Intn(2)]
			if n == 0 || rng.Intn(3) == 0 {
				a := M{"b": b}
				o := w.StartLogin(a)
				if o["class"] == "redirect" {
					n++
				}
				emit(M{"op": "StartLogin", "run": id, "step": s + 1, "args": a, "out": o})
				continue
			}
			att := fmt.Sprintf("t%d", rng.Intn(n+1)) // t0 = a state the RP never issued
			if rng.Intn(2) == 0 {
				// the attempt whose cookie the browser holds
				if v, ok := w.decode(w.ch, "state", w.jar[b]["state"]); ok {
					if at, ok := w.attempts[v]; ok {
						att = at.name
					}
				}
			}
			a := M{"b": b, "att": att, "form": forms[rng.Intn(len(forms))], "tamper": tampers[rng.Intn(len(tampers))], "err": rng.Intn(5) == 0,
				"method": []string{"GET", "GET", "POST"}[rng.Intn(3)]}
			emit(M{"op": "Callback", "run": id, "step": s + 1, "args": a, "out": w.Callback(a)})
		}
	}
	return lines, nil
}

// Stress runs pairs of overlapping logins through ONE handler (one relying party shared by all browsers) and checks, for every
// response, that the code challenge in the authorization URL belongs to the verifier in that response's own cookie.
// Mismatches are returned as trace events of a third browser-independent kind the monitor judges like any StartLogin.
func Stress(out io.Writer, seed int64, rounds int) (events int) {
	rng := rand.New(rand.NewSource(seed))
	enc := json.NewEncoder(out)
	w := NewWorld(true, "oauth", "s256", rng)
	slow := rp.WithURLParam("custom", "x")
	h := rp.AuthURLHandler(func() string {
		w.mu.Lock()
		defer w.mu.Unlock()
		w.nState++
		return fmt.Sprintf("st%d-stress", w.nState)
	}, w.party, slow, rp.WithPromptURLParam("login"))
	enc.Encode(M{"op": "Reset", "run": "stress", "cfg": M{"pkce": true, "via": "oauth", "disc": "s256"}, "args": M{}, "out": M{}})
	events++
	type res struct {
		o M
	}
	for i := 0; i < rounds; i++ {
		const par = 8
		results := make([]M, par)
		var wg sync.WaitGroup
		start := make(chan struct{})
		for g := 0; g < par; g++ {
			wg.Add(1)
			go func(g int) {
				defer wg.Done()
				<-start
				rec, pnc := serve(h, httptest.NewRequest(http.MethodGet, "https://rp.example.test/login", nil))
				o := M{"class": "redirect", "att": "t1", "client": true, "redirect": true, "scopes": true, "stateInURL": true, "stateCookie": false, "challenge": "other"}
				if pnc != "" {
					o["class"] = "panic"
					results[g] = o
					return
				}
				loc, _ := url.Parse(rec.Header().Get("Location"))
				q := loc.Query()
				for _, c := range rec.Result().Cookies() {
					switch c.Name {
					case "state":
						if v, ok := w.decode(w.ch, "state", c.Value); ok && v == q.Get("state") {
							o["stateCookie"] = true
						}
					case "pkce":
						if v, ok := w.decode(w.ch, "pkce", c.Value); ok && oidc.NewSHACodeChallenge(v) == q.Get("code_challenge") {
							o["challenge"] = "s256ofCookieVerifier"
						}
					}
				}
				o["client"] = q.Get("client_id") == clientID && q.Get("custom") == "x" && q.Get("prompt") == "login"
				results[g] = o
			}(g)
		}
		time.Sleep(time.Duration(rng.Intn(50)) * time.Microsecond)
		close(start)
		wg.Wait()
		for _, o := range results {
			// each stress login is judged on its own: the monitor is reset before it (nAtt = 0, so the attempt is t1)
			enc.Encode(M{"op": "Reset", "run": "stress", "cfg": M{"pkce": true, "via": "oauth", "disc": "s256"}, "args": M{}, "out": M{}})
			enc.Encode(M{"op": "StartLogin", "run": "stress", "step": i, "args": M{"b": "b1"}, "out": o})
			events += 2
		}
	}
	return
}
