package tbldrv

import (
	"context"
	"crypto/ecdsa"
	"crypto/ed25519"
	"crypto/elliptic"
	"crypto/rand"
	"crypto/rsa"
	"crypto/x509"
	"encoding/json"
	"encoding/pem"
	"io"
	"net/http"
	"net/http/httptest"
	"net/url"
	"strings"
	"sync"
	"time"

	jose "github.com/go-jose/go-jose/v4"

	"verif/harness/modelstore"
	"verif/harness/opdrv"

	"github.com/zitadel/oidc/v3/pkg/client"
	"github.com/zitadel/oidc/v3/pkg/client/profile"
	"github.com/zitadel/oidc/v3/pkg/client/rp"
	"github.com/zitadel/oidc/v3/pkg/client/rs"
	"github.com/zitadel/oidc/v3/pkg/oidc"
	"github.com/zitadel/oidc/v3/pkg/op"
)

// ---- C14 interoperability: spec/Interop.tla

type interopKey struct {
	pem []byte
	pub any
}

var (
	interopMu   sync.Mutex
	interopKeys = map[string]*interopKey{}
)

func interopKeyFor(format string) *interopKey {
	interopMu.Lock()
	defer interopMu.Unlock()
	if k, ok := interopKeys[format]; ok {
		return k
	}
	var der []byte
	var typ string
	var pub any
	switch format {
	case "rsaPKCS1":
		k, _ := rsa.GenerateKey(rand.Reader, 2048)
		der, typ, pub = x509.MarshalPKCS1PrivateKey(k), "RSA PRIVATE KEY", &k.PublicKey
	case "rsaPKCS8":
		k, _ := rsa.GenerateKey(rand.Reader, 2048)
		der, _ = x509.MarshalPKCS8PrivateKey(k)
		typ, pub = "PRIVATE KEY", &k.PublicKey
	case "ecPKCS8":
		k, _ := ecdsa.GenerateKey(elliptic.P256(), rand.Reader)
		der, _ = x509.MarshalPKCS8PrivateKey(k)
		typ, pub = "PRIVATE KEY", &k.PublicKey
	default:
		p, k, _ := ed25519.GenerateKey(rand.Reader)
		der, _ = x509.MarshalPKCS8PrivateKey(k)
		typ, pub = "PRIVATE KEY", p
	}
	ik := &interopKey{pem: pem.EncodeToMemory(&pem.Block{Type: typ, Bytes: der}), pub: pub}
	interopKeys[format] = ik
	return ik
}

// inProcess routes the helpers' HTTP calls to the in-process provider.
type inProcess struct{ h http.Handler }

func (t inProcess) RoundTrip(r *http.Request) (*http.Response, error) {
	rec := httptest.NewRecorder()
	t.h.ServeHTTP(rec, r.WithContext(context.WithoutCancel(r.Context()))) // the provider has a request context of its own
	return rec.Result(), nil
}

func InteropCase(c *Case) M {
	helper, format, router := S(c.C, "helper"), S(c.C, "key"), S(c.C, "router")
	ik := interopKeyFor(format)
	const cid, kid = "interop-client", "interop-kid"
	reg := &modelstore.ClientReg{ID: cid, Auth: "pkjwt", App: "web", Grants: []string{"code", "refresh", "bearer"}, RTypes: []string{"code"},
		URIs: []string{"https://rp.example.test/cb"}, ATType: "opaque", IDTLifetime: time.Hour,
		Keys: map[string]*jose.JSONWebKey{kid: {Key: ik.pub, KeyID: kid, Use: "sig"}}}
	store := modelstore.New([]*modelstore.ClientReg{reg}, opdrv.SigningKeyFor("ES256"))
	h, _, err := opdrv.BuildProvider(store, opdrv.DefaultCfg(router))
	if err != nil {
		panic(err)
	}
	hc := &http.Client{Transport: inProcess{h}}
	o := M{"v": "reject", "identity": "none"}
	ctx := context.Background()
	bearer := func(assertion string) {
		form := url.Values{"grant_type": {string(oidc.GrantTypeBearer)}, "assertion": {assertion}, "scope": {"openid"}}
		req := httptest.NewRequest(http.MethodPost, opdrv.Issuer+"/oauth/token", strings.NewReader(form.Encode()))
		req.Header.Set("Content-Type", "application/x-www-form-urlencoded")
		r := opdrv.Serve(h, req)
		if r.Panic != "" {
			o["v"], o["detail"] = "panic", r.Panic
			return
		}
		var body struct {
			AccessToken string `json:"access_token"`
			Error       string `json:"error_description"`
		}
		json.Unmarshal([]byte(r.Body), &body)
		if r.Status == 200 && body.AccessToken != "" {
			o["v"], o["identity"] = "accept", tokenClient(store, body.AccessToken, cid)
		} else {
			o["detail"] = body.Error
		}
	}
	p := CatchPanic(func() {
		switch helper {
		case "client.SignedJWTProfileAssertion":
			signer, err := client.NewSignerFromPrivateKeyByte(ik.pem, kid)
			if err != nil {
				o["v"], o["detail"] = "n/a", err.Error()
				return
			}
			a, err := client.SignedJWTProfileAssertion(cid, []string{opdrv.Issuer}, time.Hour, signer)
			if err != nil {
				o["v"], o["detail"] = "n/a", err.Error()
				return
			}
			bearer(a)
		case "oidc.GenerateJWTProfileToken":
			a, err := oidc.GenerateJWTProfileToken(oidc.NewJWTProfileAssertion(cid, kid, []string{opdrv.Issuer}, ik.pem))
			if err != nil {
				o["v"], o["detail"] = "n/a", err.Error()
				return
			}
			bearer(a)
		case "profile.NewJWTProfileTokenSource":
			ts, err := profile.NewJWTProfileTokenSource(ctx, opdrv.Issuer, cid, kid, ik.pem, []string{"openid"}, profile.WithHTTPClient(hc),
				profile.WithStaticTokenEndpoint(opdrv.Issuer, opdrv.Issuer+"/oauth/token"))
			if err != nil {
				o["v"], o["detail"] = "n/a", err.Error()
				return
			}
			tok, err := ts.TokenCtx(ctx)
			if err != nil {
				o["detail"] = err.Error()
				return
			}
			o["v"], o["identity"] = "accept", tokenClient(store, tok.AccessToken, cid)
		case "rs.NewResourceServerJWTProfile":
			server, err := rs.NewResourceServerJWTProfile(ctx, opdrv.Issuer, cid, kid, ik.pem, rs.WithClient(hc), rs.WithStaticEndpoints(opdrv.Issuer+"/oauth/token", opdrv.Issuer+"/oauth/introspect"))
			if err != nil {
				o["v"], o["detail"] = "n/a", err.Error()
				return
			}
			// introspection authenticated with the helper's assertion: an answer (active or not) means the provider accepted it
			resp, err := rs.Introspect[*oidc.IntrospectionResponse](ctx, server, "some-token")
			if err != nil {
				o["detail"] = err.Error()
				return
			}
			_ = resp
			o["v"], o["identity"] = "accept", "client"
		case "rp.CodeExchangeHandler+WithJWTProfile":
			party, err := rp.NewRelyingPartyOIDC(ctx, opdrv.Issuer, cid, "", "https://rp.example.test/cb", []string{"openid"}, rp.WithHTTPClient(hc),
				rp.WithJWTProfile(rp.SignerFromKeyAndKeyID(ik.pem, kid)))
			if err != nil {
				o["v"], o["detail"] = "n/a", err.Error()
				return
			}
			// a real code of this client, redeemed through the RP's handler (which signs the client assertion itself)
			q := url.Values{"client_id": {cid}, "redirect_uri": {"https://rp.example.test/cb"}, "response_type": {"code"}, "scope": {"openid"}, "state": {"s"}}
			r := opdrv.Serve(h, httptest.NewRequest(http.MethodGet, opdrv.Issuer+"/authorize?"+q.Encode(), nil))
			id := strings.TrimPrefix(r.Location, "/login?authRequestID=")
			store.Login(id, "u1")
			r = opdrv.Serve(h, httptest.NewRequest(http.MethodGet, opdrv.Issuer+"/authorize/callback?id="+url.QueryEscape(id), nil))
			u, _ := url.Parse(r.Location)
			got := ""
			handler := rp.CodeExchangeHandler(func(w http.ResponseWriter, r *http.Request, tokens *oidc.Tokens[*oidc.IDTokenClaims], state string, _ rp.RelyingParty) {
				got = tokens.AccessToken
			}, party)
			rec := httptest.NewRecorder()
			handler.ServeHTTP(rec, httptest.NewRequest(http.MethodGet, "https://rp.example.test/cb?code="+url.QueryEscape(u.Query().Get("code"))+"&state=s", nil))
			if got != "" {
				o["v"], o["identity"] = "accept", tokenClient(store, got, cid)
			} else {
				b, _ := io.ReadAll(rec.Body)
				o["detail"] = string(b)
				if strings.Contains(string(b), "failed to build assertion") || party.Signer() == nil {
					o["v"] = "n/a"
				}
			}
		}
	})
	if p != "" {
		o["v"], o["detail"] = "panic", p
	}
	return o
}

func key(seed byte, n int) []byte {
	b := make([]byte, n)
	for i := range b {
		b[i] = seed + byte(i)
	}
	return b
}

// tokenClient maps the client the store recorded for the access token to "client" (the expected one) / "other".
func tokenClient(store *modelstore.Store, at, want string) string {
	plain, err := op.NewAESCrypto(opdrv.CryptoKey).Decrypt(at)
	if err != nil {
		return "unknown"
	}
	id := strings.SplitN(plain, ":", 2)[0]
	store.Lock()
	defer store.Unlock()
	if t, ok := store.Tokens[id]; ok {
		if t.Client == want {
			return "client"
		}
		return "other:" + t.Client
	}
	return "unknown"
}
