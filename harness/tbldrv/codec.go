package tbldrv

import (
	"context"
	"encoding/json"
	"fmt"
	"net/http"
	"net/http/httptest"
	"net/url"
	"reflect"
	"strings"

	"golang.org/x/text/language"

	"verif/harness/modelstore"
	"verif/harness/opdrv"

	"github.com/zitadel/oidc/v3/pkg/crypto"
	"github.com/zitadel/oidc/v3/pkg/oidc"
	"github.com/zitadel/oidc/v3/pkg/op"
)

// ---- C12: spec/Codec.tla

func newOf(t string) any {
	switch t {
	case "IDTokenClaims":
		return &oidc.IDTokenClaims{}
	case "AccessTokenClaims":
		return &oidc.AccessTokenClaims{}
	case "LogoutTokenClaims":
		return &oidc.LogoutTokenClaims{}
	case "UserInfo":
		return &oidc.UserInfo{}
	case "IntrospectionResponse":
		return &oidc.IntrospectionResponse{}
	case "JWTProfileAssertionClaims":
		return &oidc.JWTProfileAssertionClaims{}
	case "JWTTokenRequest":
		return &oidc.JWTTokenRequest{}
	case "ActorClaims":
		return &oidc.ActorClaims{}
	}
	panic("unknown type " + t)
}

// markers: the value a registered field is set to / the value a custom claim of that name carries (same JSON type)
func marker(name string, reg bool) any {
	pick := func(r, c any) any {
		if reg {
			return r
		}
		return c
	}
	switch name {
	case "exp", "iat", "updated_at":
		return pick(2222222222.0, 1111111111.0)
	case "aud":
		return pick([]any{"reg-aud"}, []any{"custom-aud"})
	case "scope":
		return pick("r1 r2", "c1 c2")
	case "active":
		return true
	case "locale":
		return pick("de", "fr")
	case "act":
		return pick(map[string]any{"sub": "reg-actor"}, map[string]any{"sub": "custom-actor"})
	}
	return pick("reg-"+name, "custom-"+name)
}

// fieldByJSONName finds the (possibly embedded) struct field carrying the json tag name.
func fieldByJSONName(v reflect.Value, name string) (reflect.Value, bool) {
	t := v.Type()
	for i := 0; i < t.NumField(); i++ {
		f := t.Field(i)
		if f.Anonymous && f.Type.Kind() == reflect.Struct {
			if fv, ok := fieldByJSONName(v.Field(i), name); ok {
				return fv, true
			}
			continue
		}
		tag := strings.Split(f.Tag.Get("json"), ",")[0]
		if tag == name && f.IsExported() {
			return v.Field(i), true
		}
	}
	return reflect.Value{}, false
}

func setRegistered(x any, name string) {
	f, ok := fieldByJSONName(reflect.ValueOf(x).Elem(), name)
	if !ok {
		panic("harness: no registered field " + name + " in " + reflect.TypeOf(x).String())
	}
	switch v := f.Addr().Interface().(type) {
	case *string:
		*v = marker(name, true).(string)
	case *oidc.Time:
		*v = oidc.Time(int64(marker(name, true).(float64)))
	case *oidc.Audience:
		*v = oidc.Audience{"reg-aud"}
	case *oidc.SpaceDelimitedArray:
		*v = oidc.SpaceDelimitedArray{"r1", "r2"}
	case *bool:
		*v = true
	case **oidc.Locale:
		*v = oidc.NewLocale(language.German)
	case **oidc.ActorClaims:
		*v = &oidc.ActorClaims{Subject: "reg-actor"}
	default:
		panic("harness: unsupported registered field type for " + name + ": " + f.Type().String())
	}
}

func zeroRegistered(x any, name string) {
	if f, ok := fieldByJSONName(reflect.ValueOf(x).Elem(), name); ok {
		f.Set(reflect.Zero(f.Type()))
	}
}

func normJSON(v any) any {
	b, _ := json.Marshal(v)
	var x any
	json.Unmarshal(b, &x)
	return x
}

func classifyMerge(doc M, name string) string {
	v, ok := doc[name]
	if !ok {
		return "absent"
	}
	n := normJSON(v)
	same := func(a, b any) bool {
		if reflect.DeepEqual(a, b) {
			return true
		}
		// an audience of one member may be written as a string or as an array
		if s, ok := a.(string); ok {
			return reflect.DeepEqual([]any{s}, b)
		}
		return false
	}
	switch {
	case same(n, normJSON(marker(name, true))):
		return "reg"
	case same(n, normJSON(marker(name, false))):
		return "custom"
	}
	switch z := n.(type) {
	case nil:
		return "zero"
	case string:
		if z == "" {
			return "zero"
		}
	case float64:
		if z == 0 {
			return "zero"
		}
	case bool:
		if !z {
			return "zero"
		}
	case []any:
		if len(z) == 0 {
			return "zero"
		}
	case map[string]any:
		if len(z) == 0 {
			return "zero"
		}
	}
	return "other"
}

var codecProbes = map[string][]string{
	"IDTokenClaims":             {"iss", "sub", "aud", "exp", "azp", "nonce", "email", "act", "locale"},
	"AccessTokenClaims":         {"iss", "sub", "aud", "exp", "client_id", "jti", "scope", "act"},
	"LogoutTokenClaims":         {"iss", "sub", "aud", "exp", "jti", "sid"},
	"UserInfo":                  {"sub", "name", "email", "locale", "updated_at"},
	"IntrospectionResponse":     {"active", "scope", "client_id", "username", "sub", "aud", "exp", "iss", "act"},
	"JWTProfileAssertionClaims": {"iss", "sub", "aud", "exp", "iat"},
	"JWTTokenRequest":           {"iss", "sub", "aud", "exp", "iat"},
	"ActorClaims":               {"iss", "sub", "act"},
}

func mergeCase(c M) M {
	t := S(c, "t")
	regs, customs := SS(c, "regs"), SS(c, "customs")
	o := M{"panic": false, "extra": "lost", "stable": false, "owned": true}
	p := CatchPanic(func() {
		x := newOf(t)
		custom := map[string]any{"x_extra": map[string]any{"k": []any{"v", 1.0}}}
		for _, n := range customs {
			custom[n] = marker(n, false)
		}
		if t == "JWTTokenRequest" {
			// custom claims of a JWTTokenRequest can only arrive through decoding
			b, _ := json.Marshal(custom)
			if err := json.Unmarshal(b, x); err != nil {
				panic("harness: " + err.Error())
			}
			for _, n := range codecProbes[t] {
				zeroRegistered(x, n)
			}
		} else {
			reflect.ValueOf(x).Elem().FieldByName("Claims").Set(reflect.ValueOf(custom))
		}
		for _, n := range regs {
			setRegistered(x, n)
		}
		first, err := json.Marshal(x)
		if err != nil {
			o["marshalErr"] = err.Error()
			return
		}
		if m, ok := x.(json.Marshaler); ok {
			// a caller that keeps the bytes of a direct MarshalJSON call while other values are encoded
			kept, err := m.MarshalJSON()
			if err == nil {
				snapshot := string(kept)
				other := newOf(t)
				if t != "JWTTokenRequest" {
					reflect.ValueOf(other).Elem().FieldByName("Claims").Set(reflect.ValueOf(map[string]any{"zz_other": strings.Repeat("OTHER", 40)}))
				}
				other.(json.Marshaler).MarshalJSON()
				other.(json.Marshaler).MarshalJSON()
				if string(kept) != snapshot {
					o["owned"] = false
				}
			}
		}
		var doc M
		json.Unmarshal(first, &doc)
		src := M{}
		for _, n := range codecProbes[t] {
			src[n] = classifyMerge(doc, n)
		}
		o["src"] = src
		if reflect.DeepEqual(normJSON(doc["x_extra"]), normJSON(custom["x_extra"])) {
			o["extra"] = "kept"
		}
		y := newOf(t)
		if err := json.Unmarshal(first, y); err != nil {
			o["unmarshalErr"] = err.Error()
			o["back"] = src
			return
		}
		second, err := json.Marshal(y)
		if err != nil {
			o["marshalErr"] = err.Error()
			return
		}
		var doc2 M
		json.Unmarshal(second, &doc2)
		back := M{}
		for _, n := range codecProbes[t] {
			back[n] = classifyMerge(doc2, n)
		}
		o["back"] = back
		o["stable"] = reflect.DeepEqual(doc, doc2)
		if !reflect.DeepEqual(doc, doc2) {
			o["first"], o["second"] = string(first), string(second)
		}
	})
	if p != "" {
		o["panic"], o["detail"] = true, p
	}
	for _, k := range []string{"src", "back"} {
		if _, ok := o[k]; !ok {
			m := M{}
			for _, n := range codecProbes[t] {
				m[n] = "other"
			}
			o[k] = m
		}
	}
	return o
}

// ---- tolerant decoding

var decodeDocs = map[string]map[string]string{
	"aud": {"string": `"a"`, "array": `["a","b"]`, "emptyarray": `[]`, "null": `null`, "number": `1`, "object": `{"a":"b"}`, "bool": `true`,
		"arrayNonString": `["a",1]`, "nestedArray": `[["a"]]`},
	"time": {"number": `1500000000`, "float": `1500000000.7`, "negnumber": `-5`, "rfc3339": `"2017-07-14T02:40:00Z"`, "rfc3339Offset": `"2017-07-14T04:40:00+02:00"`,
		"rfc3339Frac": `"2017-07-14T02:40:00.566Z"`, "rfc3339FracOffset": `"2017-07-14T04:40:00.566+02:00"`, "rfc3339FracNegOffset": `"2017-07-13T21:40:00.25-05:00"`, "farFuture": `253402300799`, "badstring": `"yesterday"`, "null": `null`,
		"bool": `true`, "object": `{}`, "array": `[1500000000]`, "bigfloat": `1e400`, "numericString": `"1500000000"`},
	"locale": {"tag": `"de"`, "emptyString": `""`, "unknownTag": `"zz-ZZ"`, "unknownSubtag": `"de-ZZZ"`, "unknownScript": `"en-Abcd"`, "unknownLang": `"qq-CH"`, "malformedTag": `"not a tag!"`, "number": `5`, "null": `null`, "object": `{}`},
	"locales": {"spaceDelimited": `"de fr"`, "array": `["de","fr"]`, "withUnknown": `["de","zz-ZZ","fr"]`, "emptyString": `""`, "null": `null`, "number": `5`,
		"object": `{}`, "arrayNonString": `["de",1]`},
	"bool": {"true": `true`, "stringTrue": `"true"`, "false": `false`, "stringFalse": `"false"`, "stringOther": `"yes"`, "number": `1`, "null": `null`, "object": `{}`},
	"sda":  {"string": `"a b"`, "single": `"a"`, "emptyString": `""`, "array": `["a","b"]`, "null": `null`, "number": `1`},
}

func decodeCase(c M) M {
	field, form := S(c, "field"), S(c, "form")
	raw := decodeDocs[field][form]
	if raw == "" {
		panic("harness: no document for " + field + "/" + form)
	}
	o := M{"v": "error"}
	p := CatchPanic(func() {
		switch field {
		case "aud":
			var x oidc.IDTokenClaims
			if err := json.Unmarshal([]byte(`{"aud":`+raw+`}`), &x); err != nil {
				return
			}
			o["v"] = judge(len(x.Audience) == 0, (form == "string" && reflect.DeepEqual([]string(x.Audience), []string{"a"})) || (form == "array" && reflect.DeepEqual([]string(x.Audience), []string{"a", "b"})))
		case "time":
			var x oidc.IDTokenClaims
			if err := json.Unmarshal([]byte(`{"exp":`+raw+`}`), &x); err != nil {
				return
			}
			want := map[string]int64{"number": 1500000000, "float": 1500000000, "negnumber": -5, "rfc3339": 1500000000, "rfc3339Offset": 1500000000,
				"rfc3339Frac": 1500000000, "rfc3339FracOffset": 1500000000, "rfc3339FracNegOffset": 1500000000, "farFuture": 253402300799}
			w, documented := want[form]
			o["v"] = judge(x.Expiration == 0, documented && int64(x.Expiration) == w)
		case "locale":
			var x oidc.UserInfo
			if err := json.Unmarshal([]byte(`{"locale":`+raw+`}`), &x); err != nil {
				return
			}
			o["v"] = judge(x.Locale == nil || x.Locale.Tag().IsRoot(), form == "tag" && x.Locale != nil && x.Locale.Tag() == language.German)
		case "locales":
			var x oidc.AuthRequest
			if err := json.Unmarshal([]byte(`{"ui_locales":`+raw+`}`), &x); err != nil {
				return
			}
			o["v"] = judge(len(x.UILocales) == 0, len(x.UILocales) == 2 && x.UILocales[0] == language.German && x.UILocales[1] == language.French)
		case "bool":
			var x oidc.UserInfo
			if err := json.Unmarshal([]byte(`{"email_verified":`+raw+`}`), &x); err != nil {
				return
			}
			o["v"] = judge(!bool(x.EmailVerified), (form == "true" || form == "stringTrue") && bool(x.EmailVerified))
		case "sda":
			var x oidc.IntrospectionResponse
			if err := json.Unmarshal([]byte(`{"scope":`+raw+`}`), &x); err != nil {
				return
			}
			empty := len(x.Scope) == 0 || (len(x.Scope) == 1 && x.Scope[0] == "")
			o["v"] = judge(empty, (form == "string" && reflect.DeepEqual([]string(x.Scope), []string{"a", "b"})) || (form == "single" && reflect.DeepEqual([]string(x.Scope), []string{"a"})))
		}
	})
	if p != "" {
		o["v"], o["detail"] = "panic", p
	}
	return o
}

// judge: value = decoded to what the document says; zero = zero value; anything else is a value the document did not contain
func judge(isZero, isValue bool) string {
	switch {
	case isValue:
		return "value"
	case isZero:
		return "zero"
	}
	return "invented"
}

// ---- sealing

var sealPlains = map[string]string{"empty": "", "idsub": "at12-6f3a9c:user-1", "colons": "a:b:c::d", "multiblock": strings.Repeat("0123456789abcdef", 4) + "tail",
	"utf8": "zürich-東京-🙂:sub", "long": strings.Repeat("x1y2", 256)}

func sealCase(c M) M {
	plain := sealPlains[S(c, "plain")]
	key := opdrv.CryptoKey
	other := key
	switch S(c, "key") {
	case "bitflip":
		other[31] ^= 0x01
	case "other":
		other = opdrv.OtherCryptoKey
	}
	third := opdrv.OtherCryptoKey
	third[0] ^= 0x40
	o := M{"open": "error", "fresh": false}
	p := CatchPanic(func() {
		var s1, s2, back string
		var err error
		if S(c, "via") == "op" {
			s1, err = op.NewAESCrypto(key).Encrypt(plain)
			if err != nil {
				return
			}
			s2, _ = op.NewAESCrypto(key).Encrypt(plain)
			switch S(c, "before") {
			case "sameStringRightKey":
				op.NewAESCrypto(key).Decrypt(s1)
			case "sameStringThirdKey":
				op.NewAESCrypto(third).Decrypt(s1)
			}
			back, err = op.NewAESCrypto(other).Decrypt(s1)
		} else {
			s1, err = crypto.EncryptAES(plain, string(key[:]))
			if err != nil {
				return
			}
			s2, _ = crypto.EncryptAES(plain, string(key[:]))
			switch S(c, "before") {
			case "sameStringRightKey":
				crypto.DecryptAES(s1, string(key[:]))
			case "sameStringThirdKey":
				crypto.DecryptAES(s1, string(third[:]))
			}
			back, err = crypto.DecryptAES(s1, string(other[:]))
		}
		o["fresh"] = s1 != s2
		switch {
		case err != nil:
			o["open"] = "error"
		case back == plain:
			o["open"] = "plain"
		default:
			o["open"] = "different"
		}
	})
	if p != "" {
		o["open"], o["detail"] = "panic", p
	}
	return o
}

// ---- endpoint: the provider encodes an object the storage filled

type codecStorage struct {
	op.Storage
	ui    *oidc.UserInfo
	intro *oidc.IntrospectionResponse
}

func (s codecStorage) SetUserinfoFromToken(_ context.Context, u *oidc.UserInfo, _, _, _ string) error {
	*u = *s.ui
	return nil
}

func (s codecStorage) SetIntrospectionFromToken(_ context.Context, r *oidc.IntrospectionResponse, _, _, _ string) error {
	*r = *s.intro
	return nil
}

func endpointCase(c M) M {
	t := S(c, "t")
	regs, customs := SS(c, "regs"), SS(c, "customs")
	o := M{"panic": false, "ok": false, "extra": "lost"}
	src := M{}
	for _, n := range codecProbes[t] {
		if n != "active" {
			src[n] = "other"
		}
	}
	o["src"] = src
	p := CatchPanic(func() {
		discWorldOnce.Do(func() {
			w, err := opdrv.LoadWorld(DiscWorldPath)
			if err != nil {
				panic(err)
			}
			discWorld = w
		})
		x := newOf(t)
		custom := map[string]any{"x_extra": map[string]any{"k": []any{"v", 1.0}}}
		for _, n := range customs {
			custom[n] = marker(n, false)
		}
		reflect.ValueOf(x).Elem().FieldByName("Claims").Set(reflect.ValueOf(custom))
		for _, n := range regs {
			setRegistered(x, n)
		}
		store := modelstore.New(opdrv.BuildRegs(discWorld), opdrv.SigningKeyFor("ES256"))
		cs := codecStorage{Storage: store}
		if t == "UserInfo" {
			cs.ui = x.(*oidc.UserInfo)
		} else {
			cs.intro = x.(*oidc.IntrospectionResponse)
		}
		prov, err := op.NewProvider(&op.Config{CryptoKey: opdrv.CryptoKey}, cs, op.StaticIssuer(opdrv.Issuer))
		if err != nil {
			panic("harness: " + err.Error())
		}
		var h http.Handler = prov
		if S(c, "router") == "L" {
			h = op.RegisterLegacyServer(op.NewLegacyServer(prov, *op.DefaultEndpoints), op.AuthorizeCallbackHandler(prov))
		}
		tok, err := op.NewAESCrypto(opdrv.CryptoKey).Encrypt("token-1:user-1")
		if err != nil {
			panic("harness: " + err.Error())
		}
		var r *opdrv.RawResponse
		if t == "UserInfo" {
			req := httptest.NewRequest(http.MethodGet, opdrv.Issuer+"/userinfo", nil)
			req.Header.Set("Authorization", "Bearer "+tok)
			r = opdrv.Serve(h, req)
		} else {
			r = isoReq(h, http.MethodPost, "/oauth/introspect", url.Values{"token": {tok}}, "cw")
		}
		if r.Panic != "" {
			panic(r.Panic)
		}
		var doc M
		if r.Status != 200 || json.Unmarshal([]byte(r.Body), &doc) != nil {
			o["detail"] = fmt.Sprintf("%d %s", r.Status, r.Body)
			return
		}
		o["ok"] = true
		for n := range src {
			src[n] = classifyMerge(doc, n)
		}
		if reflect.DeepEqual(normJSON(doc["x_extra"]), normJSON(custom["x_extra"])) {
			o["extra"] = "kept"
		}
	})
	if strings.HasPrefix(p, "harness:") {
		panic(p)
	}
	if p != "" {
		o["panic"], o["detail"] = true, p
	}
	return o
}

func CodecCase(c *Case) M {
	switch S(c.C, "kind") {
	case "endpoint":
		return endpointCase(c.C)
	case "merge":
		return mergeCase(c.C)
	case "decode":
		return decodeCase(c.C)
	}
	return sealCase(c.C)
}
