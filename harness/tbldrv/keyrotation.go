package tbldrv

import (
	"bytes"
	"context"
	"encoding/json"
	"io"
	"net/http"
	"runtime"
	"sync"
	"sync/atomic"
	"time"

	jose "github.com/go-jose/go-jose/v4"

	"verif/harness/modelstore"

	"github.com/zitadel/oidc/v3/pkg/client/rp"
	"github.com/zitadel/oidc/v3/pkg/oidc"
	"github.com/zitadel/oidc/v3/pkg/op"
)

// ---- C02: spec/KeyRotation.tla

// rotatingJWKS is the provider's jwks_uri: it serves whatever is published now and counts the downloads.
type rotatingJWKS struct {
	mu        sync.Mutex
	published []string
	downloads int
}

func (t *rotatingJWKS) RoundTrip(r *http.Request) (*http.Response, error) {
	t.mu.Lock()
	t.downloads++
	set := jose.JSONWebKeySet{Keys: []jose.JSONWebKey{}}
	names := append([]string(nil), t.published...)
	hasU := false
	for _, n := range t.published {
		if n == "U" {
			hasU = true
			continue
		}
		if n == "E" {
			// an RSA encryption key published under the key id of signing key A
			set.Keys = append(set.Keys, jose.JSONWebKey{Key: rotKey(n).Pub, KeyID: rotKid(n), Use: "enc", Algorithm: "RSA-OAEP"})
			continue
		}
		set.Keys = append(set.Keys, jose.JSONWebKey{Key: rotKey(n).Pub, KeyID: rotKid(n), Use: "sig", Algorithm: "ES256"})
	}
	t.mu.Unlock()
	body, _ := json.Marshal(set)
	if hasU {
		// splice the member of unknown key type in at its position
		var doc struct {
			Keys []json.RawMessage `json:"keys"`
		}
		json.Unmarshal(body, &doc)
		out := []json.RawMessage{}
		ki := 0
		for _, n := range names {
			if n == "U" {
				out = append(out, json.RawMessage(`{"kty":"PQ-XYZ","kid":"U","use":"sig","pub":"AAAA"}`))
				continue
			}
			out = append(out, doc.Keys[ki])
			ki++
		}
		body, _ = json.Marshal(map[string]any{"keys": out})
	}
	return &http.Response{StatusCode: 200, Header: http.Header{"Content-Type": {"application/json"}}, Body: io.NopCloser(bytes.NewReader(body)), Request: r}, nil
}

type rotatingStorage struct {
	op.Storage
	jwks *rotatingJWKS
}

func (s rotatingStorage) KeySet(context.Context) ([]op.Key, error) {
	s.jwks.mu.Lock()
	defer s.jwks.mu.Unlock()
	s.jwks.downloads++
	keys := []op.Key{}
	for _, n := range s.jwks.published {
		if n == "U" {
			continue // a storage cannot even represent a key of a type the library does not know
		}
		if n == "E" {
			keys = append(keys, opKey{id: rotKid(n), use: "enc", alg: "RSA-OAEP", key: rotKey(n).Pub})
			continue
		}
		keys = append(keys, opKey{id: rotKid(n), use: "sig", alg: jose.ES256, key: rotKey(n).Pub})
	}
	return keys, nil
}

func rotKey(name string) *modelstore.SignKey {
	if name == "E" {
		return modelstore.GenKey("c02-rot-E", jose.RS256)
	}
	return modelstore.GenKey("c02-rot-"+name, jose.ES256)
}

// rotKid: key N is published without a key id
func rotKid(name string) string {
	if name == "N" {
		return ""
	}
	if name == "E" {
		return "A"
	}
	return name
}

var (
	rotTokMu sync.Mutex
	rotToks  = map[string]string{}
)

// rotToken: a token signed by key `by` whose header names key id `kid` ("" = no kid header)
func rotToken(by, kid string) string {
	rotTokMu.Lock()
	defer rotTokMu.Unlock()
	k := by + "/" + kid
	if t, ok := rotToks[k]; ok {
		return t
	}
	now := time.Now()
	claims := M{"iss": sigIssuer, "sub": "user-1", "aud": []string{"cid"}, "azp": "cid", "exp": now.Unix() + 7200, "iat": now.Unix() - 5,
		"jti": "jti-1", "client_id": "cid", "marker": "signed"}
	payload, _ := json.Marshal(claims)
	hdr := M{"alg": "ES256", "typ": "JWT"}
	if kid != "" {
		hdr["kid"] = kid
	}
	header, _ := json.Marshal(hdr)
	input := b64.EncodeToString(header) + "." + b64.EncodeToString(payload)
	t := input + "." + b64.EncodeToString(rawSign("ES256", rotKey(by), []byte(input)))
	rotToks[k] = t
	return t
}

// pending downloads per key set instance, counted at the linearization points of remoteKeySet (build tag verif):
// fetch.start opens one, commit (cache written, still under the lock) closes it.
var rotPending sync.Map // ks -> *int64

// InstallRotationHook makes the harness observe the download goroutine of remote key sets.
func InstallRotationHook() {
	rp.VerifHook = func(_ context.Context, ks any, point string, _ ...any) {
		switch point {
		case "fetch.start", "commit":
			v, _ := rotPending.LoadOrStore(ks, new(int64))
			if point == "fetch.start" {
				atomic.AddInt64(v.(*int64), 1)
			} else {
				atomic.AddInt64(v.(*int64), -1)
			}
		}
	}
}

func rotQuiesce(ks any) {
	if ks == nil {
		return
	}
	v, ok := rotPending.Load(ks)
	if !ok {
		return
	}
	for i := 0; atomic.LoadInt64(v.(*int64)) > 0; i++ {
		if i > 2000000 {
			panic("key rotation harness: download goroutine did not finish")
		}
		runtime.Gosched()
	}
}

func KeyRotationCase(c *Case) M {
	steps := L(c.C, "steps")
	run := func(entry string) []M {
		jw := &rotatingJWKS{published: SS(c.C, "init")}
		var verify func(tok string) error
		var ksRef any
		switch entry {
		case "rp":
			ks := rp.NewRemoteKeySet(&http.Client{Transport: jw}, sigIssuer+"/keys")
			if B(c.C, "skip") {
				ks = rp.NewRemoteKeySet(&http.Client{Transport: jw}, sigIssuer+"/keys", rp.SkipRemoteCheck())
			}
			ksRef = ks
			v := rp.NewIDTokenVerifier(sigIssuer, "cid", ks, rp.WithNonce(nil))
			verify = func(tok string) error {
				_, err := rp.VerifyIDToken[*oidc.IDTokenClaims](context.Background(), tok, v)
				return err
			}
		default:
			v := op.NewAccessTokenVerifier(sigIssuer, &op.OpenIDKeySet{Storage: rotatingStorage{jwks: jw}})
			verify = func(tok string) error {
				_, err := op.VerifyAccessToken[*oidc.AccessTokenClaims](context.Background(), tok, v)
				return err
			}
		}
		out := []M{}
		for _, sx := range steps {
			s := sx.(map[string]any)
			if S(s, "op") == "publish" {
				jw.mu.Lock()
				jw.published = SS(s, "set")
				jw.mu.Unlock()
				out = append(out, M{"v": "-", "dl": 0})
				continue
			}
			by, kid := S(s, "by"), ""
			switch S(s, "kid") {
			case "own":
				kid = rotKid(by)
			case "other":
				kid = "A"
				if by == "A" {
					kid = "B"
				}
			}
			jw.mu.Lock()
			before := jw.downloads
			jw.mu.Unlock()
			var err error
			p := CatchPanic(func() { err = verify(rotToken(by, kid)) })
			// the download of the remote key set commits in its own goroutine after the waiters are released: let it finish
			// before the next step so that "the verifier's last download" is well defined (sequential program, no schedule here; C13 has those)
			rotQuiesce(ksRef)
			jw.mu.Lock()
			dl := jw.downloads - before
			jw.mu.Unlock()
			o := M{"v": "accept", "dl": dl}
			if p != "" {
				o = M{"v": "panic", "dl": dl, "detail": p}
			} else if err != nil {
				o = M{"v": "reject", "dl": dl, "err": sigErrClass(err)}
			}
			out = append(out, o)
		}
		if ksRef != nil {
			rotPending.Delete(ksRef)
		}
		return out
	}
	return M{"rp": run("rp"), "op": run("op")}
}
