package tbldrv

import (
	"context"
	"encoding/base64"
	"encoding/json"
	"io"
	"net/http"
	"net/http/httptest"
	"net/url"
	"sort"
	"strings"

	"sync"
	"time"

	"verif/harness/modelstore"
	"verif/harness/opdrv"

	"github.com/zitadel/oidc/v3/pkg/client"
	"github.com/zitadel/oidc/v3/pkg/client/rp"
	"github.com/zitadel/oidc/v3/pkg/oidc"
	"github.com/zitadel/oidc/v3/pkg/op"
)

// ---- C19: spec/Discovery.tla

var (
	discWorldOnce sync.Once
	discWorld     *opdrv.WorldJSON
	DiscWorldPath = "world.json"
)

type discInst struct {
	h      http.Handler
	store  *modelstore.Store
	host   string // Host header of requests
	fwd    string // public host named in the Forwarded header ("" = none)
	issuer string
	prefix string // path prefix the handler is mounted under
}

func (d *discInst) do(method, rawurl string, form url.Values, hdr http.Header) *opdrv.RawResponse {
	var body io.Reader
	if form != nil && method == http.MethodPost {
		body = strings.NewReader(form.Encode())
	} else if form != nil {
		rawurl += "?" + form.Encode()
	}
	req := httptest.NewRequest(method, rawurl, body)
	req.Host = d.host
	if d.fwd != "" {
		req.Header.Set("Forwarded", "for=192.0.2.1;host="+d.fwd+";proto=https")
	}
	if method == http.MethodPost {
		req.Header.Set("Content-Type", "application/x-www-form-urlencoded")
	}
	for k, v := range hdr {
		req.Header[k] = v
	}
	return opdrv.Serve(d.h, req)
}

func basicHdr(c string) http.Header {
	return http.Header{"Authorization": {"Basic " + base64.StdEncoding.EncodeToString([]byte(c+":"+opdrv.Secret(c)))}}
}

func buildDisc(c M) *discInst {
	flags, caps := Sub(c, "flags"), Sub(c, "caps")
	store := modelstore.New(opdrv.BuildRegs(discWorld), opdrv.SigningKeyFor("ES256"))
	conf := &op.Config{CryptoKey: opdrv.CryptoKey, DefaultLogoutRedirectURI: "https://op.example.test/logged-out",
		CodeMethodS256: B(flags, "s256"), AuthMethodPost: B(flags, "post"), AuthMethodPrivateKeyJWT: B(flags, "pkjwt"),
		GrantTypeRefreshToken: B(flags, "refresh"), RequestObjectSupported: B(flags, "reqobj"),
		DeviceAuthorization: op.DeviceAuthorizationConfig{Lifetime: 5 * time.Minute, PollInterval: 5 * time.Second, UserFormPath: "/device", UserCode: op.UserCodeBase20}}
	d := &discInst{store: store, host: "op.example.test", issuer: "https://op.example.test"}
	issuer := op.StaticIssuer(d.issuer)
	switch S(c, "issuer") {
	case "path":
		d.issuer, d.prefix = "https://op.example.test/oidc", "/oidc"
		issuer = op.StaticIssuer(d.issuer)
	case "dynamicHost":
		d.host, d.issuer = "tenant1.example.test", "https://tenant1.example.test"
		issuer = op.IssuerFromHost("")
	case "forwarded":
		// behind a reverse proxy: every tenant arrives under the same upstream Host, the public host is in the Forwarded header
		d.host, d.fwd, d.issuer = "upstream.internal:8080", "tenant1.example.test", "https://tenant1.example.test"
		issuer = op.IssuerFromForwardedOrHost("")
	}
	opts := []op.Option{}
	if S(c, "endpoints") == "custom" {
		opts = append(opts, op.WithCustomAuthEndpoint(op.NewEndpoint("x/auth")), op.WithCustomTokenEndpoint(op.NewEndpoint("x/token")),
			op.WithCustomIntrospectionEndpoint(op.NewEndpoint("x/introspect")), op.WithCustomUserinfoEndpoint(op.NewEndpoint("x/userinfo")),
			op.WithCustomRevocationEndpoint(op.NewEndpoint("x/revoke")), op.WithCustomEndSessionEndpoint(op.NewEndpoint("x/logout")),
			op.WithCustomKeysEndpoint(op.NewEndpoint("x/jwks")), op.WithCustomDeviceAuthorizationEndpoint(op.NewEndpoint("x/device")))
	}
	p, err := op.NewProvider(conf, modelstore.WithCaps(store, B(caps, "cc"), B(caps, "te"), B(caps, "dev")), issuer, opts...)
	if err != nil {
		panic("harness: " + err.Error())
	}
	var h http.Handler = p
	if S(c, "router") == "L" {
		ep := op.Endpoints{Authorization: p.AuthorizationEndpoint(), Token: p.TokenEndpoint(), Introspection: p.IntrospectionEndpoint(), Userinfo: p.UserinfoEndpoint(),
			Revocation: p.RevocationEndpoint(), EndSession: p.EndSessionEndpoint(), JwksURI: p.KeysEndpoint(), DeviceAuthorization: p.DeviceAuthorizationEndpoint()}
		switch S(c, "endpoints") {
		case "legacyOwn", "legacyNoDevice":
			// the legacy server's own endpoint table, different from the wrapped provider's
			ep = op.Endpoints{Authorization: op.NewEndpoint("y/auth"), Token: op.NewEndpoint("y/token"), Introspection: op.NewEndpoint("y/introspect"),
				Userinfo: op.NewEndpoint("y/userinfo"), Revocation: op.NewEndpoint("y/revoke"), EndSession: op.NewEndpoint("y/logout"),
				JwksURI: op.NewEndpoint("y/jwks"), DeviceAuthorization: op.NewEndpoint("y/device")}
			if S(c, "endpoints") == "legacyNoDevice" {
				ep.DeviceAuthorization = nil
			}
		}
		h = op.RegisterLegacyServer(op.NewLegacyServer(p, ep), op.AuthorizeCallbackHandler(p))
	}
	if d.prefix != "" {
		h = http.StripPrefix(d.prefix, h)
	}
	d.h = h
	if S(c, "issuer") == "dynamicHost" || S(c, "issuer") == "forwarded" {
		// another tenant of the same provider has been served before the observed one
		other := *d
		if other.fwd != "" {
			other.fwd = "tenant0.example.test"
		} else {
			other.host = "tenant0.example.test"
		}
		other.do(http.MethodGet, "https://tenant0.example.test/.well-known/openid-configuration", nil, nil)
		other.do(http.MethodGet, "https://tenant0.example.test/keys", nil, nil)
	}
	return d
}

func configCase(c M) M {
	discWorldOnce.Do(func() {
		w, err := opdrv.LoadWorld(DiscWorldPath)
		if err != nil {
			panic(err)
		}
		discWorld = w
	})
	o := M{"issuerDoc": "other", "issuerToken": "none", "badEndpoints": []string{}, "grantsAdv": []string{}, "grantsAcc": []string{},
		"s256Adv": false, "s256OK": false, "plainOK": false, "reqobjAdv": false, "reqobjOK": false, "reqobjInnerOK": false, "issuerImplicit": "none", "pkceEnforced": true, "panic": false}
	p := CatchPanic(func() {
		d := buildDisc(c)
		r := d.do(http.MethodGet, d.issuer+"/.well-known/openid-configuration", nil, nil)
		if r.Panic != "" {
			panic(r.Panic)
		}
		var doc oidc.DiscoveryConfiguration
		if r.Status != 200 || json.Unmarshal([]byte(r.Body), &doc) != nil {
			o["issuerDoc"] = "nodocument"
			return
		}
		if doc.Issuer == d.issuer {
			o["issuerDoc"] = "same"
		}
		// ---- every advertised endpoint is an issuer-relative address of a served route
		bad := []string{}
		eps := map[string][2]string{"authorization": {doc.AuthorizationEndpoint, "GET"}, "token": {doc.TokenEndpoint, "POST"}, "introspection": {doc.IntrospectionEndpoint, "POST"},
			"userinfo": {doc.UserinfoEndpoint, "GET"}, "revocation": {doc.RevocationEndpoint, "POST"}, "end_session": {doc.EndSessionEndpoint, "GET"},
			"jwks": {doc.JwksURI, "GET"}, "device_authorization": {doc.DeviceAuthorizationEndpoint, "POST"}}
		for name, e := range eps {
			if e[0] == "" {
				continue
			}
			if !strings.HasPrefix(e[0], d.issuer+"/") {
				bad = append(bad, name+":notIssuerRelative")
				continue
			}
			var form url.Values
			if e[1] == "POST" {
				form = url.Values{"x": {"y"}}
			}
			pr := d.do(e[1], e[0], form, basicHdr("cw"))
			if pr.Status == http.StatusNotFound || pr.Status == http.StatusMethodNotAllowed {
				bad = append(bad, name+":notServed")
			}
		}
		sort.Strings(bad)
		o["badEndpoints"] = bad
		// ---- advertised grants vs. grants the token endpoint does not call unsupported
		adv := []string{}
		short := map[string]string{"authorization_code": "authorization_code", "refresh_token": "refresh_token", "client_credentials": "client_credentials",
			"urn:ietf:params:oauth:grant-type:jwt-bearer": "jwt-bearer", "urn:ietf:params:oauth:grant-type:token-exchange": "token-exchange",
			"urn:ietf:params:oauth:grant-type:device_code": "device_code", "implicit": "implicit"}
		for _, g := range doc.GrantTypesSupported {
			if s, ok := short[string(g)]; ok {
				adv = append(adv, s)
			} else {
				adv = append(adv, string(g))
			}
		}
		sort.Strings(adv)
		o["grantsAdv"] = adv
		acc := []string{}
		probes := []struct {
			name, urn, client string
			form              url.Values
		}{
			{"authorization_code", "authorization_code", "cw", url.Values{"code": {"x"}, "redirect_uri": {opdrv.ConcreteURI["ucw"]}}},
			{"refresh_token", "refresh_token", "cw", url.Values{"refresh_token": {"x"}}},
			{"client_credentials", "client_credentials", "cs", url.Values{"scope": {"api"}}},
			{"jwt-bearer", "urn:ietf:params:oauth:grant-type:jwt-bearer", "", url.Values{"assertion": {"a.b.c"}}},
			{"token-exchange", "urn:ietf:params:oauth:grant-type:token-exchange", "cw", url.Values{"subject_token": {"x"}, "subject_token_type": {"urn:ietf:params:oauth:token-type:access_token"}}},
			{"device_code", "urn:ietf:params:oauth:grant-type:device_code", "cd", url.Values{"device_code": {"x"}}},
		}
		tokenURL := doc.TokenEndpoint
		for _, pb := range probes {
			form := url.Values{"grant_type": {pb.urn}}
			for k, v := range pb.form {
				form[k] = v
			}
			var hdr http.Header
			if pb.client != "" {
				hdr = basicHdr(pb.client)
			}
			pr := d.do(http.MethodPost, tokenURL, form, hdr)
			var e struct {
				Error string `json:"error"`
			}
			json.Unmarshal([]byte(pr.Body), &e)
			if e.Error != "unsupported_grant_type" && pr.Status != http.StatusNotFound {
				acc = append(acc, pb.name)
			}
		}
		sort.Strings(acc)
		o["grantsAcc"] = acc
		// ---- a code flow through the ADVERTISED endpoints: issuer of the ID token, PKCE methods
		flow := func(method string) (iss string, ok bool) {
			verifier := "verifier-0123456789abcdefghijklmnopqrstuvwxyzABCDEFGHIJ"
			q := url.Values{"client_id": {"cw"}, "redirect_uri": {opdrv.ConcreteURI["ucw"]}, "response_type": {"code"}, "scope": {"openid"}, "state": {"s"}}
			switch method {
			case "S256":
				q.Set("code_challenge", oidc.NewSHACodeChallenge(verifier))
				q.Set("code_challenge_method", "S256")
			case "plain":
				q.Set("code_challenge", verifier)
				q.Set("code_challenge_method", "plain")
			}
			r := d.do(http.MethodGet, doc.AuthorizationEndpoint, q, nil)
			id := strings.TrimPrefix(r.Location, "/login?authRequestID=")
			if r.Status != http.StatusFound || id == r.Location {
				return "", false
			}
			d.store.Login(id, "u1")
			r = d.do(http.MethodGet, doc.AuthorizationEndpoint+"/callback", url.Values{"id": {id}}, nil)
			u, err := url.Parse(r.Location)
			if err != nil || u.Query().Get("code") == "" {
				return "", false
			}
			form := url.Values{"grant_type": {"authorization_code"}, "code": {u.Query().Get("code")}, "redirect_uri": {opdrv.ConcreteURI["ucw"]}}
			if method != "" {
				form.Set("code_verifier", verifier)
			}
			r = d.do(http.MethodPost, doc.TokenEndpoint, form, basicHdr("cw"))
			var tr struct {
				IDToken string `json:"id_token"`
			}
			if r.Status != 200 || json.Unmarshal([]byte(r.Body), &tr) != nil || strings.Count(tr.IDToken, ".") != 2 {
				return "", false
			}
			pl, _ := base64.RawURLEncoding.DecodeString(strings.Split(tr.IDToken, ".")[1])
			var cl struct {
				Iss string `json:"iss"`
			}
			json.Unmarshal(pl, &cl)
			return cl.Iss, true
		}
		if iss, ok := flow(""); ok {
			o["issuerToken"] = "other:" + iss
			if iss == doc.Issuer {
				o["issuerToken"] = "same"
			}
		}
		// ---- the implicit flow through the advertised authorization endpoint: issuer of the ID token in the fragment
		{
			q := url.Values{"client_id": {"cx"}, "redirect_uri": {opdrv.ConcreteURI["ucx"]}, "response_type": {"id_token token"}, "scope": {"openid"}, "state": {"s"}, "nonce": {"n"}}
			r := d.do(http.MethodGet, doc.AuthorizationEndpoint, q, nil)
			if id := strings.TrimPrefix(r.Location, "/login?authRequestID="); r.Status == http.StatusFound && id != r.Location {
				d.store.Login(id, "u1")
				r = d.do(http.MethodGet, doc.AuthorizationEndpoint+"/callback", url.Values{"id": {id}}, nil)
				if u, err := url.Parse(r.Location); err == nil {
					fv, _ := url.ParseQuery(u.EscapedFragment())
					if idt := fv.Get("id_token"); strings.Count(idt, ".") == 2 {
						pl, _ := base64.RawURLEncoding.DecodeString(strings.Split(idt, ".")[1])
						var cl struct {
							Iss string `json:"iss"`
						}
						json.Unmarshal(pl, &cl)
						o["issuerImplicit"] = "other:" + cl.Iss
						if cl.Iss == doc.Issuer {
							o["issuerImplicit"] = "same"
						}
					}
				}
			}
		}
		for _, m := range doc.CodeChallengeMethodsSupported {
			if m == oidc.CodeChallengeMethodS256 {
				o["s256Adv"] = true
			}
		}
		_, o["s256OK"] = flow("S256")
		_, o["plainOK"] = flow("plain")
		// ---- PKCE for a private_key_jwt client: S256 challenge at authorize, assertion + a WRONG verifier (and none) at the token endpoint
		if B(Sub(c, "flags"), "pkjwt") {
			for _, wrong := range []string{"another-verifier-0123456789abcdefghijklmnopqrstuvwxyzABCDEF", ""} {
				q := url.Values{"client_id": {"cj"}, "redirect_uri": {opdrv.ConcreteURI["ucj"]}, "response_type": {"code"}, "scope": {"openid"}, "state": {"s"},
					"code_challenge": {oidc.NewSHACodeChallenge("the-right-verifier-0123456789abcdefghijklmnopqrstuvwxyzAB")}, "code_challenge_method": {"S256"}}
				r := d.do(http.MethodGet, doc.AuthorizationEndpoint, q, nil)
				id := strings.TrimPrefix(r.Location, "/login?authRequestID=")
				if r.Status != http.StatusFound || id == r.Location {
					continue
				}
				d.store.Login(id, "u1")
				r = d.do(http.MethodGet, doc.AuthorizationEndpoint+"/callback", url.Values{"id": {id}}, nil)
				u, err := url.Parse(r.Location)
				if err != nil || u.Query().Get("code") == "" {
					continue
				}
				form := url.Values{"grant_type": {"authorization_code"}, "code": {u.Query().Get("code")}, "redirect_uri": {opdrv.ConcreteURI["ucj"]},
					"client_assertion_type": {oidc.ClientAssertionTypeJWTAssertion},
					"client_assertion":      {opdrv.SignAssertion("cj", "cj", []string{doc.Issuer}, time.Now(), time.Now().Add(time.Minute), opdrv.ClientKey("cj"))}}
				if wrong != "" {
					form.Set("code_verifier", wrong)
				}
				if r = d.do(http.MethodPost, doc.TokenEndpoint, form, nil); r.Status == 200 && strings.Contains(r.Body, "access_token") {
					o["pkceEnforced"] = false
				}
			}
		}
		// ---- request objects
		o["reqobjAdv"] = doc.RequestParameterSupported
		{
			now := time.Now()
			claims := M{"iss": "cj", "client_id": "cj", "aud": []string{doc.Issuer}, "state": "from-object", "iat": now.Unix(), "exp": now.Add(time.Minute).Unix()}
			pl, _ := json.Marshal(claims)
			k := opdrv.ClientKey("cj")
			h64 := seg(`{"alg":"ES256","kid":"` + k.KID + `","typ":"JWT"}`)
			p64 := b64.EncodeToString(pl)
			obj := h64 + "." + p64 + "." + b64.EncodeToString(rawSign("ES256", k, []byte(h64+"."+p64)))
			q := url.Values{"client_id": {"cj"}, "redirect_uri": {opdrv.ConcreteURI["ucj"]}, "response_type": {"code"}, "scope": {"openid"}, "state": {"from-query"}, "request": {obj}}
			r := d.do(http.MethodGet, doc.AuthorizationEndpoint, q, nil)
			if id := strings.TrimPrefix(r.Location, "/login?authRequestID="); r.Status == http.StatusFound && id != r.Location {
				d.store.Lock()
				if ar, ok := d.store.Requests[id]; ok && ar.State == "from-object" {
					o["reqobjOK"] = true
				}
				d.store.Unlock()
			}
			// the redirect_uri travels inside the signed object only
			claims["redirect_uri"] = opdrv.ConcreteURI["ucj"]
			pl, _ = json.Marshal(claims)
			p64 = b64.EncodeToString(pl)
			obj = h64 + "." + p64 + "." + b64.EncodeToString(rawSign("ES256", k, []byte(h64+"."+p64)))
			q = url.Values{"client_id": {"cj"}, "response_type": {"code"}, "scope": {"openid"}, "state": {"from-query"}, "request": {obj}}
			r = d.do(http.MethodGet, doc.AuthorizationEndpoint, q, nil)
			if id := strings.TrimPrefix(r.Location, "/login?authRequestID="); r.Status == http.StatusFound && id != r.Location {
				d.store.Lock()
				if ar, ok := d.store.Requests[id]; ok && ar.State == "from-object" && ar.URI == opdrv.ConcreteURI["ucj"] {
					o["reqobjInnerOK"] = true
				}
				d.store.Unlock()
			}
		}
	})
	if strings.HasPrefix(p, "harness:") {
		panic(p)
	}
	if p != "" {
		o["panic"], o["detail"] = true, p
	}
	return o
}

// issuerString renders the abstract issuer of an issuer case.
func issuerString(c M) string {
	switch S(c, "scheme") {
	case "empty":
		return ""
	case "garbage":
		return "://%%%"
	}
	host := map[string]string{"host": "op.example.test", "localhost": "localhost:9998", "nohost": ""}[S(c, "host")]
	deco := map[string]string{"none": "", "path": "/oidc", "slash": "/", "query": "?tenant=a", "fragment": "#frag", "pathQuery": "/oidc?tenant=a", "pathFragment": "/oidc#frag"}[S(c, "deco")]
	if host == "" && deco == "" {
		deco = "/path" // scheme:///path
	}
	return S(c, "scheme") + "://" + host + deco
}

func issuerCase(c M) M {
	discWorldOnce.Do(func() {
		w, err := opdrv.LoadWorld(DiscWorldPath)
		if err != nil {
			panic(err)
		}
		discWorld = w
	})
	store := modelstore.New(opdrv.BuildRegs(discWorld), opdrv.SigningKeyFor("ES256"))
	opts := []op.Option{}
	if B(c, "insecure") {
		opts = append(opts, op.WithAllowInsecure())
	}
	o := M{"accepted": false}
	p := CatchPanic(func() {
		var err error
		if S(c, "via") == "NewOpenIDProvider" {
			_, err = op.NewOpenIDProvider(issuerString(c), &op.Config{CryptoKey: opdrv.CryptoKey}, store, opts...)
		} else {
			_, err = op.NewProvider(&op.Config{CryptoKey: opdrv.CryptoKey}, store, op.StaticIssuer(issuerString(c)), opts...)
		}
		o["accepted"] = err == nil
		o["issuer"] = issuerString(c)
		if err != nil {
			o["err"] = err.Error()
		}
	})
	if p != "" {
		o["detail"] = p
	}
	return o
}

func discoverCase(c M) M {
	asked := "https://op.example.test"
	custom := map[string]string{"default": "", "customSameHost": asked + "/tenants/a/.well-known/openid-configuration",
		"customOtherHost": "https://other-op.example.test/.well-known/openid-configuration", "": ""}[S(c, "url")]
	urlIssuer := asked
	if custom != "" {
		urlIssuer = strings.TrimSuffix(custom, "/.well-known/openid-configuration")
	}
	docIss := map[string]string{"equal": asked, "different": "https://evil.example.test", "trailingSlash": asked + "/", "empty": "", "otherScheme": "http://op.example.test",
		"subpath": asked + "/tenant", "urlIssuer": urlIssuer}[S(c, "doc")]
	if S(c, "doc") == "urlIssuer" && custom == "" {
		docIss = asked + "/.well-known" // default location: there is no other issuer the URL could belong to; a different issuer all the same
	}
	body, _ := json.Marshal(M{"issuer": docIss, "authorization_endpoint": docIss + "/authorize", "token_endpoint": docIss + "/oauth/token", "jwks_uri": docIss + "/keys"})
	o := M{"accepted": false}
	p := CatchPanic(func() {
		hc := &http.Client{Transport: jwksTransport{body}}
		var err error
		if S(c, "via") == "rp.NewRelyingPartyOIDC" {
			opts := []rp.Option{rp.WithHTTPClient(hc)}
			if custom != "" {
				opts = append(opts, rp.WithCustomDiscoveryUrl(custom))
			}
			_, err = rp.NewRelyingPartyOIDC(context.Background(), asked, "client", "secret", "https://rp.example.test/cb", []string{"openid"}, opts...)
		} else if custom != "" {
			_, err = client.Discover(context.Background(), asked, hc, custom)
		} else {
			_, err = client.Discover(context.Background(), asked, hc)
		}
		o["accepted"] = err == nil
	})
	if p != "" {
		o["detail"] = p
	}
	return o
}

func DiscoveryCase(c *Case) M {
	switch S(c.C, "kind") {
	case "config":
		return configCase(c.C)
	case "issuer":
		return issuerCase(c.C)
	}
	return discoverCase(c.C)
}
