package tbldrv

import (
	"context"
	"encoding/json"
	"errors"
	"net/http"
	"net/http/httptest"
	"net/url"
	"strconv"
	"strings"
	"sync"
	"time"

	jose "github.com/go-jose/go-jose/v4"

	"verif/harness/modelstore"
	"verif/harness/opdrv"

	"github.com/zitadel/oidc/v3/pkg/oidc"
	"github.com/zitadel/oidc/v3/pkg/op"
)

// ---- C14: spec/Assertion.tla

type akey struct {
	owner, kid, typ string
}

var assertionKeys = map[string]akey{"a1": {"A", "ka1", "RSA"}, "a2": {"A", "ka2", "EC"}, "a3": {"A", "ka3", "OKP"}, "b1": {"B", "kb1", "EC"}, "u": {"", "ku", "EC"}}

func aKey(name string) *modelstore.SignKey {
	return modelstore.GenKey("c14-"+name, algOfType(assertionKeys[name].typ))
}

// delegProvider lets a case choose the subject check of the provider's JWT-profile verifier (op.SubjectCheck).
type delegProvider struct {
	*op.Provider
	delegation bool
}

func (d delegProvider) JWTProfileVerifier(ctx context.Context) *op.JWTProfileVerifier {
	var opts []op.JWTProfileVerifierOption
	if d.delegation {
		opts = append(opts, op.SubjectCheck(func(*oidc.JWTTokenRequest) error { return nil }))
	}
	return op.NewJWTProfileVerifier(d.Storage(), op.IssuerFromContext(ctx), time.Hour, time.Second, opts...)
}

type assertWorld struct {
	store *modelstore.Store
	h     map[string]http.Handler // router -> handler
	at    map[string]string       // router+client -> a live access token issued to that client
	dyn   map[string]http.Handler // router -> handler of the issuer-from-host provider over the same storage
	setup []string                // fitting set-up requests the provider refused (reported with every case)
}

var (
	assertMu     sync.Mutex
	assertWorlds = map[bool]*assertWorld{}
)

const assertURI = "https://rp.example.test/cb"
const assertURI2 = "https://rp.example.test/cb2"

func assertWorldFor(delegation bool) *assertWorld {
	assertMu.Lock()
	defer assertMu.Unlock()
	if w, ok := assertWorlds[delegation]; ok {
		return w
	}
	regs := []*modelstore.ClientReg{}
	for _, id := range []string{"A", "B"} {
		r := &modelstore.ClientReg{ID: id, Auth: "pkjwt", App: "web", Grants: []string{"code", "refresh", "bearer"}, RTypes: []string{"code"},
			URIs: []string{assertURI, assertURI2}, ATType: "opaque", IDTLifetime: time.Hour, Keys: map[string]*jose.JSONWebKey{}}
		for name, k := range assertionKeys {
			if k.owner == id {
				r.Keys[k.kid] = &jose.JSONWebKey{Key: aKey(name).Pub, KeyID: k.kid, Use: "sig"}
			}
		}
		regs = append(regs, r)
	}
	store := modelstore.New(regs, opdrv.SigningKeyFor("ES256"))
	w := &assertWorld{store: store, h: map[string]http.Handler{}}
	_, p, err := opdrv.BuildProvider(store, opdrv.DefaultCfg("P"))
	if err != nil {
		panic(err)
	}
	// the provider's own JWTProfileVerifier (default subject check) unless the case asks for delegation
	var dp op.OpenIDProvider = p
	if delegation {
		dp = delegProvider{Provider: p, delegation: true}
	}
	w.h["P"] = op.CreateRouter(dp)
	w.h["L"] = op.RegisterLegacyServer(op.NewLegacyServer(dp, *op.DefaultEndpoints), op.AuthorizeCallbackHandler(dp))
	// the same storage behind a provider whose issuer follows the request host (two tenants); tenant 1 has been in use before
	dcfg := opdrv.DefaultCfg("P")
	dcfg.Dyn = true
	_, pd, err := opdrv.BuildProvider(store, dcfg)
	if err != nil {
		panic(err)
	}
	var dd op.OpenIDProvider = pd
	if delegation {
		dd = delegProvider{Provider: pd, delegation: true}
	}
	w.dyn = map[string]http.Handler{"P": op.CreateRouter(dd),
		"L": op.RegisterLegacyServer(op.NewLegacyServer(dd, *op.DefaultEndpoints), op.AuthorizeCallbackHandler(dd))}
	for _, router := range []string{"P", "L"} {
		good := buildAssertion(M{"iss": "A", "sub": "iss", "aud": "issuer", "exp": 3600, "iat": -3, "by": "a2", "kid": "ka2", "alg": "ES256", "edit": "none"}, time.Now())
		r := postForm(w.dyn[router], "/oauth/token", url.Values{"grant_type": {string(oidc.GrantTypeBearer)}, "assertion": {good}, "scope": {"openid"}})
		if r.Status != 200 {
			// not a harness failure: the provider refuses a fitting assertion. The cases go on; the completeness rules report it.
			w.setup = append(w.setup, "jwt-bearer grant at tenant 1 of the issuer-from-host provider refused: "+r.Body)
		}
	}
	// one long-lived access token per router and client, for the introspection identity probe
	store.ATLifetime = 24 * time.Hour
	w.at = map[string]string{}
	for _, router := range []string{"P", "L"} {
		for _, client := range []string{"A", "B"} {
			key, kid := "a2", "ka2"
			if client == "B" {
				key, kid = "b1", "kb1"
			}
			good := buildAssertion(M{"iss": client, "sub": "iss", "aud": "issuer", "exp": 3600, "iat": -3, "by": key, "kid": kid, "alg": "ES256", "edit": "none"}, time.Now())
			form := url.Values{"grant_type": {"authorization_code"}, "code": {mintCode(w, w.h[router], client)}, "redirect_uri": {assertURI},
				"client_assertion_type": {oidc.ClientAssertionTypeJWTAssertion}, "client_assertion": {good}}
			r := postForm(w.h[router], "/oauth/token", form)
			var body struct {
				AccessToken string `json:"access_token"`
			}
			json.Unmarshal([]byte(r.Body), &body)
			if body.AccessToken == "" {
				w.setup = append(w.setup, "no access token for the introspection probe of client "+client+": "+r.Body)
			}
			w.at[router+client] = body.AccessToken
		}
	}
	assertWorlds[delegation] = w
	return w
}

func buildAssertion(a M, now time.Time) string {
	return buildAssertionFor(a, now, opdrv.Issuer, "https://x.example.test")
}

// buildAssertionFor: issuer = what the abstract audience "issuer" stands for, x = the other audience
func buildAssertionFor(a M, now time.Time, issuer, x string) string {
	other := func(c string) string {
		if c == "A" {
			return "B"
		}
		return "A"
	}
	claims := M{"jti": "assertion-1"}
	iss := ""
	switch S(a, "iss") {
	case "A", "B":
		iss = S(a, "iss")
	case "unknown":
		iss = "nobody-registered"
	}
	if iss != "" {
		claims["iss"] = iss
	}
	if S(a, "sub") == "iss" {
		if iss != "" {
			claims["sub"] = iss
		}
	} else {
		claims["sub"] = other(S(a, "iss"))
	}
	switch S(a, "aud") {
	case "issuer":
		claims["aud"] = []string{issuer}
	case "issuer+x":
		claims["aud"] = []string{x, issuer}
	case "x":
		claims["aud"] = []string{x}
	case "issuerSlash":
		claims["aud"] = []string{issuer + "/"}
	}
	if e := I(a, "exp"); e != absent {
		claims["exp"] = now.Unix() + int64(e)
	}
	if e := I(a, "iat"); e != absent {
		claims["iat"] = now.Unix() + int64(e)
	}
	payload, _ := json.Marshal(claims)
	alg, by := S(a, "alg"), S(a, "by")
	hdr := M{"alg": alg, "typ": "JWT"}
	if k := S(a, "kid"); k != "none" {
		hdr["kid"] = k
	}
	header, _ := json.Marshal(hdr)
	h64, p64 := b64.EncodeToString(header), b64.EncodeToString(payload)
	input := []byte(h64 + "." + p64)
	var sig []byte
	switch {
	case alg == "none":
		sig = []byte{}
	case typeOfAlg(alg) == assertionKeys[by].typ:
		sig = rawSign(alg, aKey(by), input)
	default:
		sig = randBytes(64)
	}
	if S(a, "edit") == "otherclaims" {
		forged := M{}
		for k, v := range claims {
			forged[k] = v
		}
		forged["jti"] = "forged"
		if iss == "A" || iss == "B" {
			forged["iss"], forged["sub"] = iss, iss
		}
		fp, _ := json.Marshal(forged)
		p64 = b64.EncodeToString(fp)
	}
	return h64 + "." + p64 + "." + b64.EncodeToString(sig)
}

func AssertionCase(c *Case) M {
	a, cfg := Sub(c.C, "a"), Sub(c.C, "cfg")
	deleg := S(cfg, "subject") == "delegation"
	w := assertWorldFor(deleg)
	now := time.Now()
	assertion := buildAssertion(a, now)
	o := M{}
	rej := func(detail string) M { return M{"v": "reject", "identity": "none", "detail": detail} }
	priorAssertion := ""
	if S(c.C, "prior") == "otherClient" {
		// a fitting assertion of the client the observed assertion does NOT name as issuer, accepted immediately before
		other := M{"iss": "B", "sub": "iss", "aud": "issuer", "exp": 3600, "iat": -3, "by": "b1", "kid": "kb1", "alg": "ES256", "edit": "none"}
		if S(a, "iss") == "B" {
			other = M{"iss": "A", "sub": "iss", "aud": "issuer", "exp": 3600, "iat": -3, "by": "a2", "kid": "ka2", "alg": "ES256", "edit": "none"}
		}
		priorAssertion = buildAssertion(other, now)
	}
	// ---- direct: op.VerifyJWTAssertion with the case's configuration
	{
		var opts []op.JWTProfileVerifierOption
		if deleg {
			opts = append(opts, op.SubjectCheck(func(*oidc.JWTTokenRequest) error { return nil }))
		}
		v := op.NewJWTProfileVerifier(w.store, opdrv.Issuer, time.Duration(I(cfg, "maxAge"))*time.Second, time.Duration(I(cfg, "offset"))*time.Second, opts...)
		var req *oidc.JWTTokenRequest
		var err error
		if priorAssertion != "" {
			CatchPanic(func() { op.VerifyJWTAssertion(context.Background(), priorAssertion, v) })
		}
		if p := CatchPanic(func() { req, err = op.VerifyJWTAssertion(context.Background(), assertion, v) }); p != "" {
			o["verify"] = M{"v": "panic", "identity": "none", "detail": p}
		} else if err != nil {
			o["verify"] = rej(err.Error())
		} else {
			o["verify"] = M{"v": "accept", "identity": identityName(req.Issuer)}
		}
	}
	probe := S(a, "iss")
	if S(c.C, "probe") == "sub" && S(a, "sub") == "other" {
		if probe == "A" {
			probe = "B"
		} else {
			probe = "A"
		}
	}
	if probe != "A" && probe != "B" {
		probe = "A"
	}
	for _, router := range []string{"P", "L"} {
		h := w.h[router]
		// ---- grant_type=jwt-bearer
		if priorAssertion != "" {
			postForm(h, "/oauth/token", url.Values{"grant_type": {string(oidc.GrantTypeBearer)}, "assertion": {priorAssertion}, "scope": {"openid"}})
		}
		form := url.Values{"grant_type": {string(oidc.GrantTypeBearer)}, "assertion": {assertion}, "scope": {"openid"}}
		r := postForm(h, "/oauth/token", form)
		o["bearer"+router] = tokenOutcome(w, r)
		// ---- identity probe: code of the probe client redeemed with the assertion as client authentication
		code := mintCode(w, h, probe)
		form = url.Values{"grant_type": {"authorization_code"}, "code": {code}, "redirect_uri": {assertURI},
			"client_assertion_type": {oidc.ClientAssertionTypeJWTAssertion}, "client_assertion": {assertion}}
		r = postForm(h, "/oauth/token", form)
		o["code"+router] = tokenOutcome(w, r)
		// ---- identity probe: introspection of a token of the probe client, the request names the probe client next to the assertion
		form = url.Values{"token": {w.at[router+probe]}, "client_id": {probe},
			"client_assertion_type": {oidc.ClientAssertionTypeJWTAssertion}, "client_assertion": {assertion}}
		r = postForm(h, "/oauth/introspect", form)
		o["intro"+router] = introOutcome(r, probe)
		// ---- grant_type=jwt-bearer at tenant B of an issuer-from-host provider: "issuer" = tenant B, the other audience = tenant 1
		form = url.Values{"grant_type": {string(oidc.GrantTypeBearer)}, "assertion": {buildAssertionFor(a, now, opdrv.TenantB, opdrv.Issuer)}, "scope": {"openid"}}
		req := httptest.NewRequest(http.MethodPost, opdrv.TenantB+"/oauth/token", strings.NewReader(form.Encode()))
		req.Header.Set("Content-Type", "application/x-www-form-urlencoded")
		o["tenant"+router] = tokenOutcome(w, opdrv.Serve(w.dyn[router], req))
	}
	if len(w.setup) > 0 {
		o["setup"] = w.setup
	}
	return o
}

// introOutcome: accept = the token is reported active (only a caller in the token's audience is told so).
func introOutcome(r *opdrv.RawResponse, probe string) M {
	if r.Panic != "" {
		return M{"v": "panic", "identity": "none", "detail": r.Panic}
	}
	var body struct {
		Active bool   `json:"active"`
		Sub    string `json:"sub"`
	}
	json.Unmarshal([]byte(r.Body), &body)
	if r.Status != 200 || !body.Active {
		return M{"v": "reject", "identity": "none", "detail": strconv.Itoa(r.Status)}
	}
	return M{"v": "accept", "identity": probe}
}

func identityName(id string) string {
	switch id {
	case "A", "B":
		return id
	case "":
		return "none"
	}
	return "unknown"
}

func postForm(h http.Handler, path string, form url.Values) *opdrv.RawResponse {
	req := httptest.NewRequest(http.MethodPost, opdrv.Issuer+path, strings.NewReader(form.Encode()))
	req.Header.Set("Content-Type", "application/x-www-form-urlencoded")
	return opdrv.Serve(h, req)
}

// tokenOutcome: accept = a token response; identity = the client the store recorded for the issued access token.
func tokenOutcome(w *assertWorld, r *opdrv.RawResponse) M {
	if r.Panic != "" {
		return M{"v": "panic", "identity": "none", "detail": r.Panic}
	}
	var body struct {
		AccessToken string `json:"access_token"`
		Error       string `json:"error"`
	}
	json.Unmarshal([]byte(r.Body), &body)
	if r.Status != 200 || body.AccessToken == "" {
		return M{"v": "reject", "identity": "none", "detail": body.Error}
	}
	id := "unknown"
	if plain, err := opDecrypt(body.AccessToken); err == nil {
		tid := strings.SplitN(plain, ":", 2)[0]
		w.store.Lock()
		if t, ok := w.store.Tokens[tid]; ok {
			id = identityName(t.Client)
		}
		w.store.Unlock()
	}
	return M{"v": "accept", "identity": id}
}

func opDecrypt(tok string) (string, error) {
	return op.NewAESCrypto(opdrv.CryptoKey).Decrypt(tok)
}

var errNoCode = errors.New("no code")

// mintCode runs authorize + login + callback for client and returns the authorization code.
func mintCode(w *assertWorld, h http.Handler, client string) string {
	q := url.Values{"client_id": {client}, "redirect_uri": {assertURI}, "response_type": {"code"}, "scope": {"openid"}, "state": {"s"}}
	r := opdrv.Serve(h, httptest.NewRequest(http.MethodGet, opdrv.Issuer+"/authorize?"+q.Encode(), nil))
	id := strings.TrimPrefix(r.Location, "/login?authRequestID=")
	if r.Status != http.StatusFound || id == r.Location {
		panic("harness: authorize failed: " + r.Body)
	}
	if !w.store.Login(id, "u1") {
		panic("harness: login failed")
	}
	r = opdrv.Serve(h, httptest.NewRequest(http.MethodGet, opdrv.Issuer+"/authorize/callback?id="+url.QueryEscape(id), nil))
	u, err := url.Parse(r.Location)
	if err != nil || u.Query().Get("code") == "" {
		panic("harness: callback failed: " + r.Location + r.Body)
	}
	return u.Query().Get("code")
}

// ---- C14: spec/RequestObject.tla

var (
	roMu     sync.Mutex
	roWorlds = map[bool]*assertWorld{}
)

func roWorldFor(flag bool) *assertWorld {
	roMu.Lock()
	defer roMu.Unlock()
	if w, ok := roWorlds[flag]; ok {
		return w
	}
	base := assertWorldFor(false)
	w := &assertWorld{store: base.store, h: map[string]http.Handler{}}
	for _, router := range []string{"P", "L"} {
		cfg := opdrv.DefaultCfg(router)
		cfg.ReqObj = flag
		h, _, err := opdrv.BuildProvider(base.store, cfg)
		if err != nil {
			panic(err)
		}
		w.h[router] = h
	}
	roWorlds[flag] = w
	return w
}

func RequestObjectCase(c *Case) M {
	o := c.C
	w := roWorldFor(B(o, "flag"))
	claims := M{"state": "obj-state", "nonce": "obj-nonce", "scope": "openid email"}
	switch S(o, "opkce") {
	case "s256":
		claims["code_challenge"], claims["code_challenge_method"] = "obj-challenge-0123456789abcdefghijklmnopqrstuvwxyz0123", "S256"
	case "plain":
		claims["code_challenge"], claims["code_challenge_method"] = "obj-challenge-0123456789abcdefghijklmnopqrstuvwxyz0123", "plain"
	}
	switch S(o, "iss") {
	case "A", "B":
		claims["iss"] = S(o, "iss")
	}
	switch S(o, "cid") {
	case "A", "B":
		claims["client_id"] = S(o, "cid")
	}
	switch S(o, "aud") {
	case "issuer":
		claims["aud"] = []string{opdrv.Issuer}
	case "issuer+x":
		claims["aud"] = []string{"https://x.example.test", opdrv.Issuer}
	case "x":
		claims["aud"] = []string{"https://x.example.test"}
	}
	if rt := S(o, "rtype"); rt != "absent" {
		claims["response_type"] = rt
	}
	switch S(o, "ruri") {
	case "registered":
		claims["redirect_uri"] = assertURI2
	case "unregistered":
		claims["redirect_uri"] = "https://attacker.example.test/cb"
	}
	payload, _ := json.Marshal(claims)
	alg, by := S(o, "alg"), S(o, "by")
	hdr := M{"alg": alg, "typ": "JWT"}
	if k := S(o, "kid"); k != "none" {
		hdr["kid"] = k
	}
	header, _ := json.Marshal(hdr)
	h64, p64 := b64.EncodeToString(header), b64.EncodeToString(payload)
	input := []byte(h64 + "." + p64)
	var sig []byte
	switch {
	case alg == "none":
		sig = []byte{}
	case typeOfAlg(alg) == assertionKeys[by].typ:
		sig = rawSign(alg, aKey(by), input)
	default:
		sig = randBytes(64)
	}
	if S(o, "edit") == "otherclaims" {
		forged := M{}
		for k, v := range claims {
			forged[k] = v
		}
		forged["state"] = "forged-state"
		fp, _ := json.Marshal(forged)
		p64 = b64.EncodeToString(fp)
	}
	object := h64 + "." + p64 + "." + b64.EncodeToString(sig)
	out := M{}
	for _, router := range []string{"P", "L"} {
		queryURI := assertURI
		if S(o, "quri") == "unregistered" {
			queryURI = "https://attacker.example.test/cb-from-query"
		}
		q := url.Values{"client_id": {"A"}, "redirect_uri": {queryURI}, "response_type": {"code"}, "scope": {"openid profile"},
			"state": {"q-state"}, "nonce": {"q-nonce"}, "request": {object}}
		if S(o, "qpkce") == "s256" {
			q.Set("code_challenge", "query-challenge-0123456789abcdefghijklmnopqrstuvwxyz012")
			q.Set("code_challenge_method", "S256")
		}
		r := opdrv.Serve(w.h[router], httptest.NewRequest(http.MethodGet, opdrv.Issuer+"/authorize?"+q.Encode(), nil))
		res := M{"class": "refused", "src": "none", "uri": "none", "errTarget": "none", "pkce": "none", "status": r.Status}
		switch {
		case r.Panic != "":
			res["class"], res["detail"] = "panic", r.Panic
		case r.Status >= 300 && r.Status < 400 && !strings.HasPrefix(r.Location, "/login?authRequestID="):
			// the request is refused with a redirect: where to?
			base, _, _ := strings.Cut(strings.SplitN(r.Location, "#", 2)[0], "?")
			if base == assertURI || base == assertURI2 {
				res["errTarget"] = "registered"
			} else {
				res["errTarget"], res["location"] = "unregistered", r.Location
			}
		case r.Status == http.StatusFound && strings.HasPrefix(r.Location, "/login?authRequestID="):
			id := strings.TrimPrefix(r.Location, "/login?authRequestID=")
			res["class"] = "login"
			w.store.Lock()
			if ar, ok := w.store.Requests[id]; ok {
				switch ar.URI {
				case assertURI:
					res["uri"] = "query"
				case assertURI2:
					res["uri"] = "objRegistered"
				case "https://attacker.example.test/cb-from-query":
					res["uri"] = "queryUnregistered"
				default:
					res["uri"] = "objUnregistered"
				}
				n := 0
				src := func(v, q, ob string) {
					if v == ob || (ob == "forged-state" && v == "forged-state") {
						n += 10
					} else if v == q {
						n++
					} else {
						n += 100
					}
				}
				src(ar.State, "q-state", "obj-state")
				if ar.State == "forged-state" {
					n += 1000
				}
				src(ar.Nonce, "q-nonce", "obj-nonce")
				src(strings.Join(ar.Scopes, " "), "openid profile", "openid email")
				// the stored PKCE pair: the query's, the object's, none - or "other" (a challenge of one source with the method of the other ...)
				if ar.Challenge != nil {
					objMethod := oidc.CodeChallengeMethodS256
					if S(o, "opkce") == "plain" {
						objMethod = oidc.CodeChallengeMethodPlain
					}
					switch {
					case ar.Challenge.Challenge == "query-challenge-0123456789abcdefghijklmnopqrstuvwxyz012" && ar.Challenge.Method == oidc.CodeChallengeMethodS256 && S(o, "qpkce") == "s256":
						res["pkce"] = "query"
					case ar.Challenge.Challenge == "obj-challenge-0123456789abcdefghijklmnopqrstuvwxyz0123" && ar.Challenge.Method == objMethod && S(o, "opkce") != "absent":
						res["pkce"] = "obj"
					default:
						res["pkce"] = "other:" + ar.Challenge.Challenge[:3] + "/" + string(ar.Challenge.Method)
					}
				}
				switch {
				case n == 3:
					res["src"] = "query"
				case n == 30:
					res["src"] = "obj"
				default:
					res["src"] = "mixed"
				}
			}
			w.store.Unlock()
		}
		out[router] = res
	}
	return out
}
