package tbldrv

import (
	"bytes"
	"context"
	"encoding/base64"
	"encoding/json"
	"io"
	"net"
	"net/http"
	"net/http/httptest"
	"net/url"
	"os"
	"strings"
	"sync"
	"time"

	jose "github.com/go-jose/go-jose/v4"
	"golang.org/x/oauth2"

	"verif/harness/modelstore"
	"verif/harness/opdrv"

	"github.com/zitadel/oidc/v3/pkg/client"
	"github.com/zitadel/oidc/v3/pkg/client/rp"
	"github.com/zitadel/oidc/v3/pkg/client/rs"
	"github.com/zitadel/oidc/v3/pkg/client/tokenexchange"
	"github.com/zitadel/oidc/v3/pkg/oidc"
	"github.com/zitadel/oidc/v3/pkg/op"
)

// ---- C09: spec/Handler.tla

var epPath = map[string]string{"authorize": "/authorize", "callback": "/authorize/callback", "token": "/oauth/token", "introspect": "/oauth/introspect",
	"userinfo": "/userinfo", "revoke": "/revoke", "end_session": "/end_session", "keys": "/keys", "discovery": "/.well-known/openid-configuration",
	"device_authorization": "/device_authorization", "healthz": "/healthz", "ready": "/ready", "unknown": "/no/such/endpoint"}

var grantURN = map[string]string{"authorization_code": "authorization_code", "refresh_token": "refresh_token", "client_credentials": "client_credentials",
	"jwt-bearer": "urn:ietf:params:oauth:grant-type:jwt-bearer", "token-exchange": "urn:ietf:params:oauth:grant-type:token-exchange",
	"device_code": "urn:ietf:params:oauth:grant-type:device_code", "unknown": "urn:example:no-such-grant"}

func seg(v string) string { return base64.RawURLEncoding.EncodeToString([]byte(v)) }

// unsignedJWT is a three-segment token with header {"alg":"ES256"} and the given payload bytes.
func unsignedJWT(payload string) string {
	return seg(`{"alg":"ES256","typ":"JWT"}`) + "." + seg(payload) + "." + seg("signature")
}

var bearerOf = map[string]string{
	"bearerEmpty": "Bearer ", "bearerNoSpace": "Bearer", "bearer1seg": "Bearer abc", "bearer2seg": "Bearer abc.def",
	"bearerNullPayload": "Bearer " + unsignedJWT("null"), "bearerArrayPayload": "Bearer " + unsignedJWT("[1,2]"),
	"bearerNumberPayload": "Bearer " + unsignedJWT("5"), "bearerStringPayload": "Bearer " + unsignedJWT(`"x"`),
	"bearerTruncJSON": "Bearer " + unsignedJWT(`{"iss":"x"`), "bearerBadUTF8": "Bearer " + unsignedJWT("{\"iss\":\"\xff\xfe\"}"),
	"bearer4seg": "Bearer a.b.c.d", "bearerBadB64": "Bearer e30.@@@.x", "bearerAudNonString": "Bearer " + unsignedJWT(`{"iss":"https://op.example.test","aud":["a",1]}`),
	"bearerHugeExp": "Bearer " + unsignedJWT(`{"iss":"https://op.example.test","exp":1e30,"aud":{"x":1}}`),
}

type trackingWriter struct {
	*httptest.ResponseRecorder
	writes  int
	callsAt int
	store   *modelstore.Store
	started bool
}

func (t *trackingWriter) mark() {
	if !t.started {
		t.started = true
		t.callsAt = t.store.CallCount()
	}
}
func (t *trackingWriter) WriteHeader(code int) {
	t.mark()
	t.writes++
	t.ResponseRecorder.WriteHeader(code)
}
func (t *trackingWriter) Write(b []byte) (int, error) {
	t.mark()
	return t.ResponseRecorder.Write(b)
}

var (
	handlerWorldOnce sync.Once
	handlerWorld     *opdrv.WorldJSON
	HandlerWorldPath = "world.json"
)

func httpCase(c M) M {
	handlerWorldOnce.Do(func() {
		w, err := opdrv.LoadWorld(HandlerWorldPath)
		if err != nil {
			panic(err)
		}
		handlerWorld = w
	})
	cfg := opdrv.DefaultCfg(S(c, "router"))
	if S(c, "flags") == "minimal" {
		cfg.Post, cfg.PKJWT, cfg.Refresh, cfg.ReqObj, cfg.S256, cfg.CC, cfg.TE, cfg.Dev = false, false, false, false, false, false, false, false
	}
	d := opdrv.NewDriver(handlerWorld, cfg)
	ep, method, mal, grant := S(c, "ep"), S(c, "method"), S(c, "mal"), S(c, "grant")
	form := url.Values{"client_id": {"cw"}, "redirect_uri": {opdrv.ConcreteURI["ucw"]}, "response_type": {"code"}, "scope": {"openid"}, "state": {"s"},
		"id": {"req-unknown"}, "code": {"some-code"}, "refresh_token": {"some-rt"}, "token": {"some-token"}, "device_code": {"some-dc"}}
	if g, ok := grantURN[grant]; ok {
		form.Set("grant_type", g)
	}
	hdr := http.Header{}
	hdr.Set("Authorization", "Basic "+base64.StdEncoding.EncodeToString([]byte("cw:"+opdrv.Secret("cw"))))
	rawBody, rawQuery, ctype := "", "", "application/x-www-form-urlencoded"
	b64std := func(s string) string { return base64.StdEncoding.EncodeToString([]byte(s)) }
	switch mal {
	case "badPercentBody":
		rawBody = "client_id=%zz&scope=%&grant_type=" + url.QueryEscape(form.Get("grant_type"))
	case "badPercentQuery":
		rawQuery = "client_id=%zz&state=%"
	case "semicolonQuery":
		rawQuery = "client_id=cw;redirect_uri=x;scope=openid"
	case "dupParams":
		for k, v := range form {
			form[k] = append(v, v[0]+"-2")
		}
	case "oversizedParam":
		form.Set("state", strings.Repeat("a", 1<<20))
	case "wrongContentType":
		ctype = "text/plain"
	case "emptyBody":
		form = url.Values{}
	case "jsonBody":
		rawBody, ctype = `{"grant_type":"authorization_code","code":"x"}`, "application/json"
	case "basicBadBase64":
		hdr.Set("Authorization", "Basic !!!not-base64!!!")
	case "basicBadEscapeUser":
		hdr.Set("Authorization", "Basic "+b64std("%zz:secret"))
	case "basicBadEscapePass":
		hdr.Set("Authorization", "Basic "+b64std("cw:%zz"))
	case "basicNoColon":
		hdr.Set("Authorization", "Basic "+b64std("nocolon"))
	case "basicEmpty":
		hdr.Set("Authorization", "Basic ")
	case "basicUnknownClient":
		hdr.Set("Authorization", "Basic "+b64std("nobody:secret"))
	case "assertionGarbage":
		hdr.Del("Authorization")
		form.Set("client_assertion_type", oidc.ClientAssertionTypeJWTAssertion)
		form.Set("client_assertion", "garbage")
		form.Set("assertion", "garbage")
	case "assertionNullPayload":
		hdr.Del("Authorization")
		form.Set("client_assertion_type", oidc.ClientAssertionTypeJWTAssertion)
		form.Set("client_assertion", unsignedJWT("null"))
		form.Set("assertion", unsignedJWT("null"))
	case "hintNullPayload":
		form.Set("id_token_hint", unsignedJWT("null"))
	case "hintGarbage":
		form.Set("id_token_hint", "a.b")
	case "requestObjectNullPayload":
		form.Set("request", unsignedJWT("null"))
	case "requestObjectGarbage":
		form.Set("request", "%%%")
	case "subjectTokenGarbage":
		form.Set("subject_token", "garbage")
		form.Set("subject_token_type", "urn:ietf:params:oauth:token-type:access_token")
	case "subjectTokenNullPayload":
		form.Set("subject_token", unsignedJWT("null"))
		form.Set("subject_token_type", "urn:ietf:params:oauth:token-type:id_token")
	case "actorTokenNullPayload":
		form.Set("subject_token", unsignedJWT(`{"sub":"x"}`))
		form.Set("subject_token_type", "urn:ietf:params:oauth:token-type:jwt")
		form.Set("actor_token", unsignedJWT("null"))
		form.Set("actor_token_type", "urn:ietf:params:oauth:token-type:access_token")
	case "codeGarbage":
		form.Set("code", "\x00\x01garbage")
	case "deviceCodeGarbage":
		form.Set("device_code", strings.Repeat("z", 5000))
	case "tokenGarbage":
		form.Set("token", unsignedJWT("null"))
	case "idUnknown":
		form.Set("id", "")
	case "nulByte":
		form.Set("state", "a\x00b")
		form.Set("scope", "openid\x00")
	case "nonUTF8Param":
		rawQuery = "client_id=%ff%fe&state=%c0%af"
	default:
		if b, ok := bearerOf[mal]; ok {
			hdr.Set("Authorization", b)
		}
	}
	target := opdrv.Issuer + epPath[ep]
	var req *http.Request
	if method == "GET" || method == "HEAD" {
		q := form.Encode()
		if rawQuery != "" {
			q = rawQuery
		}
		req = httptest.NewRequest(method, target+"?"+q, nil)
	} else {
		body := form.Encode()
		if rawBody != "" {
			body = rawBody
		}
		u := target
		if rawQuery != "" {
			u += "?" + rawQuery
		}
		req = httptest.NewRequest(method, u, strings.NewReader(body))
		req.Header.Set("Content-Type", ctype)
	}
	for k, v := range hdr {
		req.Header[k] = v
	}
	d.Store.ResetJournal()
	w := &trackingWriter{ResponseRecorder: httptest.NewRecorder(), store: d.Store}
	p := CatchPanic(func() { d.H.ServeHTTP(w, req) })
	o := M{"class": "response", "status": w.Code, "writes": w.writes, "after": 0}
	if p != "" {
		o["class"], o["detail"] = "panic", p
		return o
	}
	if !w.started {
		o["class"] = "silent"
	} else if n := d.Store.CallCount() - w.callsAt; n > 0 {
		o["after"] = n
	}
	return o
}

// ---- verifiers

var verifyPayloads = map[string]string{
	"null": "null", "array": "[1,2]", "number": "5", "string": `"x"`, "true": "true", "truncJSON": `{"iss":"x"`, "badUTF8": "{\"iss\":\"\xff\xfe\"}", "emptyObject": "{}",
	"audNonString": `{"iss":"I","sub":"s","aud":["a",1]}`, "audNumber": `{"iss":"I","sub":"s","aud":5}`, "expString": `{"iss":"I","sub":"s","aud":"cid","exp":"soon"}`,
	"expHuge": `{"iss":"I","sub":"s","aud":"cid","exp":1e30,"iat":-1e30}`, "expObject": `{"iss":"I","sub":"s","aud":"cid","exp":{}}`,
	"amrNumber": `{"iss":"I","sub":"s","aud":"cid","amr":5}`, "localeNumber": `{"iss":"I","sub":"s","aud":"cid","locale":5}`,
	"emailVerifiedObject": `{"iss":"I","sub":"s","aud":"cid","email_verified":{}}`, "scopeArray": `{"iss":"I","sub":"s","aud":"cid","scope":["a"]}`,
	"issNumber": `{"iss":5,"sub":"s","aud":"cid"}`,
}

type anyKeyStorage struct {
	op.Storage
	key *jose.JSONWebKey
}

func (s anyKeyStorage) GetKeyByIDAndClientID(context.Context, string, string) (*jose.JSONWebKey, error) {
	return s.key, nil
}

// hdrMismatch: header algorithm, algorithm family of the key the set holds
var hdrMismatch = map[string][2]string{"esAlgRsaKey": {"ES256", "RS256"}, "esAlgOkpKey": {"ES256", "EdDSA"}, "rsAlgEcKey": {"RS256", "ES256"}, "psAlgEcKey": {"PS256", "ES256"},
	"edAlgRsaKey": {"EdDSA", "RS256"}, "edAlgEcKey": {"EdDSA", "ES256"}, "es384AlgRsaKey": {"ES384", "RS256"}}

func verifyCase(c M) M {
	fn, pl, segs := S(c, "fn"), S(c, "payload"), S(c, "segs")
	key := modelstore.GenKey("c09-trusted", jose.ES256)
	now := time.Now().Unix()
	payload := verifyPayloads[pl]
	if pl == "nestedActor50" {
		payload = `{"iss":"I","sub":"s","aud":"cid","act":` + strings.Repeat(`{"sub":"a","act":`, 50) + `{"sub":"z"}` + strings.Repeat("}", 50) + "}"
	}
	payload = strings.ReplaceAll(payload, `"iss":"I"`, `"iss":"`+sigIssuer+`"`)
	if pl == "valid" {
		iss, sub, aud := sigIssuer, "s", `["cid"]`
		if fn == "op.VerifyJWTAssertion" || fn == "op.ParseRequestObject" {
			iss, sub, aud = "cid", "cid", `["`+sigIssuer+`"]`
		}
		b, _ := json.Marshal(M{"iss": iss, "sub": sub, "exp": now + 3600, "iat": now - 5, "client_id": "cid", "jti": "j"})
		payload = strings.TrimSuffix(string(b), "}") + `,"aud":` + aud + "}"
	}
	h64 := seg(`{"alg":"ES256","kid":"c09-trusted","typ":"JWT"}`)
	p64 := seg(payload)
	sig := b64.EncodeToString(rawSign("ES256", key, []byte(h64+"."+p64)))
	// hdr: the header names an algorithm of another key family than the key the set holds
	hdr := S(c, "hdr")
	var rpKeys oidc.KeySet = staticKeys{key.Pub}
	var rpOpts = []rp.VerifierOption{rp.WithNonce(nil)}
	if m, ok := hdrMismatch[hdr]; ok {
		key = modelstore.GenKey("c09-trusted-"+m[1], jose.SignatureAlgorithm(m[1]))
		h64 = seg(`{"alg":"` + m[0] + `","kid":"c09-trusted","typ":"JWT"}`)
		sig = b64.EncodeToString(randBytes(64))
		jb, _ := json.Marshal(jose.JSONWebKeySet{Keys: []jose.JSONWebKey{{Key: key.Pub, KeyID: "c09-trusted", Use: "sig"}}})
		rpKeys = rp.NewRemoteKeySet(&http.Client{Transport: jwksTransport{jb}}, sigIssuer+"/keys")
		rpOpts = append(rpOpts, rp.WithSupportedSigningAlgorithms("RS256", "PS256", "ES256", "ES384", "EdDSA"))
	}
	token := h64 + "." + p64 + "." + sig
	switch segs {
	case "0":
		token = ""
	case "1":
		token = h64
	case "2":
		token = h64 + "." + p64
	case "4":
		token += "." + sig
	case "badB64":
		token = h64 + ".@@@@." + sig
	case "emptyPayload":
		token = h64 + ".." + sig
	}
	o := M{"class": "error", "status": 0, "writes": 0, "after": 0}
	ctx := context.Background()
	var err error
	p := CatchPanic(func() {
		switch fn {
		case "rp.VerifyIDToken":
			_, err = rp.VerifyIDToken[*oidc.IDTokenClaims](ctx, token, rp.NewIDTokenVerifier(sigIssuer, "cid", rpKeys, rpOpts...))
		case "rp.VerifyTokens":
			_, err = rp.VerifyTokens[*oidc.IDTokenClaims](ctx, "access-token", token, rp.NewIDTokenVerifier(sigIssuer, "cid", rpKeys, rpOpts...))
		case "op.VerifyAccessToken":
			ks := &op.OpenIDKeySet{Storage: keysOnlyStorage{keys: []op.Key{opKey{id: "c09-trusted", use: "sig", key: key.Pub}}}}
			_, err = op.VerifyAccessToken[*oidc.AccessTokenClaims](ctx, token, op.NewAccessTokenVerifier(sigIssuer, ks,
				op.WithSupportedAccessTokenSigningAlgorithms("RS256", "PS256", "ES256", "ES384", "EdDSA")))
		case "op.VerifyIDTokenHint":
			ks := &op.OpenIDKeySet{Storage: keysOnlyStorage{keys: []op.Key{opKey{id: "c09-trusted", use: "sig", key: key.Pub}}}}
			_, err = op.VerifyIDTokenHint[*oidc.IDTokenClaims](ctx, token, op.NewIDTokenHintVerifier(sigIssuer, ks,
				op.WithSupportedIDTokenHintSigningAlgorithms("RS256", "PS256", "ES256", "ES384", "EdDSA")))
		case "op.VerifyJWTAssertion":
			st := anyKeyStorage{key: &jose.JSONWebKey{Key: key.Pub, KeyID: "c09-trusted"}}
			_, err = op.VerifyJWTAssertion(ctx, token, op.NewJWTProfileVerifier(st, sigIssuer, time.Hour, time.Second))
		case "op.ParseRequestObject":
			st := anyKeyStorage{key: &jose.JSONWebKey{Key: key.Pub, KeyID: "c09-trusted"}}
			err = op.ParseRequestObject(ctx, &oidc.AuthRequest{RequestParam: token, ClientID: "cid", ResponseType: oidc.ResponseTypeCode}, st, sigIssuer)
		case "oidc.ParseToken":
			var claims *oidc.IDTokenClaims
			_, err = oidc.ParseToken(token, &claims)
			if err == nil && claims != nil {
				_ = claims.GetIssuer()
			}
		}
	})
	switch {
	case p != "":
		o["class"], o["detail"] = "panic", p
	case err == nil:
		o["class"] = "value"
	default:
		o["err"] = err.Error()
	}
	return o
}

// ---- decoders

var jsonForms = map[string]string{"null": "null", "true": "true", "one": "1", "float": "1.5", "huge": "1e400", "negative": "-1", "string": `"s"`, "emptyArray": "[]",
	"mixedArray": `["a",1,null,{}]`, "object": `{"a":{"b":[1]}}`, "emptyString": `""`}

func decodeTarget(t string) any {
	switch t {
	case "TokenExchangeResponse":
		return &oidc.TokenExchangeResponse{}
	case "AccessTokenResponse":
		return &oidc.AccessTokenResponse{}
	case "DiscoveryConfiguration":
		return &oidc.DiscoveryConfiguration{}
	case "DeviceAuthorizationResponse":
		return &oidc.DeviceAuthorizationResponse{}
	case "RequestObject":
		return &oidc.RequestObject{}
	case "AuthRequest":
		return &oidc.AuthRequest{}
	case "Error":
		return &oidc.Error{}
	}
	return newOf(t)
}

func decodeNoPanicCase(c M) M {
	t, field, form := S(c, "t"), S(c, "field"), S(c, "form")
	val := jsonForms[form]
	if form == "nested50" {
		val = strings.Repeat(`{"act":`, 50) + `{"sub":"z"}` + strings.Repeat("}", 50)
	}
	doc := val
	if field != "*document*" {
		doc = `{"` + field + `":` + val + `}`
	}
	o := M{"class": "error", "status": 0, "writes": 0, "after": 0}
	var err error
	p := CatchPanic(func() {
		x := decodeTarget(t)
		err = json.Unmarshal([]byte(doc), x)
		if err == nil {
			// what was decoded can be encoded again
			_, err2 := json.Marshal(x)
			_ = err2
		}
	})
	switch {
	case p != "":
		o["class"], o["detail"] = "panic", p
	case err == nil:
		o["class"] = "value"
	}
	return o
}

// ---- client helpers against a faulty / hostile provider

const fakeOP = "https://fake-op.example.test"

type hostileTransport struct {
	status int
	body   string
	served *int
}

func (t hostileTransport) RoundTrip(r *http.Request) (*http.Response, error) {
	resp := &http.Response{StatusCode: 200, Header: http.Header{"Content-Type": {"application/json"}}, Request: r}
	if strings.HasSuffix(r.URL.Path, "/.well-known/openid-configuration") && t.served != nil {
		// construction needs a usable discovery document; the case's answer is given to every other request
		d := M{"issuer": fakeOP, "authorization_endpoint": fakeOP + "/authorize", "token_endpoint": fakeOP + "/token", "userinfo_endpoint": fakeOP + "/userinfo",
			"jwks_uri": fakeOP + "/keys", "introspection_endpoint": fakeOP + "/introspect", "end_session_endpoint": fakeOP + "/end_session",
			"revocation_endpoint": fakeOP + "/revoke", "device_authorization_endpoint": fakeOP + "/device"}
		b, _ := json.Marshal(d)
		resp.Body = io.NopCloser(bytes.NewReader(b))
		return resp, nil
	}
	if t.served != nil {
		*t.served++
	}
	if t.body == "*stall*" {
		// the provider accepts the connection and never answers: the request ends with the caller's deadline, or as a network time-out
		select {
		case <-r.Context().Done():
			return nil, r.Context().Err()
		case <-time.After(120 * time.Millisecond):
			return nil, &net.OpError{Op: "read", Net: "tcp", Err: os.ErrDeadlineExceeded}
		}
	}
	resp.StatusCode = t.status
	resp.Body = io.NopCloser(strings.NewReader(t.body))
	if t.status == 302 {
		resp.Header.Set("Location", fakeOP+"/elsewhere")
	}
	return resp, nil
}

func hostileBody(helper, body string) string {
	switch body {
	case "empty":
		return ""
	case "null":
		return "null"
	case "array":
		return "[1,2]"
	case "number":
		return "0"
	case "string":
		return `"x"`
	case "emptyObject":
		return "{}"
	case "truncated":
		return `{"access_token":"a`
	case "wrongTyped":
		return `{"issuer":5,"access_token":{"a":1},"expires_in":"soon","sub":["x"],"active":"yes","keys":"none","device_code":7,"interval":"fast","scope":[1]}`
	case "errorDoc":
		return `{"error":"invalid_request","error_description":"no"}`
	case "html":
		return "<html><body>502 bad gateway</body></html>"
	case "stall":
		return "*stall*"
	}
	if extra, ok := map[string]string{"validPlusIdTokenNumber": `"id_token":12345`, "validPlusIdTokenObject": `"id_token":{"a":"b"}`, "validPlusIdTokenArray": `"id_token":["x"]`,
		"validPlusIdTokenBool": `"id_token":true`, "validPlusRefreshNumber": `"refresh_token":7`, "validPlusExpiresString": `"expires_in":"300"`,
		"validPlusScopeNumber": `"scope":5`}[body]; ok {
		doc := hostileBody(helper, "valid")
		if strings.Contains(doc, strings.SplitN(extra, ":", 2)[0]+":") {
			// the expected document already has the member: replace its value
			var m map[string]json.RawMessage
			if json.Unmarshal([]byte(doc), &m) == nil {
				kv := strings.SplitN(extra, ":", 2)
				m[strings.Trim(kv[0], `"`)] = json.RawMessage(kv[1])
				b, _ := json.Marshal(m)
				return string(b)
			}
		}
		return "{" + extra + "," + doc[1:]
	}
	switch helper {
	case "client.Discover", "rp.NewRelyingPartyOIDC", "rs.NewResourceServer":
		return `{"issuer":"` + fakeOP + `","authorization_endpoint":"` + fakeOP + `/authorize","token_endpoint":"` + fakeOP + `/token","jwks_uri":"` + fakeOP + `/keys","introspection_endpoint":"` + fakeOP + `/introspect"}`
	case "rp.Userinfo":
		return `{"sub":"user-1","email":"a@b.c","email_verified":"true"}`
	case "rs.Introspect":
		return `{"active":true,"sub":"user-1","scope":"a b"}`
	case "rp.remoteKeySet":
		return `{"keys":[]}`
	case "rp.DeviceAuthorization":
		return `{"device_code":"dc","user_code":"uc","verification_uri":"https://x","expires_in":300,"interval":5}`
	case "tokenexchange.ExchangeToken":
		return `{"access_token":"at","issued_token_type":"urn:ietf:params:oauth:token-type:access_token","token_type":"Bearer","expires_in":300}`
	}
	return `{"access_token":"at","token_type":"Bearer","expires_in":300,"refresh_token":"rt"}`
}

type tokenCaller struct {
	endpoint string
	client   *http.Client
}

func (t tokenCaller) TokenEndpoint() string    { return t.endpoint }
func (t tokenCaller) HttpClient() *http.Client { return t.client }

func clientCase(c M) M {
	helper, status, body := S(c, "helper"), I(c, "status"), S(c, "body")
	o := M{"class": "error", "status": 0, "writes": 0, "after": 0}
	ctx, cancel := context.WithTimeout(context.Background(), 3*time.Second)
	defer cancel()
	served := 0
	direct := &http.Client{Transport: hostileTransport{status: status, body: hostileBody(helper, body)}}
	afterDiscovery := &http.Client{Transport: hostileTransport{status: status, body: hostileBody(helper, body), served: &served}}
	var err error
	var val any
	p := CatchPanic(func() {
		switch helper {
		case "client.Discover":
			val, err = client.Discover(ctx, fakeOP, direct)
		case "rp.NewRelyingPartyOIDC":
			val, err = rp.NewRelyingPartyOIDC(ctx, fakeOP, "cid", "secret", "https://rp/cb", []string{"openid"}, rp.WithHTTPClient(direct))
		case "rs.NewResourceServer":
			val, err = rs.NewResourceServerClientCredentials(ctx, fakeOP, "cid", "secret", rs.WithClient(direct))
		case "rp.remoteKeySet":
			ks := rp.NewRemoteKeySet(direct, fakeOP+"/keys")
			jws, _ := jose.ParseSigned(unsignedJWT(`{"sub":"x"}`), []jose.SignatureAlgorithm{jose.ES256})
			_, err = ks.VerifySignature(ctx, jws)
		case "rs.Introspect":
			r, e := rs.NewResourceServerClientCredentials(ctx, fakeOP, "cid", "secret", rs.WithClient(afterDiscovery), rs.WithStaticEndpoints(fakeOP+"/token", fakeOP+"/introspect"))
			if e != nil {
				panic("harness: " + e.Error())
			}
			val, err = rs.Introspect[*oidc.IntrospectionResponse](ctx, r, "some-token")
		case "tokenexchange.ExchangeToken":
			te, e := tokenexchange.NewTokenExchangerClientCredentials(ctx, fakeOP, "cid", "secret", tokenexchange.WithHTTPClient(afterDiscovery), tokenexchange.WithStaticTokenEndpoint(fakeOP, fakeOP+"/token"))
			if e != nil {
				panic("harness: " + e.Error())
			}
			val, err = tokenexchange.ExchangeToken(ctx, te, "subject", oidc.AccessTokenType, "", "", nil, nil, nil, oidc.AccessTokenType)
		default:
			party, e := rp.NewRelyingPartyOIDC(ctx, fakeOP, "cid", "secret", "https://rp/cb", []string{"openid"}, rp.WithHTTPClient(afterDiscovery))
			if e != nil {
				panic("harness: " + e.Error())
			}
			switch helper {
			case "rp.CodeExchange":
				val, err = rp.CodeExchange[*oidc.IDTokenClaims](ctx, "code", party)
			case "rp.RefreshTokens":
				val, err = rp.RefreshTokens[*oidc.IDTokenClaims](ctx, party, "rt", "", "")
			case "rp.ClientCredentials":
				val, err = rp.ClientCredentials(ctx, party, nil)
			case "rp.Userinfo":
				val, err = rp.Userinfo[*oidc.UserInfo](ctx, "at", "Bearer", "user-1", party)
			case "rp.EndSession":
				val, err = rp.EndSession(ctx, party, "idt", "https://rp/bye", "st")
			case "rp.RevokeToken":
				err = rp.RevokeToken(ctx, party, "tok", "access_token")
			case "rp.DeviceAuthorization":
				val, err = rp.DeviceAuthorization(ctx, []string{"openid"}, party, nil)
			case "rp.DeviceAccessToken":
				c2, cancel2 := context.WithTimeout(ctx, 300*time.Millisecond)
				defer cancel2()
				val, err = rp.DeviceAccessToken(c2, "dc", 10*time.Millisecond, party)
			case "client.JWTProfileExchange":
				val, err = client.JWTProfileExchange(ctx, oidc.NewJWTProfileGrantRequest("assertion", "openid"), tokenCaller{fakeOP + "/token", afterDiscovery})
			default:
				panic("harness: unknown helper " + helper)
			}
		}
	})
	_ = oauth2.NoContext
	switch {
	case strings.HasPrefix(p, "harness:"):
		panic(p)
	case p != "":
		o["class"], o["detail"] = "panic", p
	case err == nil:
		o["class"] = "value"
		_ = val
	default:
		o["err"] = err.Error()
	}
	return o
}

func HandlerCase(c *Case) M {
	switch S(c.C, "kind") {
	case "http":
		return httpCase(c.C)
	case "verify":
		return verifyCase(c.C)
	case "decode":
		return decodeNoPanicCase(c.C)
	}
	return clientCase(c.C)
}
