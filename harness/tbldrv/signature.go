package tbldrv

import (
	"bytes"
	"context"
	"crypto"
	"crypto/ecdsa"
	"crypto/ed25519"
	"crypto/hmac"
	"crypto/rand"
	"crypto/rsa"
	"crypto/sha256"
	"crypto/sha512"
	"crypto/x509"
	"encoding/base64"
	"encoding/json"
	"errors"
	"io"
	"net/http"
	"time"

	jose "github.com/go-jose/go-jose/v4"

	"verif/harness/modelstore"

	"github.com/zitadel/oidc/v3/pkg/client/rp"
	"github.com/zitadel/oidc/v3/pkg/oidc"
	"github.com/zitadel/oidc/v3/pkg/op"
)

// ---- C02: spec/Signature.tla

func algOfType(t string) jose.SignatureAlgorithm {
	switch t {
	case "RSA":
		return jose.RS256
	case "EC":
		return jose.ES256
	}
	return jose.EdDSA
}

func typeOfAlg(alg string) string {
	switch alg {
	case "RS256", "PS256", "RS384":
		return "RSA"
	case "ES256":
		return "EC"
	case "EdDSA":
		return "OKP"
	}
	return "none"
}

func posKey(pos int, typ string) *modelstore.SignKey {
	return modelstore.GenKey("c02-pos"+string(rune('0'+pos))+"-"+typ, algOfType(typ))
}

func randBytes(n int) []byte {
	b := make([]byte, n)
	rand.Read(b)
	return b
}

// rawSign makes the JWS signature bytes of `input` under algorithm alg with key k; the key must fit the algorithm.
func rawSign(alg string, k *modelstore.SignKey, input []byte) []byte {
	switch alg {
	case "RS256":
		h := sha256.Sum256(input)
		s, err := rsa.SignPKCS1v15(rand.Reader, k.Priv.(*rsa.PrivateKey), crypto.SHA256, h[:])
		if err != nil {
			panic(err)
		}
		return s
	case "RS384":
		h := sha512.Sum384(input)
		s, err := rsa.SignPKCS1v15(rand.Reader, k.Priv.(*rsa.PrivateKey), crypto.SHA384, h[:])
		if err != nil {
			panic(err)
		}
		return s
	case "PS256":
		h := sha256.Sum256(input)
		s, err := rsa.SignPSS(rand.Reader, k.Priv.(*rsa.PrivateKey), crypto.SHA256, h[:], &rsa.PSSOptions{SaltLength: rsa.PSSSaltLengthEqualsHash})
		if err != nil {
			panic(err)
		}
		return s
	case "ES256":
		h := sha256.Sum256(input)
		r, s, err := ecdsa.Sign(rand.Reader, k.Priv.(*ecdsa.PrivateKey), h[:])
		if err != nil {
			panic(err)
		}
		out := make([]byte, 64)
		r.FillBytes(out[:32])
		s.FillBytes(out[32:])
		return out
	case "EdDSA":
		return ed25519.Sign(k.Priv.(ed25519.PrivateKey), input)
	}
	panic("rawSign: " + alg)
}

var b64 = base64.RawURLEncoding

type jwksTransport struct{ body []byte }

func (t jwksTransport) RoundTrip(r *http.Request) (*http.Response, error) {
	return &http.Response{StatusCode: 200, Header: http.Header{"Content-Type": {"application/json"}}, Body: io.NopCloser(bytes.NewReader(t.body)), Request: r}, nil
}

type opKey struct {
	id, use string
	alg     jose.SignatureAlgorithm
	key     any
}

func (k opKey) ID() string                         { return k.id }
func (k opKey) Algorithm() jose.SignatureAlgorithm { return k.alg }
func (k opKey) Use() string                        { return k.use }
func (k opKey) Key() any                           { return k.key }

type keysOnlyStorage struct {
	op.Storage
	keys []op.Key
}

func (s keysOnlyStorage) KeySet(context.Context) ([]op.Key, error) { return s.keys, nil }

var allowedLists = map[string][]string{"default": nil, "eddsa": {"EdDSA"}, "rs256": {"RS256"}, "es256eddsa": {"ES256", "EdDSA"},
	"all": {"RS256", "PS256", "RS384", "ES256", "EdDSA"}, "hs": {"HS256", "RS256", "ES256"}}

const sigIssuer = "https://issuer.example.test"

func SignatureCase(c *Case) M {
	ksAbs, t := L(c.C, "ks"), Sub(c.C, "tok")
	alg, by := S(t, "alg"), S(t, "by")
	var keys []*modelstore.SignKey
	var jwks jose.JSONWebKeySet
	var opKeys []op.Key
	for i, ka := range ksAbs {
		k := ka.(map[string]any)
		sk := posKey(i+1, S(k, "type"))
		keys = append(keys, sk)
		jwks.Keys = append(jwks.Keys, jose.JSONWebKey{Key: sk.Pub, KeyID: S(k, "kid"), Use: S(k, "use")})
		opKeys = append(opKeys, opKey{id: S(k, "kid"), use: S(k, "use"), alg: "", key: sk.Pub})
	}
	now := time.Now()
	build := func(expOff, iatOff int64) string {
		claims := M{"iss": sigIssuer, "sub": "user-1", "aud": []string{"cid"}, "azp": "cid", "exp": now.Unix() + expOff, "iat": now.Unix() + iatOff,
			"jti": "jti-1", "client_id": "cid", "marker": "signed"}
		payload, _ := json.Marshal(claims)
		header, _ := json.Marshal(M{"alg": alg, "kid": S(t, "kid"), "typ": "JWT"})
		if S(t, "kid") == "" {
			header, _ = json.Marshal(M{"alg": alg, "typ": "JWT"})
		}
		h64, p64 := b64.EncodeToString(header), b64.EncodeToString(payload)
		input := []byte(h64 + "." + p64)
		// who signs
		var sig []byte
		signer := func(k *modelstore.SignKey, typ string) []byte {
			if typeOfAlg(alg) == typ {
				return rawSign(alg, k, input)
			}
			return randBytes(64)
		}
		switch {
		case alg == "none":
			sig = []byte{}
		case by == "key1" && len(keys) >= 1:
			sig = signer(keys[0], S(ksAbs[0].(map[string]any), "type"))
		case by == "key2" && len(keys) >= 2:
			sig = signer(keys[1], S(ksAbs[1].(map[string]any), "type"))
		case by == "foreign" && typeOfAlg(alg) != "none":
			sig = rawSign(alg, modelstore.GenKey("c02-foreign-"+typeOfAlg(alg), algOfType(typeOfAlg(alg))), input)
		case by == "hmacpub":
			der, _ := x509.MarshalPKIXPublicKey(keys[0].Pub)
			m := hmac.New(sha256.New, der)
			m.Write(input)
			sig = m.Sum(nil)
		default:
			sig = randBytes(64)
		}
		s64 := b64.EncodeToString(sig)
		// what happened to the payload segment afterwards
		other := M{}
		for k, v := range claims {
			other[k] = v
		}
		other["sub"], other["marker"] = "attacker", "forged"
		forged, _ := json.Marshal(other)
		shown := p64
		switch S(t, "edit") {
		case "reencoded":
			re, _ := json.MarshalIndent(claims, "", "  ")
			shown = b64.EncodeToString(re)
		case "otherclaims":
			shown = b64.EncodeToString(forged)
		}
		var token string
		switch S(t, "ser") {
		case "compact":
			token = h64 + "." + shown + "." + s64
		case "twoseg":
			token = h64 + "." + shown
		case "emptysig":
			token = h64 + "." + shown + "."
		case "fourseg":
			token = h64 + "." + shown + "." + s64 + "." + s64
		case "flat":
			j, _ := json.Marshal(M{"protected": h64, "payload": shown, "signature": s64})
			token = string(j)
		case "smuggled":
			// JSON serialisation whose unprotected header carries ".<forged payload>." : oidc.ParseToken reads the forged claims
			j, _ := json.Marshal(M{"protected": h64, "payload": shown, "signature": s64, "header": M{"x": "." + b64.EncodeToString(forged) + "."}})
			token = string(j)
		case "smuggled2":
			j, _ := json.Marshal(M{"payload": shown, "signatures": []M{
				{"protected": h64, "signature": s64, "header": M{"x": "." + b64.EncodeToString(forged) + "."}},
				{"protected": h64, "signature": s64}}})
			token = string(j)
		}
		return token
	}
	token := build(3600, -5)
	expiredToken := build(-3600, -7200) // the same token, expired an hour ago: an id_token_hint is still believed - if its signature is
	allowed := allowedLists[S(t, "allowed")]
	o := M{}
	judge := func(name string, f func() (M, error)) {
		var got M
		var err error
		if p := CatchPanic(func() { got, err = f() }); p != "" {
			o[name] = M{"v": "panic", "payloadOK": true, "detail": p}
			return
		}
		if err != nil {
			o[name] = M{"v": "reject", "payloadOK": true, "err": sigErrClass(err)}
			return
		}
		o[name] = M{"v": "accept", "payloadOK": got["marker"] == "signed" && got["sub"] == "user-1"}
	}
	asMap := func(v any) M {
		b, _ := json.Marshal(v)
		var m M
		json.Unmarshal(b, &m)
		return m
	}
	jb, _ := json.Marshal(jwks)
	judge("rp", func() (M, error) {
		ks := rp.NewRemoteKeySet(&http.Client{Transport: jwksTransport{jb}}, sigIssuer+"/keys")
		opts := []rp.VerifierOption{rp.WithNonce(nil)}
		if allowed != nil {
			opts = append(opts, rp.WithSupportedSigningAlgorithms(allowed...))
		}
		cl, err := rp.VerifyIDToken[*oidc.IDTokenClaims](context.Background(), token, rp.NewIDTokenVerifier(sigIssuer, "cid", ks, opts...))
		return asMap(cl), err
	})
	judge("rpDisc", func() (M, error) {
		// the ID-token algorithms the provider advertises = the case's allowed list; every other algorithm list of the document differs from it
		others := []string{"RS256", "PS256", "RS384", "ES256", "EdDSA", "HS256"}
		doc := M{"issuer": sigIssuer, "authorization_endpoint": sigIssuer + "/authorize", "token_endpoint": sigIssuer + "/token", "jwks_uri": sigIssuer + "/keys",
			"token_endpoint_auth_signing_alg_values_supported": others, "request_object_signing_alg_values_supported": others,
			"userinfo_signing_alg_values_supported": others, "introspection_endpoint_auth_signing_alg_values_supported": others,
			"revocation_endpoint_auth_signing_alg_values_supported": others}
		if allowed != nil {
			doc["id_token_signing_alg_values_supported"] = allowed
		}
		disc, _ := json.Marshal(doc)
		hc := &http.Client{Transport: docTransport{"/.well-known/openid-configuration": disc, "/keys": jb}}
		party, err := rp.NewRelyingPartyOIDC(context.Background(), sigIssuer, "cid", "", "https://rp.example.test/cb", []string{"openid"},
			rp.WithHTTPClient(hc), rp.WithVerifierOpts(rp.WithNonce(nil)), rp.WithSigningAlgsFromDiscovery())
		if err != nil {
			panic("harness: " + err.Error())
		}
		cl, err := rp.VerifyIDToken[*oidc.IDTokenClaims](context.Background(), token, party.IDTokenVerifier())
		return asMap(cl), err
	})
	opks := &op.OpenIDKeySet{Storage: keysOnlyStorage{keys: opKeys}}
	judge("at", func() (M, error) {
		var opts []op.AccessTokenVerifierOpt
		if allowed != nil {
			opts = append(opts, op.WithSupportedAccessTokenSigningAlgorithms(allowed...))
		}
		cl, err := op.VerifyAccessToken[*oidc.AccessTokenClaims](context.Background(), token, op.NewAccessTokenVerifier(sigIssuer, opks, opts...))
		return asMap(cl), err
	})
	judge("hint", func() (M, error) {
		var opts []op.IDTokenHintVerifierOpt
		if allowed != nil {
			opts = append(opts, op.WithSupportedIDTokenHintSigningAlgorithms(allowed...))
		}
		cl, err := op.VerifyIDTokenHint[*oidc.IDTokenClaims](context.Background(), token, op.NewIDTokenHintVerifier(sigIssuer, opks, opts...))
		return asMap(cl), err
	})
	judge("hintExpired", func() (M, error) {
		var opts []op.IDTokenHintVerifierOpt
		if allowed != nil {
			opts = append(opts, op.WithSupportedIDTokenHintSigningAlgorithms(allowed...))
		}
		cl, err := op.VerifyIDTokenHint[*oidc.IDTokenClaims](context.Background(), expiredToken, op.NewIDTokenHintVerifier(sigIssuer, opks, opts...))
		var expired op.IDTokenHintExpiredError
		if errors.As(err, &expired) && cl != nil {
			// "expired but otherwise valid": every caller treats this answer as a verified hint
			return asMap(cl), nil
		}
		return asMap(cl), err
	})
	// oidc.FindMatchingKey directly
	var ferr error
	if p := CatchPanic(func() { _, ferr = oidc.FindMatchingKey(S(t, "kid"), oidc.KeyUseSignature, alg, jwks.Keys...) }); p != "" {
		o["find"] = "panic"
	} else if ferr == nil {
		o["find"] = "found"
	} else if errors.Is(ferr, oidc.ErrKeyMultiple) {
		o["find"] = "multiple"
	} else {
		o["find"] = "none"
	}
	_ = token
	return o
}

func sigErrClass(err error) string {
	for name, e := range map[string]error{"payload": oidc.ErrSignatureInvalidPayload, "multiple": oidc.ErrSignatureMultiple, "missing": oidc.ErrSignatureMissing,
		"alg": oidc.ErrSignatureUnsupportedAlg, "signature": oidc.ErrSignatureInvalid, "parse": oidc.ErrParse, "expired": oidc.ErrExpired} {
		if errors.Is(err, e) {
			return name
		}
	}
	s := err.Error()
	if len(s) > 80 {
		s = s[:80]
	}
	return "other:" + s
}
