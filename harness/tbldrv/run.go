// Package tbldrv executes the cases of the decision-table specs (spec/<T>.tla, exported by TLC from <T>Design)
// against the real zitadel/oidc code and records the projected observations for the monitor <T>Trace.
package tbldrv

import (
	"bufio"
	"encoding/json"
	"fmt"
	"os"
	"runtime"
	"runtime/debug"
	"sync"
)

type M = map[string]any

// Case is one line of cases.ndjson.
type Case struct {
	ID     int `json:"id"`
	C      M   `json:"c"`
	Expect any `json:"expect"`
}

// Obs is one line of obs.ndjson.
type Obs struct {
	ID int `json:"id"`
	C  M   `json:"c"`
	O  M   `json:"o"`
}

// Run executes f on every case of `in` with `workers` goroutines (0 = GOMAXPROCS) and writes obs lines to `out`
// in case order. A panic inside f that f did not attribute to the code under test is a harness failure.
func Run(in, out string, workers int, f func(c *Case) M) (n int, err error) {
	fi, err := os.Open(in)
	if err != nil {
		return 0, err
	}
	defer fi.Close()
	var cases []*Case
	sc := bufio.NewScanner(fi)
	sc.Buffer(make([]byte, 1<<20), 1<<26)
	for sc.Scan() {
		if len(sc.Bytes()) == 0 {
			continue
		}
		c := &Case{}
		if err := json.Unmarshal(sc.Bytes(), c); err != nil {
			return 0, fmt.Errorf("bad case line: %v", err)
		}
		cases = append(cases, c)
	}
	if workers <= 0 {
		workers = runtime.GOMAXPROCS(0)
	}
	res := make([]M, len(cases))
	var wg sync.WaitGroup
	var mu sync.Mutex
	var herr error
	ch := make(chan int, 1024)
	for w := 0; w < workers; w++ {
		wg.Add(1)
		go func() {
			defer wg.Done()
			for i := range ch {
				func() {
					defer func() {
						if r := recover(); r != nil {
							mu.Lock()
							if herr == nil {
								herr = fmt.Errorf("harness panic on case %d: %v\n%s", cases[i].ID, r, debug.Stack())
							}
							mu.Unlock()
						}
					}()
					res[i] = f(cases[i])
				}()
			}
		}()
	}
	for i := range cases {
		ch <- i
	}
	close(ch)
	wg.Wait()
	if herr != nil {
		return 0, herr
	}
	fo, err := os.Create(out)
	if err != nil {
		return 0, err
	}
	defer fo.Close()
	bw := bufio.NewWriterSize(fo, 1<<20)
	enc := json.NewEncoder(bw)
	for i, c := range cases {
		if res[i] == nil {
			continue
		}
		if err := enc.Encode(Obs{ID: c.ID, C: c.C, O: res[i]}); err != nil {
			return 0, err
		}
		n++
	}
	return n, bw.Flush()
}

func S(m M, k string) string { s, _ := m[k].(string); return s }
func B(m M, k string) bool   { b, _ := m[k].(bool); return b }
func Sub(m M, k string) M    { v, _ := m[k].(map[string]any); return v }
func I(m M, k string) int {
	switch v := m[k].(type) {
	case float64:
		return int(v)
	case int:
		return v
	}
	return 0
}
func L(m M, k string) []any { v, _ := m[k].([]any); return v }
func SS(m M, k string) []string {
	out := []string{}
	for _, x := range L(m, k) {
		if s, ok := x.(string); ok {
			out = append(out, s)
		}
	}
	return out
}

// CatchPanic runs f and reports a panic of the code under test as a string ("" = none).
func CatchPanic(f func()) (p string) {
	defer func() {
		if r := recover(); r != nil {
			p = fmt.Sprintf("%v\n%s", r, debug.Stack())
		}
	}()
	f()
	return ""
}
