package tbldrv

import (
	"context"
	"crypto/x509"
	"encoding/json"
	"encoding/pem"
	"fmt"
	"io"
	"net/http"
	"net/http/httptest"
	"net/url"
	"os"
	"reflect"
	"sort"
	"strings"
	"sync"
	"sync/atomic"
	"time"

	jose "github.com/go-jose/go-jose/v4"
	"golang.org/x/oauth2"

	"verif/harness/modelstore"
	"verif/harness/opdrv"

	"github.com/zitadel/oidc/v3/pkg/client"
	"github.com/zitadel/oidc/v3/pkg/client/rp"
	"github.com/zitadel/oidc/v3/pkg/client/rs"
	"github.com/zitadel/oidc/v3/pkg/client/tokenexchange"
	httphelper "github.com/zitadel/oidc/v3/pkg/http"
	"github.com/zitadel/oidc/v3/pkg/oidc"
	"github.com/zitadel/oidc/v3/pkg/op"
)

// ---- C20: spec/Isolation.tla

const isoOP = "https://iso-op.example.test"

// isoTransport is the provider the client-side operations talk to.
type isoTransport struct{}

func (isoTransport) RoundTrip(r *http.Request) (*http.Response, error) {
	resp := &http.Response{StatusCode: 200, Header: http.Header{"Content-Type": {"application/json"}}, Request: r}
	body := "{}"
	switch {
	case strings.HasSuffix(r.URL.Path, "/.well-known/openid-configuration"):
		b, _ := json.Marshal(M{"issuer": isoOP, "authorization_endpoint": isoOP + "/authorize", "token_endpoint": isoOP + "/token", "userinfo_endpoint": isoOP + "/userinfo",
			"jwks_uri": isoOP + "/keys", "introspection_endpoint": isoOP + "/introspect", "end_session_endpoint": isoOP + "/end_session", "revocation_endpoint": isoOP + "/revoke"})
		body = string(b)
	case r.URL.Path == "/token":
		body = `{"access_token":"at","token_type":"Bearer","expires_in":300,"refresh_token":"rt","issued_token_type":"urn:ietf:params:oauth:token-type:access_token"}`
	case r.URL.Path == "/userinfo":
		body = `{"sub":"user-1"}`
	case r.URL.Path == "/introspect":
		body = `{"active":true,"sub":"user-1"}`
	case r.URL.Path == "/keys":
		body = `{"keys":[]}`
	case r.URL.Path == "/end_session":
		resp.StatusCode = http.StatusFound
		resp.Header.Set("Location", "https://rp.example.test/bye")
	case r.URL.Path == "/redirect":
		resp.StatusCode = http.StatusFound
		resp.Header.Set("Location", isoOP+"/landed")
	case r.URL.Path == "/landed":
		body = `{"landed":true}`
	}
	resp.Body = io.NopCloser(strings.NewReader(body))
	return resp, nil
}

type isoWorld struct {
	caller     *http.Client
	provA      *op.Provider
	legacyA    http.Handler
	store      *modelstore.Store
	rpCaller   rp.RelyingParty
	rpDefault  rp.RelyingParty
	rsCaller   rs.ResourceServer
	te         tokenexchange.TokenExchanger
	dcRaw      string
	pristine   map[string]string
	defaultEPs op.Endpoints
	epValues   map[*op.Endpoint]op.Endpoint // the Endpoint objects the defaults point to, by value
	claims0    []string
	scopes0    []string
	// caller-owned interceptor chain, and a router that was built from it earlier
	chain       []op.HttpInterceptor
	chainRouter http.Handler
	// a second provider: own storage, own signing key - whose key id happens to equal provider A's
	provB  *op.Provider
	storeB *modelstore.Store
	// one provider serving two tenants (issuer from the request host), with an ID token issued under each tenant's issuer
	provDyn http.Handler
	hintOf  map[string]string
	// one relying party with PKCE whose login handler is shared by every browser
	rpLogin http.Handler
	// one remote key set shared by all verifications; JWKS = [key a with key id "a", key b without key id]
	ks     oidc.KeySet
	ksDown atomic.Bool
	ksTok  map[string]string
	// an issuer function value that several provider constructions share, and the provider built from it first
	sharedIssuerFn func(bool) (op.IssuerFromRequest, error)
	provShared     http.Handler
	// two providers configured with the same absolute UserFormURL
	provUF [2]http.Handler
	// a relying party with a JWT-profile signer, and endpoint parameters the caller owns
	rpJWT  rp.RelyingParty
	params url.Values
	// a provider whose signing key does not fit the algorithm it announces
	provBroken  http.Handler
	storeBroken *modelstore.Store
}

type ksTransport struct{ body []byte }

func (t ksTransport) RoundTrip(r *http.Request) (*http.Response, error) {
	if iso.ksDown.Load() {
		return &http.Response{StatusCode: 503, Header: http.Header{}, Body: io.NopCloser(strings.NewReader("down")), Request: r}, nil
	}
	return &http.Response{StatusCode: 200, Header: http.Header{"Content-Type": {"application/json"}}, Body: io.NopCloser(strings.NewReader(string(t.body))), Request: r}, nil
}

func ksVerify(tok string) string {
	jws, err := jose.ParseSigned(tok, []jose.SignatureAlgorithm{jose.ES256})
	if err != nil {
		return "unparsable"
	}
	if _, err := iso.ks.VerifySignature(context.Background(), jws); err != nil {
		return "rejected: " + err.Error()
	}
	return "ok"
}

func pkgErrors() string {
	vals := []error{op.ErrInvalidAuthHeader, op.ErrNoClientCredentials, op.ErrMissingClientID, op.ErrInvalidIssuerPath, op.ErrInvalidIssuerNoIssuer, op.ErrInvalidIssuerURL,
		op.ErrInvalidIssuerMissingHost, op.ErrInvalidIssuerHTTPS, op.ErrNilEndpoint, op.ErrKeySetUnavailable, op.ErrAuthReqMissingClientID, op.ErrAuthReqMissingRedirectURI,
		op.ErrSignerCreationFailed, op.ErrInvalidRefreshToken, op.ErrDuplicateUserCode, oidc.ErrKeyMultiple, oidc.ErrKeyNone, oidc.ErrParse, oidc.ErrIssuerInvalid,
		oidc.ErrDiscoveryFailed, oidc.ErrSubjectMissing, oidc.ErrAudience, oidc.ErrAzpMissing, oidc.ErrAzpInvalid, oidc.ErrSignatureMissing, oidc.ErrSignatureMultiple,
		oidc.ErrSignatureUnsupportedAlg, oidc.ErrSignatureInvalidPayload, oidc.ErrSignatureInvalid, oidc.ErrExpired, oidc.ErrIatMissing, oidc.ErrIatInFuture, oidc.ErrIatToOld,
		oidc.ErrNonceInvalid, oidc.ErrAcrInvalid, oidc.ErrAuthTimeNotPresent, oidc.ErrAuthTimeToOld, oidc.ErrAtHash}
	parts := []string{}
	for _, e := range vals {
		v := reflect.ValueOf(e)
		for v.Kind() == reflect.Pointer && !v.IsNil() {
			v = v.Elem()
		}
		parts = append(parts, fmt.Sprintf("%T:%+v", e, v.Interface()))
	}
	return strings.Join(parts, " | ")
}

const isoTenantA, isoTenantB = "tenant-a.example.test", "tenant-b.example.test"

// isoHint signs an ID token of client cw under the issuer of tenant host with the provider's signing key.
func isoHint(host string) string {
	k := iso.store.Signing
	signer, err := jose.NewSigner(jose.SigningKey{Algorithm: k.Alg, Key: &jose.JSONWebKey{Key: k.Priv, KeyID: k.KID}}, nil)
	if err != nil {
		panic(err)
	}
	now := time.Now()
	b, _ := json.Marshal(map[string]any{"iss": "https://" + host, "sub": "u1", "aud": []string{"cw"}, "azp": "cw", "iat": now.Unix() - 5, "exp": now.Add(12 * time.Hour).Unix()})
	jws, err := signer.Sign(b)
	if err != nil {
		panic(err)
	}
	tok, _ := jws.CompactSerialize()
	return tok
}

// logoutAt: end_session at tenant `host` with the ID token issued under tenant `hintHost`: "accepted" (redirect) | "refused"
func logoutAt(host, hintHost string) string {
	req := httptest.NewRequest(http.MethodGet, "https://"+host+"/end_session?id_token_hint="+url.QueryEscape(iso.hintOf[hintHost]), nil)
	r := opdrv.Serve(iso.provDyn, req)
	if r.Status >= 300 && r.Status < 400 {
		return "accepted"
	}
	return "refused"
}

// traceInterceptor marks the response with its name, in the order the interceptors run.
func traceInterceptor(name string) op.HttpInterceptor {
	return func(next http.Handler) http.Handler {
		return http.HandlerFunc(func(w http.ResponseWriter, r *http.Request) {
			w.Header().Add("X-Trace", name)
			next.ServeHTTP(w, r)
		})
	}
}

func traceOf(h http.Handler) string {
	rec := httptest.NewRecorder()
	h.ServeHTTP(rec, httptest.NewRequest(http.MethodGet, opdrv.Issuer+"/healthz", nil))
	return strings.Join(rec.Header().Values("X-Trace"), ">")
}

// signsWithOwnKey: the provider issues a JWT access token (client_credentials of cs) and the token verifies under the keys that provider publishes.
func signsWithOwnKey(p *op.Provider) string {
	r := isoReq(p, http.MethodPost, "/oauth/token", url.Values{"grant_type": {"client_credentials"}, "scope": {"api"}}, "cs")
	var tr struct {
		AccessToken string `json:"access_token"`
	}
	if r.Status != 200 || json.Unmarshal([]byte(r.Body), &tr) != nil || strings.Count(tr.AccessToken, ".") != 2 {
		return "no JWT issued: " + r.Body
	}
	kr := isoReq(p, http.MethodGet, "/keys", nil, "")
	var set jose.JSONWebKeySet
	if json.Unmarshal([]byte(kr.Body), &set) != nil {
		return "no key set"
	}
	jws, err := jose.ParseSigned(tr.AccessToken, []jose.SignatureAlgorithm{jose.ES256, jose.RS256})
	if err != nil {
		return "unparsable token"
	}
	for _, k := range set.Keys {
		if _, err := jws.Verify(k); err == nil {
			return "ownKeys"
		}
	}
	return "signature does not verify under the keys this provider publishes"
}

var (
	isoOnce sync.Once
	iso     *isoWorld
	isoMu   sync.Mutex // C20 cases touch package-level state: they run one at a time
)

func isoSetup() {
	w, err := opdrv.LoadWorld(DiscWorldPath)
	if err != nil {
		panic(err)
	}
	// harness set-up of the shared cells (before the pristine snapshot is taken)
	httphelper.DefaultHTTPClient.Transport = isoTransport{}
	iso = &isoWorld{caller: &http.Client{Transport: isoTransport{}, Timeout: 7 * time.Second}}
	iso.store = modelstore.New(opdrv.BuildRegs(w), opdrv.SigningKeyFor("ES256"))
	iso.store.ShareDeviceState = true
	h, p, err := opdrv.BuildProvider(iso.store, opdrv.DefaultCfg("P"))
	_ = h
	if err != nil {
		panic(err)
	}
	iso.provA = p
	iso.legacyA = op.RegisterLegacyServer(op.NewLegacyServer(p, *op.DefaultEndpoints), op.AuthorizeCallbackHandler(p))
	ctx := context.Background()
	iso.rpCaller, err = rp.NewRelyingPartyOIDC(ctx, isoOP, "cid", "secret", "https://rp.example.test/cb", []string{"openid"}, rp.WithHTTPClient(iso.caller))
	if err != nil {
		panic(err)
	}
	iso.rpDefault, err = rp.NewRelyingPartyOIDC(ctx, isoOP, "cid", "secret", "https://rp.example.test/cb", []string{"openid"})
	if err != nil {
		panic(err)
	}
	iso.rsCaller, err = rs.NewResourceServerClientCredentials(ctx, isoOP, "cid", "secret", rs.WithClient(iso.caller))
	if err != nil {
		panic(err)
	}
	iso.te, err = tokenexchange.NewTokenExchangerClientCredentials(ctx, isoOP, "cid", "secret", tokenexchange.WithHTTPClient(iso.caller))
	if err != nil {
		panic(err)
	}
	// an approved device code whose state object is owned by the storage
	r := isoReq(iso.provA, http.MethodPost, "/device_authorization", url.Values{"scope": {"openid"}}, "cd")
	var da struct {
		DeviceCode string `json:"device_code"`
		UserCode   string `json:"user_code"`
	}
	json.Unmarshal([]byte(r.Body), &da)
	iso.dcRaw = da.DeviceCode
	iso.store.Lock()
	if d, ok := iso.store.Devices[da.DeviceCode]; ok {
		d.State.Done, d.State.Subject, d.State.AuthTime = true, "u1", time.Now()
	}
	iso.store.Unlock()
	iso.defaultEPs = *op.DefaultEndpoints
	iso.epValues = map[*op.Endpoint]op.Endpoint{}
	for _, ep := range []*op.Endpoint{op.DefaultEndpoints.Authorization, op.DefaultEndpoints.Token, op.DefaultEndpoints.Introspection, op.DefaultEndpoints.Userinfo,
		op.DefaultEndpoints.Revocation, op.DefaultEndpoints.EndSession, op.DefaultEndpoints.JwksURI, op.DefaultEndpoints.DeviceAuthorization, op.DefaultEndpoints.CheckSessionIframe} {
		if ep != nil {
			iso.epValues[ep] = *ep
		}
	}
	iso.chain = []op.HttpInterceptor{traceInterceptor("first"), traceInterceptor("second"), traceInterceptor("third")}
	iso.chainRouter = op.CreateRouter(iso.provA, iso.chain...)
	keyB := *modelstore.GenKey("c20-provider-b", jose.ES256)
	keyB.KID = iso.store.Signing.KID
	iso.storeB = modelstore.New(opdrv.BuildRegs(w), &keyB)
	if _, iso.provB, err = opdrv.BuildProvider(iso.storeB, opdrv.DefaultCfg("P")); err != nil {
		panic(err)
	}
	dcfg := opdrv.DefaultCfg("P")
	dcfg.Dyn = true
	if iso.provDyn, _, err = opdrv.BuildProvider(iso.store, dcfg); err != nil {
		panic(err)
	}
	iso.hintOf = map[string]string{isoTenantA: isoHint(isoTenantA), isoTenantB: isoHint(isoTenantB)}
	ch := httphelper.NewCookieHandler([]byte("0123456789abcdef0123456789abcdef"), []byte("fedcba9876543210fedcba9876543210"), httphelper.WithUnsecure())
	party, err := rp.NewRelyingPartyOAuth(&oauth2.Config{ClientID: "cid", ClientSecret: "secret", RedirectURL: "https://rp.example.test/cb", Scopes: []string{"openid"},
		Endpoint: oauth2.Endpoint{AuthURL: isoOP + "/authorize", TokenURL: isoOP + "/token"}}, rp.WithCookieHandler(ch), rp.WithPKCE(ch), rp.WithHTTPClient(iso.caller))
	if err != nil {
		panic(err)
	}
	var nState atomic.Int64
	iso.rpLogin = rp.AuthURLHandler(func() string { return fmt.Sprintf("state-%d", nState.Add(1)) }, party, rp.WithURLParam("tenant", "x"))
	ka, kb, kx := modelstore.GenKey("c20-ks-a", jose.ES256), modelstore.GenKey("c20-ks-b", jose.ES256), modelstore.GenKey("c20-ks-stranger", jose.ES256)
	jwks, _ := json.Marshal(jose.JSONWebKeySet{Keys: []jose.JSONWebKey{{Key: ka.Pub, KeyID: "a", Use: "sig", Algorithm: "ES256"}, {Key: kb.Pub, Use: "sig", Algorithm: "ES256"}}})
	iso.ks = rp.NewRemoteKeySet(&http.Client{Transport: ksTransport{jwks}}, isoOP+"/shared-keys")
	iso.ksTok = map[string]string{"good": signJWT([]byte(`{"sub":"x"}`), ka, "a"), "unknownKid": signJWT([]byte(`{"sub":"x"}`), kx, "zzz"), "noKid": signNoKid([]byte(`{"sub":"x"}`), kb)}
	ksVerify(iso.ksTok["good"]) // the key set has downloaded the JWKS once
	rsaKey := modelstore.GenKey("c20-broken-rsa", jose.RS256)
	broken := *rsaKey
	broken.Alg = jose.ES256 // announces ES256 over an RSA key: the signer cannot be created
	iso.storeBroken = modelstore.New(opdrv.BuildRegs(w), &broken)
	if iso.provBroken, _, err = opdrv.BuildProvider(iso.storeBroken, opdrv.DefaultCfg("P")); err != nil {
		panic(err)
	}
	iso.sharedIssuerFn = op.IssuerFromHost("")
	if ps, err := op.NewProvider(&op.Config{CryptoKey: opdrv.CryptoKey}, iso.store, iso.sharedIssuerFn); err == nil {
		iso.provShared = ps
	} else {
		panic(err)
	}
	for i := range iso.provUF {
		p, err := op.NewProvider(&op.Config{CryptoKey: opdrv.CryptoKey, DeviceAuthorization: op.DeviceAuthorizationConfig{Lifetime: 5 * time.Minute, PollInterval: 5 * time.Second,
			UserFormURL: isoUserForm, UserCode: op.UserCodeBase20}}, modelstore.WithCaps(iso.store, true, true, true), op.StaticIssuer(opdrv.Issuer))
		if err != nil {
			panic(err)
		}
		iso.provUF[i] = p
	}
	kj := opdrv.ClientKey("cj")
	kjDER, _ := x509.MarshalPKCS8PrivateKey(kj.Priv)
	iso.rpJWT, err = rp.NewRelyingPartyOIDC(ctx, isoOP, "cj", "", "https://rp.example.test/cb", []string{"openid"}, rp.WithHTTPClient(iso.caller),
		rp.WithJWTProfile(rp.SignerFromKeyAndKeyID(pem.EncodeToMemory(&pem.Block{Type: "PRIVATE KEY", Bytes: kjDER}), kj.KID)))
	if err != nil {
		panic(err)
	}
	iso.params = url.Values{"resource": {"https://api.example.test"}}
	iso.claims0 = append([]string(nil), op.DefaultSupportedClaims...)
	iso.scopes0 = append([]string(nil), op.DefaultSupportedScopes...)
	iso.pristine = isoSnapshot()
}

// sharedIssuerOf: the issuer the provider built first from the shared issuer function states for tenant A.
func sharedIssuerOf() string {
	rec := httptest.NewRecorder()
	iso.provShared.ServeHTTP(rec, httptest.NewRequest(http.MethodGet, "https://"+isoTenantA+"/.well-known/openid-configuration", nil))
	var doc struct {
		Issuer string `json:"issuer"`
	}
	if json.Unmarshal(rec.Body.Bytes(), &doc) != nil {
		return "no document"
	}
	return doc.Issuer
}

const isoUserForm = "https://login.example.test/device/form"

// ufVerificationURI: a device authorization at provider i (configured with the absolute UserFormURL); returns its verification_uri.
func ufVerificationURI(i int) string {
	r := isoReq(iso.provUF[i], http.MethodPost, "/device_authorization", url.Values{"scope": {"openid"}}, "cd")
	var da struct {
		VerificationURI string `json:"verification_uri"`
	}
	if json.Unmarshal([]byte(r.Body), &da) != nil || da.VerificationURI == "" {
		return "no response: " + r.Body
	}
	return da.VerificationURI
}

func signNoKid(payload []byte, key *modelstore.SignKey) string {
	signer, err := jose.NewSigner(jose.SigningKey{Algorithm: key.Alg, Key: key.Priv}, (&jose.SignerOptions{}).WithType("JWT"))
	if err != nil {
		panic(err)
	}
	jws, _ := signer.Sign(payload)
	s, _ := jws.CompactSerialize()
	return s
}

func isoReq(h http.Handler, method, path string, form url.Values, clientID string) *opdrv.RawResponse {
	var req *http.Request
	if method == http.MethodPost {
		req = httptest.NewRequest(method, opdrv.Issuer+path, strings.NewReader(form.Encode()))
		req.Header.Set("Content-Type", "application/x-www-form-urlencoded")
	} else {
		u := opdrv.Issuer + path
		if form != nil {
			u += "?" + form.Encode()
		}
		req = httptest.NewRequest(method, u, nil)
	}
	if clientID != "" {
		req.SetBasicAuth(clientID, opdrv.Secret(clientID))
	}
	return opdrv.Serve(h, req)
}

func endpointsString(e *op.Endpoints) string {
	parts := []string{}
	for name, ep := range map[string]*op.Endpoint{"authorization": e.Authorization, "token": e.Token, "introspection": e.Introspection, "userinfo": e.Userinfo,
		"revocation": e.Revocation, "end_session": e.EndSession, "jwks": e.JwksURI, "device_authorization": e.DeviceAuthorization} {
		parts = append(parts, name+"="+ep.Relative()+"|"+ep.Absolute("https://x"))
	}
	sort.Strings(parts)
	return strings.Join(parts, ";")
}

func follows(c *http.Client) string {
	resp, err := c.Get(isoOP + "/redirect")
	if err != nil {
		return "err:" + err.Error()
	}
	defer resp.Body.Close()
	return fmt.Sprint(resp.StatusCode)
}

func routes(h http.Handler) string {
	out := []string{}
	for _, p := range []string{"/authorize", "/oauth/token", "/oauth/introspect", "/userinfo", "/revoke", "/end_session", "/keys", "/device_authorization", "/.well-known/openid-configuration"} {
		m := http.MethodGet
		if p == "/oauth/token" || p == "/oauth/introspect" || p == "/revoke" || p == "/device_authorization" {
			m = http.MethodPost
		}
		r := isoReq(h, m, p, url.Values{"x": {"y"}}, "cw")
		out = append(out, fmt.Sprintf("%s:%v", p, r.Status != http.StatusNotFound && r.Status != http.StatusMethodNotAllowed))
	}
	return strings.Join(out, ";")
}

func isoSnapshot() map[string]string {
	s := map[string]string{}
	s["op.DefaultEndpoints"] = endpointsString(op.DefaultEndpoints)
	s["op.DefaultSupportedClaims"] = strings.Join(op.DefaultSupportedClaims, ",")
	s["op.DefaultSupportedScopes"] = strings.Join(op.DefaultSupportedScopes, ",")
	d := httphelper.DefaultHTTPClient
	s["httphelper.DefaultHTTPClient"] = fmt.Sprintf("checkRedirectNil=%v timeout=%v jarNil=%v transport=%T", d.CheckRedirect == nil, d.Timeout, d.Jar == nil, d.Transport)
	c := iso.caller
	s["callerHTTPClient"] = fmt.Sprintf("checkRedirectNil=%v timeout=%v jarNil=%v transport=%T", c.CheckRedirect == nil, c.Timeout, c.Jar == nil, c.Transport)
	s["callerHTTPClient.followsRedirects"] = follows(c)
	s["defaultHTTPClient.followsRedirects"] = follows(d)
	r := isoReq(iso.provA, http.MethodGet, "/.well-known/openid-configuration", nil, "")
	var doc map[string]any
	json.Unmarshal([]byte(r.Body), &doc)
	keys := []string{}
	for k, v := range doc {
		if strings.HasSuffix(k, "_endpoint") || k == "jwks_uri" || k == "issuer" {
			keys = append(keys, fmt.Sprintf("%s=%v", k, v))
		}
	}
	sort.Strings(keys)
	s["providerA.discovery"] = strings.Join(keys, ";")
	s["providerA.routes"] = routes(iso.provA)
	s["legacyA.routes"] = routes(iso.legacyA)
	s["rpA.endpoints"] = fmt.Sprintf("%s|%s|%s|%s|%s", iso.rpCaller.OAuthConfig().Endpoint.TokenURL, iso.rpCaller.UserinfoEndpoint(), iso.rpCaller.GetEndSessionEndpoint(), iso.rpCaller.GetRevokeEndpoint(), iso.rpCaller.Issuer())
	iso.store.Lock()
	if dv, ok := iso.store.Devices[iso.dcRaw]; ok {
		s["storage.DeviceAuthorizationState"] = fmt.Sprintf("aud=%v len=%d scopes=%v client=%s", dv.State.Audience, len(dv.State.Audience), dv.State.Scopes, dv.State.ClientID)
	}
	iso.store.Unlock()
	names := []string{}
	for _, ic := range iso.chain {
		names = append(names, traceOf(ic(http.NotFoundHandler())))
	}
	s["callerInterceptorChain"] = strings.Join(names, ",")
	s["routerA2.interceptorOrder"] = traceOf(iso.chainRouter)
	s["dynProvider.tenantA.ownHint"] = logoutAt(isoTenantA, isoTenantA)
	s["dynProvider.tenantB.ownHint"] = logoutAt(isoTenantB, isoTenantB)
	s["dynProvider.tenantB.foreignHint"] = logoutAt(isoTenantB, isoTenantA)
	s["providerA.tokenSignature"] = signsWithOwnKey(iso.provA)
	s["providerB.tokenSignature"] = signsWithOwnKey(iso.provB)
	iso.ksDown.Store(true)
	s["sharedKeySet.servesFromCache"] = ksVerify(iso.ksTok["good"])
	iso.ksDown.Store(false)
	s["packageLevelErrors"] = pkgErrors()
	s["userFormProviderB.verificationURI"] = ufVerificationURI(1)
	s["callerEndpointParams"] = iso.params.Encode()
	s["sharedIssuerFuncProvider.issuer"] = sharedIssuerOf()
	return s
}

// isoHealthy: cells with a value that must hold at any time, whatever ran before
var isoHealthy = map[string]string{"dynProvider.tenantA.ownHint": "accepted", "dynProvider.tenantB.ownHint": "accepted", "dynProvider.tenantB.foreignHint": "refused",
	"providerA.tokenSignature": "ownKeys", "providerB.tokenSignature": "ownKeys",
	"callerInterceptorChain": "first,second,third", "routerA2.interceptorOrder": "first>second>third", "sharedKeySet.servesFromCache": "ok", "userFormProviderB.verificationURI": isoUserForm, "sharedIssuerFuncProvider.issuer": "https://" + isoTenantA}

func isoRestore() {
	iso.params = url.Values{"resource": {"https://api.example.test"}}
	*op.DefaultEndpoints = iso.defaultEPs
	for ep, v := range iso.epValues {
		*ep = v
	}
	op.DefaultSupportedClaims = append([]string(nil), iso.claims0...)
	op.DefaultSupportedScopes = append([]string(nil), iso.scopes0...)
	httphelper.DefaultHTTPClient.CheckRedirect = nil
	iso.caller.CheckRedirect = nil
	iso.store.Lock()
	if dv, ok := iso.store.Devices[iso.dcRaw]; ok {
		dv.State.Audience = nil
	}
	iso.store.Unlock()
	iso.chain = []op.HttpInterceptor{traceInterceptor("first"), traceInterceptor("second"), traceInterceptor("third")}
}

var customOpt = map[string]func() op.Option{
	"op.NewProvider+WithCustomAuthEndpoint":          func() op.Option { return op.WithCustomAuthEndpoint(op.NewEndpoint("c/auth")) },
	"op.NewProvider+WithCustomTokenEndpoint":         func() op.Option { return op.WithCustomTokenEndpoint(op.NewEndpoint("c/token")) },
	"op.NewProvider+WithCustomIntrospectionEndpoint": func() op.Option { return op.WithCustomIntrospectionEndpoint(op.NewEndpoint("c/introspect")) },
	"op.NewProvider+WithCustomUserinfoEndpoint":      func() op.Option { return op.WithCustomUserinfoEndpoint(op.NewEndpoint("c/userinfo")) },
	"op.NewProvider+WithCustomRevocationEndpoint":    func() op.Option { return op.WithCustomRevocationEndpoint(op.NewEndpoint("c/revoke")) },
	"op.NewProvider+WithCustomEndSessionEndpoint":    func() op.Option { return op.WithCustomEndSessionEndpoint(op.NewEndpoint("c/logout")) },
	"op.NewProvider+WithCustomKeysEndpoint":          func() op.Option { return op.WithCustomKeysEndpoint(op.NewEndpoint("c/jwks")) },
	"op.NewProvider+WithCustomDeviceAuthorizationEndpoint": func() op.Option {
		return op.WithCustomDeviceAuthorizationEndpoint(op.NewEndpoint("c/device"))
	},
	"op.NewProvider+WithCustomEndpoints": func() op.Option {
		return op.WithCustomEndpoints(op.NewEndpoint("d/auth"), op.NewEndpoint("d/token"), op.NewEndpoint("d/userinfo"), op.NewEndpoint("d/revoke"), op.NewEndpoint("d/logout"), op.NewEndpoint("d/jwks"))
	},
}

func isoNewProvider() *op.Provider {
	p, err := op.NewProvider(&op.Config{CryptoKey: opdrv.CryptoKey, CodeMethodS256: true, GrantTypeRefreshToken: true}, iso.store, op.StaticIssuer(opdrv.Issuer))
	if err != nil {
		return nil
	}
	isoReq(p, http.MethodGet, "/.well-known/openid-configuration", nil, "")
	return p
}

func isoExec(name string) {
	ctx := context.Background()
	switch {
	case name == "op.NewProvider":
		isoNewProvider()
	case customOpt[name] != nil:
		p, err := op.NewProvider(&op.Config{CryptoKey: opdrv.CryptoKey}, iso.store, op.StaticIssuer(opdrv.Issuer), customOpt[name]())
		if err == nil {
			isoReq(p, http.MethodGet, "/.well-known/openid-configuration", nil, "")
		}
	case name == "op.NewLegacyServer":
		if p := isoNewProvider(); p != nil {
			op.RegisterLegacyServer(op.NewLegacyServer(p, *op.DefaultEndpoints), op.AuthorizeCallbackHandler(p))
		}
	case name == "provider.serveAll" || name == "legacy.serveAll":
		var h http.Handler = iso.provA
		if name == "legacy.serveAll" {
			h = iso.legacyA
		}
		isoReq(h, http.MethodGet, "/.well-known/openid-configuration", nil, "")
		isoReq(h, http.MethodGet, "/keys", nil, "")
		isoReq(h, http.MethodGet, "/authorize", url.Values{"client_id": {"cw"}, "redirect_uri": {opdrv.ConcreteURI["ucw"]}, "response_type": {"code"}, "scope": {"openid"}}, "")
		isoReq(h, http.MethodPost, "/oauth/token", url.Values{"grant_type": {"client_credentials"}, "scope": {"api"}}, "cs")
		isoReq(h, http.MethodPost, "/oauth/introspect", url.Values{"token": {"x"}}, "cw")
		isoReq(h, http.MethodGet, "/userinfo", nil, "")
		isoReq(h, http.MethodPost, "/revoke", url.Values{"token": {"x"}}, "cw")
		isoReq(h, http.MethodGet, "/end_session", nil, "")
	case name == "op.CreateRouter(callerChain)":
		traceOf(op.CreateRouter(iso.provA, iso.chain...))
	case name == "op.NewProvider+WithHttpInterceptors(callerChain)":
		p, err := op.NewProvider(&op.Config{CryptoKey: opdrv.CryptoKey}, iso.store, op.StaticIssuer(opdrv.Issuer), op.WithHttpInterceptors(iso.chain...))
		if err == nil {
			traceOf(p)
		}
	case name == "dynProvider.logout(tenantA)":
		logoutAt(isoTenantA, isoTenantA)
	case name == "dynProvider.logout(tenantB)":
		logoutAt(isoTenantB, isoTenantB)
	case name == "rp.AuthURLHandler.serve(pkce)":
		// a browser starts a login at the shared handler: the challenge in the redirect belongs to the verifier in ITS cookie (checked by C17); here: isolation
		rec := httptest.NewRecorder()
		iso.rpLogin.ServeHTTP(rec, httptest.NewRequest(http.MethodGet, "https://rp.example.test/login", nil))
	case name == "providerA.issueJWT":
		signsWithOwnKey(iso.provA)
	case name == "providerB.issueJWT":
		signsWithOwnKey(iso.provB)
	case name == "provider.devicePoll":
		isoReq(iso.provA, http.MethodPost, "/oauth/token", url.Values{"grant_type": {"urn:ietf:params:oauth:grant-type:device_code"}, "device_code": {iso.dcRaw}}, "cd")
		isoReq(iso.legacyA, http.MethodPost, "/oauth/token", url.Values{"grant_type": {"urn:ietf:params:oauth:grant-type:device_code"}, "device_code": {iso.dcRaw}}, "cd")
	case name == "rp.NewRelyingPartyOIDC(caller)":
		rp.NewRelyingPartyOIDC(ctx, isoOP, "cid2", "secret", "https://rp2.example.test/cb", []string{"openid"}, rp.WithHTTPClient(iso.caller))
	case name == "rp.NewRelyingPartyOIDC(default)":
		rp.NewRelyingPartyOIDC(ctx, isoOP, "cid2", "secret", "https://rp2.example.test/cb", []string{"openid"})
	case name == "rp.EndSession(caller)":
		rp.EndSession(ctx, iso.rpCaller, "idt", "https://rp.example.test/bye", "st")
	case name == "rp.EndSession(default)":
		rp.EndSession(ctx, iso.rpDefault, "idt", "https://rp.example.test/bye", "st")
	case name == "rp.RevokeToken(caller)":
		rp.RevokeToken(ctx, iso.rpCaller, "tok", "access_token")
	case name == "rp.RevokeToken(default)":
		rp.RevokeToken(ctx, iso.rpDefault, "tok", "access_token")
	case name == "rp.Userinfo(caller)":
		rp.Userinfo[*oidc.UserInfo](ctx, "at", "Bearer", "user-1", iso.rpCaller)
	case name == "rp.RefreshTokens(caller)":
		rp.RefreshTokens[*oidc.IDTokenClaims](ctx, iso.rpCaller, "rt", "", "")
	case name == "rp.CodeExchange(caller)":
		rp.CodeExchange[*oidc.IDTokenClaims](ctx, "code", iso.rpCaller)
	case name == "client.Discover(caller)":
		client.Discover(ctx, isoOP, iso.caller)
	case name == "client.Discover(default)":
		client.Discover(ctx, isoOP, httphelper.DefaultHTTPClient)
	case name == "rs.Introspect(caller)":
		rs.Introspect[*oidc.IntrospectionResponse](ctx, iso.rsCaller, "tok")
	case name == "tokenexchange.ExchangeToken(caller)":
		tokenexchange.ExchangeToken(ctx, iso.te, "subject", oidc.AccessTokenType, "", "", nil, nil, nil, oidc.AccessTokenType)
	case name == "keySet.verify(good)":
		ksVerify(iso.ksTok["good"])
	case name == "keySet.verify(unknownKid)":
		ksVerify(iso.ksTok["unknownKid"])
	case name == "keySet.verify(noKid)":
		ksVerify(iso.ksTok["noKid"])
	case name == "op.NewProvider(sharedIssuerFunc)+WithAllowInsecure":
		if p, err := op.NewProvider(&op.Config{CryptoKey: opdrv.CryptoKey}, iso.store, iso.sharedIssuerFn, op.WithAllowInsecure()); err == nil {
			p.ServeHTTP(httptest.NewRecorder(), httptest.NewRequest(http.MethodGet, "http://"+isoTenantB+"/.well-known/openid-configuration", nil))
		}
	case name == "op.NewProvider(sharedIssuerFunc)":
		if p, err := op.NewProvider(&op.Config{CryptoKey: opdrv.CryptoKey}, iso.store, iso.sharedIssuerFn); err == nil {
			p.ServeHTTP(httptest.NewRecorder(), httptest.NewRequest(http.MethodGet, "https://"+isoTenantB+"/.well-known/openid-configuration", nil))
		}
	case name == "userFormProviderA.deviceAuthorization":
		ufVerificationURI(0)
	case name == "userFormProviderB.deviceAuthorization":
		ufVerificationURI(1)
	case name == "rp.ClientCredentials(jwtProfileRP, callerParams)":
		rp.ClientCredentials(ctx, iso.rpJWT, iso.params)
	case name == "brokenSignerProvider.implicitCallback":
		r := isoReq(iso.provBroken, http.MethodGet, "/authorize", url.Values{"client_id": {"cx"}, "redirect_uri": {opdrv.ConcreteURI["ucx"]}, "response_type": {"id_token token"},
			"scope": {"openid"}, "state": {"state-of-another-user"}, "nonce": {"n"}}, "")
		if id := strings.TrimPrefix(r.Location, "/login?authRequestID="); id != r.Location {
			iso.storeBroken.Login(id, "u1")
			isoReq(iso.provBroken, http.MethodGet, "/authorize/callback", url.Values{"id": {id}}, "")
		}
	default:
		panic("harness: unknown operation " + name)
	}
}

func raceLogSize() int64 {
	prefix := os.Getenv("VERIF_RACELOG")
	if prefix == "" {
		return 0
	}
	fi, err := os.Stat(fmt.Sprintf("%s.%d", prefix, os.Getpid()))
	if err != nil {
		return 0
	}
	return fi.Size()
}

func IsolationCase(c *Case) M {
	isoMu.Lock()
	defer isoMu.Unlock()
	isoOnce.Do(isoSetup)
	prog := SS(c.C, "prog")
	o := M{"changed": []string{}, "unhealthy": []string{}, "races": 0, "panic": false}
	isoRestore()
	before := isoSnapshot()
	if !reflect.DeepEqual(before, iso.pristine) {
		// a cell the harness cannot put back (the previous case reported the change): carry on from the state as it is now
		iso.pristine = before
	}
	r0 := raceLogSize()
	p := CatchPanic(func() {
		if S(c.C, "kind") == "seq" {
			for _, name := range prog {
				isoExec(name)
			}
			return
		}
		// concurrent: every operation in its own goroutines, released together, repeated
		var wg sync.WaitGroup
		start := make(chan struct{})
		for _, name := range prog {
			for g := 0; g < 3; g++ {
				wg.Add(1)
				go func(name string) {
					defer wg.Done()
					<-start
					for i := 0; i < 6; i++ {
						isoExec(name)
					}
				}(name)
			}
		}
		close(start)
		wg.Wait()
	})
	if strings.HasPrefix(p, "harness:") {
		panic(p)
	}
	if p != "" {
		o["panic"], o["detail"] = true, p
	}
	after := isoSnapshot()
	changed := []string{}
	for k, v := range before {
		if after[k] != v {
			changed = append(changed, k)
			o["diff:"+k] = v + "  ->  " + after[k]
		}
	}
	sort.Strings(changed)
	o["changed"] = changed
	unhealthy := []string{}
	for k, want := range isoHealthy {
		if after[k] != want {
			unhealthy = append(unhealthy, k)
			o["is:"+k] = after[k]
		}
	}
	sort.Strings(unhealthy)
	o["unhealthy"] = unhealthy
	if raceLogSize() > r0 {
		o["races"] = 1
	}
	isoRestore()
	return o
}
