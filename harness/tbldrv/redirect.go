package tbldrv

import (
	"context"
	"encoding/json"
	"net/http"
	"net/http/httptest"
	"net/url"
	"strings"
	"sync"

	"verif/harness/modelstore"
	"verif/harness/opdrv"

	"github.com/zitadel/oidc/v3/pkg/oidc"
	"github.com/zitadel/oidc/v3/pkg/op"
)

// ---- C03: spec/RedirectURI.tla

var schemeOf = map[string]string{"https": "https", "http": "http", "app": "com.example.app"}
var hostOf = map[string]string{"reg": "client.example", "regUp": "Client.Example", "sub.reg": "x.client.example", "evil": "evil.example",
	"localhost": "localhost", "127.0.0.1": "127.0.0.1", "::1": "[::1]", "localhost.evil": "localhost.evil.example"}
var portOf = map[string]string{"": "", "p1": ":8080", "p2": ":9090"}
var globOf = map[string]string{"G1": "https://*.client.example/cb", "G2": "https://client.example/**", "G3": "http://localhost:*/cb", "G4": "https://client.example/cb/*", "Gbad": "https://client.example/["}

// ConcreteURI is the injective concretisation of a URI record of RedirectURI.tla.
func ConcreteURI(u M) string {
	s := schemeOf[S(u, "scheme")] + "://"
	if S(u, "ui") != "" {
		s += "user@"
	}
	s += hostOf[S(u, "host")] + portOf[S(u, "port")] + S(u, "path")
	if q := S(u, "query"); q != "" {
		s += "?" + q
	}
	if S(u, "frag") != "" {
		s += "#frag"
	}
	return s
}

type regInst struct {
	client op.Client
	h      map[string]http.Handler
}

var regCache sync.Map // json(reg) -> *regInst

func instanceFor(reg M) *regInst {
	key, _ := json.Marshal(reg)
	if v, ok := regCache.Load(string(key)); ok {
		return v.(*regInst)
	}
	r := &modelstore.ClientReg{ID: "c1", Secret: "secret-c1", Auth: "basic", App: S(reg, "app"), Dev: B(reg, "dev"),
		Grants: []string{"code", "implicit", "refresh"}, RTypes: []string{"code", "id_token", "id_token token"}, ATType: "opaque",
		HasGlobs: B(reg, "optIn")}
	if r.App != "web" {
		r.Auth = "none"
		r.Secret = ""
	}
	for _, u := range L(reg, "uris") {
		r.URIs = append(r.URIs, ConcreteURI(u.(map[string]any)))
	}
	for _, g := range SS(reg, "globs") {
		r.Globs = append(r.Globs, globOf[g])
	}
	inst := &regInst{h: map[string]http.Handler{}}
	for _, router := range []string{"P", "L"} {
		store := modelstore.New([]*modelstore.ClientReg{r}, opdrv.SigningKeyFor("ES256"))
		h, _, err := opdrv.BuildProvider(store, opdrv.DefaultCfg(router))
		if err != nil {
			panic(err)
		}
		inst.h[router] = h
		if inst.client == nil {
			inst.client, err = store.GetClientByClientID(context.Background(), "c1")
			if err != nil {
				panic(err)
			}
		}
	}
	v, _ := regCache.LoadOrStore(string(key), inst)
	return v.(*regInst)
}

// ClassifyAuthorize projects the response of /authorize to [class, status, same] (same: redirect target == requested URI).
func ClassifyAuthorize(r *opdrv.RawResponse, requested string) M {
	o := M{"class": "page", "status": r.Status, "same": false}
	switch {
	case r.Panic != "":
		o["class"] = "panic"
		o["detail"] = r.Panic
	case r.Writes > 1:
		o["class"] = "double"
	case r.Status == http.StatusFound && strings.HasPrefix(r.Location, "/login?authRequestID="):
		o["class"] = "login"
	case r.Status == http.StatusFound || r.Status == http.StatusSeeOther || r.Status == http.StatusTemporaryRedirect:
		target, _, params := opdrv.SplitRedirect(r.Location)
		o["same"] = sameTarget(target, requested)
		o["target"] = target
		switch {
		case params.Has("error"):
			o["class"] = "redirErr"
		case params.Has("code"):
			o["class"] = "code"
		default:
			o["class"] = "tokens"
		}
	case r.Status == http.StatusOK && strings.Contains(r.Body, "<form"):
		action, _, _ := opdrv.ParseFormPost(r.Body)
		o["class"], o["same"], o["target"] = "form", sameTarget(action, requested), action
	default:
		var body M
		if json.Unmarshal([]byte(r.Body), &body) == nil && body != nil {
			o["class"] = "json"
		}
	}
	return o
}

// sameTarget: the redirect went to the requested URI (response parameters already stripped by SplitRedirect;
// the fragment of the requested URI is replaced by a fragment-mode response, which is not a different target).
func sameTarget(target, requested string) bool {
	if target == requested {
		return true
	}
	a, e1 := url.Parse(target)
	b, e2 := url.Parse(requested)
	if e1 != nil || e2 != nil {
		return false
	}
	return a.Scheme == b.Scheme && a.Host == b.Host && a.User.String() == b.User.String() && a.Path == b.Path &&
		strings.TrimSuffix(a.RawQuery, "&") == b.RawQuery
}

func RedirectCase(c *Case) M {
	reg := Sub(c.C, "reg")
	inst := instanceFor(reg)
	uri := ConcreteURI(Sub(c.C, "uri"))
	rtype, defect := S(c.C, "rtype"), S(c.C, "defect")
	o := M{}
	if defect == "nortype" {
		rtype = ""
	}
	var ferr error
	if p := CatchPanic(func() { ferr = op.ValidateAuthReqRedirectURI(inst.client, uri, oidc.ResponseType(rtype)) }); p != "" {
		o["F"] = "panic"
	} else if ferr == nil {
		o["F"] = "ok"
	} else {
		o["F"] = "refused"
	}
	q := url.Values{"client_id": {"c1"}, "redirect_uri": {uri}, "state": {"st-1"}, "nonce": {"n-1"}}
	if rtype != "" {
		q.Set("response_type", rtype)
	}
	if defect != "noscope" {
		q.Set("scope", "openid")
	}
	if defect == "promptnone+login" {
		q.Set("prompt", "none login")
	}
	for _, router := range []string{"P", "L"} {
		req := httptest.NewRequest(http.MethodGet, opdrv.Issuer+"/authorize?"+q.Encode(), nil)
		o[router] = ClassifyAuthorize(opdrv.Serve(inst.h[router], req), uri)
	}
	o["concrete"] = uri
	return o
}
