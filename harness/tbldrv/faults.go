package tbldrv

import (
	"strings"
	"sync"

	"verif/harness/opdrv"
)

// ---- C10: spec/Faults.tla

var (
	faultWorldOnce sync.Once
	faultWorld     *opdrv.WorldJSON
	FaultWorldPath = "world.json"
)

func cred(kind string) M {
	switch kind {
	case "basic":
		return M{"kind": "basic", "secret": "right", "key": "none", "alias": ""}
	case "post":
		return M{"kind": "post", "secret": "right", "key": "none", "alias": ""}
	case "assertion":
		return M{"kind": "assertion", "secret": "none", "key": "own", "alias": ""}
	}
	return M{"kind": "none", "secret": "none", "key": "none", "alias": ""}
}

var credOf = map[string]string{"cw": "basic", "cx": "post", "cp": "none", "cj": "assertion", "cs": "basic", "cd": "basic", "cn": "basic"}
var uriOf = map[string]string{"cw": "ucw", "cx": "ucx", "cp": "ucp", "cj": "ucj", "cn": "ucn"}

type flowPlan struct {
	prep  func(d *opdrv.Driver) M // runs the preparing operations, returns the arguments of the faulted operation
	op    string
	class string // class of the fault-free answer
}

func loginFlow(d *opdrv.Driver, client, rtype, rmode string, scopes []string) string {
	chall := "none"
	if client == "cp" {
		chall = "s256:v1"
	}
	out := d.Exec("Authorize", M{"client": client, "uri": uriOf[client], "rtype": rtype, "rmode": rmode, "scopes": scopes, "chall": chall, "state": "st1", "nonce": "n1"})
	req := S(out, "req")
	d.Exec("Login", M{"req": req, "user": "u1"})
	return req
}

func codeFor(d *opdrv.Driver, client string) (code string) {
	req := loginFlow(d, client, "code", "", []string{"openid", "email", "offline_access"})
	return S(d.Exec("Callback", M{"req": req}), "code")
}

// tokensFor runs a complete code flow and returns the names of the access, refresh and id token.
func tokensFor(d *opdrv.Driver, client string) (at, rt, idt string) {
	code := codeFor(d, client)
	ver := "none"
	if client == "cp" {
		ver = "v1"
	}
	out := d.Exec("CodeExchange", M{"caller": client, "cred": cred(credOf[client]), "code": code, "uri": uriOf[client], "verifier": ver})
	return S(Sub(out, "at"), "name"), S(Sub(out, "rt"), "name"), S(Sub(out, "idt"), "name")
}

func noRef() M { return M{"kind": "none", "form": "none", "id": "none", "declared": "none"} }

var flowPlans = map[string]flowPlan{
	"authorize": {op: "Authorize", class: "login", prep: func(d *opdrv.Driver) M {
		return M{"client": "cw", "uri": "ucw", "rtype": "code", "rmode": "", "scopes": []string{"openid"}, "chall": "none", "state": "st1", "nonce": "n1"}
	}},
	// a request whose redirect URI is NOT registered: whatever fails, the answer is never a redirect to it
	"authorizeUnregistered": {op: "Authorize", class: "refusal", prep: func(d *opdrv.Driver) M {
		return M{"client": "cw", "uri": "evil", "rtype": "code", "rmode": "", "scopes": []string{"openid"}, "chall": "none", "state": "st1", "nonce": "n1"}
	}},
	"authorizeHint": {op: "Authorize", class: "login", prep: func(d *opdrv.Driver) M {
		_, _, idt := tokensFor(d, "cw")
		return M{"client": "cw", "uri": "ucw", "rtype": "code", "rmode": "", "scopes": []string{"openid"}, "chall": "none", "state": "st1", "nonce": "n1", "hint": M{"kind": "valid", "id": idt}}
	}},
	"callbackCode": {op: "Callback", class: "code", prep: func(d *opdrv.Driver) M {
		return M{"req": loginFlow(d, "cw", "code", "", []string{"openid", "email"})}
	}},
	"callbackFormPost": {op: "Callback", class: "code", prep: func(d *opdrv.Driver) M {
		return M{"req": loginFlow(d, "cw", "code", "form_post", []string{"openid", "email"})}
	}},
	"callbackImplicit": {op: "Callback", class: "tokens", prep: func(d *opdrv.Driver) M {
		return M{"req": loginFlow(d, "cx", "id_token token", "", []string{"openid", "email"})}
	}},
	"callbackIDToken": {op: "Callback", class: "tokens", prep: func(d *opdrv.Driver) M {
		return M{"req": loginFlow(d, "cx", "id_token", "", []string{"openid", "email", "profile"})}
	}},
	"codeExchange": {op: "CodeExchange", class: "tokens", prep: func(d *opdrv.Driver) M {
		return M{"caller": "cw", "cred": cred("basic"), "code": codeFor(d, "cw"), "uri": "ucw", "verifier": "none"}
	}},
	"codeExchangeJWT": {op: "CodeExchange", class: "tokens", prep: func(d *opdrv.Driver) M {
		return M{"caller": "cx", "cred": cred("post"), "code": codeFor(d, "cx"), "uri": "ucx", "verifier": "none"}
	}},
	"codeExchangePKJWT": {op: "CodeExchange", class: "tokens", prep: func(d *opdrv.Driver) M {
		return M{"caller": "cj", "cred": cred("assertion"), "code": codeFor(d, "cj"), "uri": "ucj", "verifier": "none"}
	}},
	"refresh": {op: "Refresh", class: "tokens", prep: func(d *opdrv.Driver) M {
		_, rt, _ := tokensFor(d, "cw")
		return M{"caller": "cw", "cred": cred("basic"), "rt": rt, "scopes": []string{}}
	}},
	"refreshJWT": {op: "Refresh", class: "tokens", prep: func(d *opdrv.Driver) M {
		_, rt, _ := tokensFor(d, "cx")
		return M{"caller": "cx", "cred": cred("post"), "rt": rt, "scopes": []string{"openid"}}
	}},
	"clientCreds": {op: "ClientCreds", class: "tokens", prep: func(d *opdrv.Driver) M {
		return M{"caller": "cs", "cred": cred("basic"), "scopes": []string{"api"}}
	}},
	"jwtBearer": {op: "JWTBearer", class: "tokens", prep: func(d *opdrv.Driver) M {
		return M{"iss": "cj", "key": "own", "scopes": []string{"openid"}}
	}},
	"exchangeAccess": {op: "TokenExchange", class: "tokens", prep: func(d *opdrv.Driver) M {
		at, _, _ := tokensFor(d, "cw")
		return M{"caller": "cw", "cred": cred("basic"), "subj": M{"kind": "access", "form": "issued", "id": at, "declared": "access"}, "actor": noRef(), "requested": "access", "scopes": []string{"openid"}}
	}},
	"exchangeJWT": {op: "TokenExchange", class: "tokens", prep: func(d *opdrv.Driver) M {
		// the exchanging client gets JWT access tokens (private claims of the exchange are read from the storage)
		at, _, _ := tokensFor(d, "cw")
		return M{"caller": "cs", "cred": cred("basic"), "subj": M{"kind": "access", "form": "issued", "id": at, "declared": "access"}, "actor": noRef(), "requested": "access", "scopes": []string{"openid"}}
	}},
	"exchangeRefresh": {op: "TokenExchange", class: "tokens", prep: func(d *opdrv.Driver) M {
		_, rt, _ := tokensFor(d, "cw")
		return M{"caller": "cw", "cred": cred("basic"), "subj": M{"kind": "refresh", "form": "issued", "id": rt, "declared": "refresh"}, "actor": noRef(), "requested": "refresh", "scopes": []string{"openid"}}
	}},
	"exchangeID": {op: "TokenExchange", class: "tokens", prep: func(d *opdrv.Driver) M {
		_, _, idt := tokensFor(d, "cw")
		return M{"caller": "cw", "cred": cred("basic"), "subj": M{"kind": "id", "form": "valid", "id": idt, "declared": "id"}, "actor": noRef(), "requested": "id", "scopes": []string{"openid"}}
	}},
	"exchangeActor": {op: "TokenExchange", class: "tokens", prep: func(d *opdrv.Driver) M {
		at, _, _ := tokensFor(d, "cw")
		at2, _, _ := tokensFor(d, "cx")
		return M{"caller": "cw", "cred": cred("basic"), "subj": M{"kind": "access", "form": "issued", "id": at, "declared": "access"},
			"actor": M{"kind": "access", "form": "issued", "id": at2, "declared": "access"}, "requested": "access", "scopes": []string{"openid"}}
	}},
	"deviceAuthorize": {op: "DeviceAuthorize", class: "device", prep: func(d *opdrv.Driver) M {
		return M{"caller": "cd", "cred": cred("basic"), "scopes": []string{"openid"}}
	}},
	"pollApproved": {op: "Poll", class: "tokens", prep: func(d *opdrv.Driver) M {
		dc := S(d.Exec("DeviceAuthorize", M{"caller": "cn", "cred": cred("basic"), "scopes": []string{"openid", "offline_access"}}), "dc")
		d.Exec("Approve", M{"dc": dc, "user": "u1"})
		return M{"caller": "cn", "cred": cred("basic"), "dc": dc, "slow": false}
	}},
	"pollPending": {op: "Poll", class: "json", prep: func(d *opdrv.Driver) M {
		dc := S(d.Exec("DeviceAuthorize", M{"caller": "cd", "cred": cred("basic"), "scopes": []string{"openid"}}), "dc")
		return M{"caller": "cd", "cred": cred("basic"), "dc": dc, "slow": false}
	}},
	"userinfoOpaque": {op: "UserInfo", class: "claims", prep: func(d *opdrv.Driver) M {
		at, _, _ := tokensFor(d, "cw")
		return M{"tok": M{"form": "issued", "id": at}}
	}},
	"userinfoJWT": {op: "UserInfo", class: "claims", prep: func(d *opdrv.Driver) M {
		at, _, _ := tokensFor(d, "cx")
		return M{"tok": M{"form": "issued", "id": at}}
	}},
	"introspectOpaque": {op: "Introspect", class: "active", prep: func(d *opdrv.Driver) M {
		at, _, _ := tokensFor(d, "cw")
		return M{"caller": "cw", "cred": cred("basic"), "tok": M{"form": "issued", "id": at}}
	}},
	"introspectJWT": {op: "Introspect", class: "active", prep: func(d *opdrv.Driver) M {
		// a client with JWT access tokens that is in the audience of its own tokens (cx's are meant for two resource servers)
		at, _, _ := tokensFor(d, "cj")
		return M{"caller": "cj", "cred": cred("assertion"), "tok": M{"form": "issued", "id": at}}
	}},
	"revokeOpaque": {op: "Revoke", class: "ok200", prep: func(d *opdrv.Driver) M {
		at, _, _ := tokensFor(d, "cw")
		return M{"caller": "cw", "cred": cred("basic"), "kind": "at", "tok": M{"form": "issued", "id": at}, "hint": "none"}
	}},
	"revokeJWT": {op: "Revoke", class: "ok200", prep: func(d *opdrv.Driver) M {
		at, _, _ := tokensFor(d, "cx")
		return M{"caller": "cx", "cred": cred("post"), "kind": "at", "tok": M{"form": "issued", "id": at}, "hint": "access_token"}
	}},
	"revokeRefresh": {op: "Revoke", class: "ok200", prep: func(d *opdrv.Driver) M {
		_, rt, _ := tokensFor(d, "cw")
		return M{"caller": "cw", "cred": cred("basic"), "kind": "rt", "tok": M{"form": "issued", "id": rt}, "hint": "refresh_token"}
	}},
	"endSession": {op: "EndSession", class: "redirect", prep: func(d *opdrv.Driver) M {
		_, _, idt := tokensFor(d, "cw")
		return M{"hint": M{"kind": "valid", "id": idt}, "client": "", "uri": "plcw", "state": "ls1", "host": "A"}
	}},
	"endSessionNoHint": {op: "EndSession", class: "redirect", prep: func(d *opdrv.Driver) M {
		return M{"hint": M{"kind": "none", "id": "none"}, "client": "cw", "uri": "plcw", "state": "", "host": "A"}
	}},
}

func FaultCase(c *Case) M {
	faultWorldOnce.Do(func() {
		w, err := opdrv.LoadWorld(FaultWorldPath)
		if err != nil {
			panic(err)
		}
		faultWorld = w
	})
	plan, ok := flowPlans[S(c.C, "flow")]
	if !ok {
		panic("harness: unknown flow " + S(c.C, "flow"))
	}
	d := opdrv.NewDriver(faultWorld, opdrv.DefaultCfg(S(c.C, "router")))
	args := plan.prep(d)
	if args == nil {
		return M{"faulted": false, "class": "prepfail", "status": 0, "sameTarget": false, "code": false, "tokens": false, "claims": false, "active": false, "device": false}
	}
	for _, v := range args {
		if s, ok := v.(string); ok && (s == "none" || s == "") {
			_ = s
		}
	}
	args["faultAt"] = I(c.C, "k")
	args["faultKind"] = S(c.C, "fkind")
	out := d.Exec(plan.op, args)
	raw := d.LastRaw
	o := M{"faulted": B(out, "faulted"), "class": S(out, "class"), "status": I(out, "status"), "sameTarget": false,
		"code": S(out, "code") != "none", "tokens": false, "claims": S(out, "class") == "claims", "active": S(out, "class") == "active",
		"device": S(out, "class") == "device", "expected": plan.class, "journal": out["journal"], "faultedCall": S(out, "faultedCall")}
	if raw != nil {
		body, loc := raw.Body, raw.Location
		for _, needle := range []string{`"access_token"`, `"id_token"`, `"refresh_token"`, `name="access_token"`, `name="id_token"`, `name="code"`} {
			if strings.Contains(body, needle) {
				o["tokens"] = true
			}
		}
		if strings.Contains(body, `"device_code"`) {
			o["device"] = true
		}
		if strings.Contains(body, `"active":true`) {
			o["active"] = true
		}
		for _, needle := range []string{"access_token=", "id_token=", "code="} {
			if strings.Contains(loc, needle) {
				o["tokens"] = true
			}
		}
		if plan.op == "UserInfo" && strings.Contains(body, `"sub"`) {
			o["claims"] = true
		}
		o["statusRaw"] = raw.Status
	}
	for _, k := range []string{"at", "rt", "idt"} {
		if n := S(Sub(out, k), "name"); n != "none" && n != "" {
			o["tokens"] = true
		}
	}
	if S(out, "class") == "redirErr" {
		// the error redirect goes to the redirect URI of the (already validated) request
		want := ""
		if u, ok := args["uri"].(string); ok {
			want = u
		} else if plan.op == "Callback" {
			want = map[string]string{"callbackCode": "ucw", "callbackFormPost": "ucw", "callbackImplicit": "ucx", "callbackIDToken": "ucx"}[S(c.C, "flow")]
		}
		o["sameTarget"] = S(out, "target") == want
	}
	if plan.class == "refusal" {
		// the fault-free answer is an error page / error document; an error redirect is judged by sameTarget = FALSE below
		if cl := S(out, "class"); !B(out, "faulted") && cl != "page" && cl != "json" {
			o["class"], o["got"] = "prepfail", cl
		}
		if S(out, "class") == "redirErr" {
			o["sameTarget"] = false
		}
		return o
	}
	if !B(out, "faulted") && !B(out, "signalled") && S(out, "class") != plan.class {
		// the fault-free run of a prepared flow must succeed; otherwise the sweep proves nothing
		o["class"] = "prepfail"
		o["got"] = S(out, "class")
	}
	return o
}
