package tbldrv

import (
	"encoding/base64"
	"encoding/json"
	"net/http"
	"net/http/httptest"
	"net/url"
	"strings"
	"time"

	jose "github.com/go-jose/go-jose/v4"

	"verif/harness/modelstore"
	"verif/harness/opdrv"

	"github.com/zitadel/oidc/v3/pkg/op"
)

// ---- C02: spec/KeyWiring.tla

func KeyWiringCase(c *Case) M {
	cs := c.C
	discWorldOnce.Do(func() {
		w, err := opdrv.LoadWorld(DiscWorldPath)
		if err != nil {
			panic(err)
		}
		discWorld = w
	})
	storageKey := opdrv.SigningKeyFor("ES256")
	atKey := modelstore.GenKey("c02-wiring-at", jose.ES256)
	hintKey := modelstore.GenKey("c02-wiring-hint", jose.ES256)
	foreign := modelstore.GenKey("c02-wiring-foreign", jose.ES256)
	store := modelstore.New(opdrv.BuildRegs(discWorld), storageKey)
	opts := []op.Option{}
	switch S(cs, "opts") {
	case "at":
		opts = append(opts, op.WithAccessTokenKeySet(staticKeys{atKey.Pub}))
	case "hint":
		opts = append(opts, op.WithIDTokenHintKeySet(staticKeys{hintKey.Pub}))
	case "both":
		opts = append(opts, op.WithAccessTokenKeySet(staticKeys{atKey.Pub}), op.WithIDTokenHintKeySet(staticKeys{hintKey.Pub}))
	}
	h, _, err := opdrv.BuildProvider(store, opdrv.DefaultCfg(S(cs, "router")), opts...)
	if err != nil {
		panic(err)
	}
	signer := map[string]*modelstore.SignKey{"storage": storageKey, "atKey": atKey, "hintKey": hintKey, "foreign": foreign}[S(cs, "by")]
	o := M{"v": "reject"}
	p := CatchPanic(func() {
		// a live JWT access token of client cs (client credentials) - its claims are re-signed by the case's key
		form := url.Values{"grant_type": {"client_credentials"}, "scope": {"api"}}
		req := httptest.NewRequest(http.MethodPost, opdrv.Issuer+"/oauth/token", strings.NewReader(form.Encode()))
		req.Header.Set("Content-Type", "application/x-www-form-urlencoded")
		req.SetBasicAuth("cs", opdrv.Secret("cs"))
		r := opdrv.Serve(h, req)
		var tr struct {
			AccessToken string `json:"access_token"`
		}
		json.Unmarshal([]byte(r.Body), &tr)
		parts := strings.Split(tr.AccessToken, ".")
		if len(parts) != 3 {
			panic("harness: no JWT access token: " + r.Body)
		}
		payload, _ := base64.RawURLEncoding.DecodeString(parts[1])
		resign := func(pl []byte) string {
			h64 := seg(`{"alg":"ES256","kid":"` + storageKey.KID + `","typ":"JWT"}`)
			p64 := b64.EncodeToString(pl)
			return h64 + "." + p64 + "." + b64.EncodeToString(rawSign("ES256", signer, []byte(h64+"."+p64)))
		}
		if S(cs, "kind") == "at" {
			req := httptest.NewRequest(http.MethodGet, opdrv.Issuer+"/userinfo", nil)
			req.Header.Set("Authorization", "Bearer "+resign(payload))
			r := opdrv.Serve(h, req)
			if r.Panic != "" {
				panic(r.Panic)
			}
			// 401 = the token was not believed; anything else means the verifier accepted it and handed the id to the storage
			if r.Status != http.StatusUnauthorized {
				o["v"] = "accept"
			}
			o["status"] = r.Status
			return
		}
		now := time.Now()
		hint, _ := json.Marshal(M{"iss": opdrv.Issuer, "sub": "u1", "aud": []string{"cw"}, "azp": "cw", "iat": now.Unix() - 5, "exp": now.Unix() + 3600})
		q := url.Values{"id_token_hint": {resign(hint)}}
		r = opdrv.Serve(h, httptest.NewRequest(http.MethodGet, opdrv.Issuer+"/end_session?"+q.Encode(), nil))
		if r.Panic != "" {
			panic(r.Panic)
		}
		if r.Status == http.StatusFound {
			o["v"] = "accept"
		}
		o["status"] = r.Status
	})
	if strings.HasPrefix(p, "harness:") {
		panic(p)
	}
	if p != "" {
		o["v"], o["detail"] = "panic", p
	}
	return o
}
