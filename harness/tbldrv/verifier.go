package tbldrv

import (
	"bytes"
	"context"
	"crypto/sha256"
	"crypto/sha512"
	"encoding/base64"
	"encoding/json"
	"errors"
	"hash"
	"io"
	"net/http"
	"reflect"
	"strings"
	"time"

	jose "github.com/go-jose/go-jose/v4"

	"verif/harness/modelstore"

	"github.com/zitadel/oidc/v3/pkg/client/rp"
	"github.com/zitadel/oidc/v3/pkg/oidc"
)

// ---- C01: spec/Verifier.tla

const (
	vIssuer   = "https://issuer.example.test"
	vClientID = "cid"
	absent    = -999999
)

// docTransport serves fixed documents by URL path.
type docTransport map[string][]byte

func (t docTransport) RoundTrip(r *http.Request) (*http.Response, error) {
	b, ok := t[r.URL.Path]
	if !ok {
		return &http.Response{StatusCode: 404, Body: io.NopCloser(strings.NewReader("not found")), Request: r, Header: http.Header{}}, nil
	}
	return &http.Response{StatusCode: 200, Header: http.Header{"Content-Type": {"application/json"}}, Body: io.NopCloser(bytes.NewReader(b)), Request: r}, nil
}

type staticKeys struct{ pub any }

func (s staticKeys) VerifySignature(ctx context.Context, jws *jose.JSONWebSignature) ([]byte, error) {
	return jws.Verify(s.pub)
}

func audValue(a string) any {
	switch a {
	case "cid":
		return []string{"cid"}
	case "cidstr":
		return "cid"
	case "none":
		return nil
	case "other":
		return []string{"other"}
	case "cid+other":
		return []string{"cid", "other"}
	case "other+cid":
		return []string{"other", "cid"}
	}
	return []string{"other", "other2"}
}

// halfHash is the harness' own at_hash computation (independent of oidc.ClaimHash).
func halfHash(s string, h hash.Hash) string {
	h.Write([]byte(s))
	sum := h.Sum(nil)
	return base64.RawURLEncoding.EncodeToString(sum[:len(sum)/2])
}

func hashFor(alg string, wrong bool) hash.Hash {
	switch alg {
	case "ES384", "RS384", "PS384":
		if wrong {
			return sha256.New()
		}
		return sha512.New384()
	case "EdDSA", "ES512", "RS512", "PS512":
		if wrong {
			return sha256.New()
		}
		return sha512.New()
	}
	if wrong {
		return sha512.New()
	}
	return sha256.New()
}

func signJWT(payload []byte, key *modelstore.SignKey, kid string) string {
	signer, err := jose.NewSigner(jose.SigningKey{Algorithm: key.Alg, Key: key.Priv},
		(&jose.SignerOptions{}).WithType("JWT").WithHeader("kid", kid))
	if err != nil {
		panic(err)
	}
	jws, err := signer.Sign(payload)
	if err != nil {
		panic(err)
	}
	s, err := jws.CompactSerialize()
	if err != nil {
		panic(err)
	}
	return s
}

func VerifierCase(c *Case) M {
	t, cfg := Sub(c.C, "tok"), Sub(c.C, "cfg")
	alg := S(t, "alg")
	trusted := modelstore.GenKey("rp-trusted", jose.SignatureAlgorithm(alg))
	signKey := trusted
	if S(t, "sig") == "foreign" {
		signKey = modelstore.GenKey("rp-foreign", jose.SignatureAlgorithm(alg))
	}
	const accessToken, otherAccessToken = "access-token-AAAA.bbbb", "another-access-token"
	now := time.Now()
	claims := M{}
	switch S(t, "iss") {
	case "ok":
		claims["iss"] = vIssuer
	case "other":
		claims["iss"] = "https://other-issuer.example.test"
	}
	if S(t, "sub") == "present" {
		claims["sub"] = "user-1"
	}
	if a := audValue(S(t, "aud")); a != nil {
		claims["aud"] = a
	}
	switch S(t, "azp") {
	case "cid":
		claims["azp"] = vClientID
	case "other":
		claims["azp"] = "other"
	}
	for _, f := range [][2]string{{"exp", "exp"}, {"iat", "iat"}, {"auth", "auth_time"}} {
		if off := I(t, f[0]); off != absent {
			claims[f[1]] = now.Unix() + int64(off)
		}
	}
	switch S(t, "nonce") {
	case "n1":
		claims["nonce"] = "n1"
	case "other":
		claims["nonce"] = "some-other-nonce"
	}
	switch S(t, "acr") {
	case "allowed":
		claims["acr"] = "urn:acr:allowed"
	case "other":
		claims["acr"] = "urn:acr:other"
	}
	switch S(t, "athash") {
	case "correct":
		claims["at_hash"] = halfHash(accessToken, hashFor(alg, false))
	case "ofOther":
		claims["at_hash"] = halfHash(otherAccessToken, hashFor(alg, false))
	case "wrongSize":
		claims["at_hash"] = halfHash(accessToken, hashFor(alg, true))
	}
	switch S(t, "cidclaim") {
	case "cid":
		claims["client_id"] = vClientID
	case "other":
		claims["client_id"] = "other"
	}
	claims["custom_claim"] = M{"k": []any{"v", 1.0}}
	payload, _ := json.Marshal(claims)
	token := signJWT(payload, signKey, "rp-trusted")

	opts := []rp.VerifierOption{
		rp.WithIssuedAtOffset(time.Duration(I(cfg, "offset")) * time.Second),
		rp.WithIssuedAtMaxAge(time.Duration(I(cfg, "maxIAT")) * time.Second),
		rp.WithAuthTimeMaxAge(time.Duration(I(cfg, "maxAge")) * time.Second),
	}
	switch S(cfg, "nonce") {
	case "n1":
		opts = append(opts, rp.WithNonce(func(context.Context) string { return "n1" }))
	case "nil":
		opts = append(opts, rp.WithNonce(nil))
	}
	if S(cfg, "acr") == "allowed" {
		opts = append(opts, rp.WithACRVerifier(oidc.DefaultACRVerifier([]string{"urn:acr:allowed"})))
	}
	opts = append(opts, rp.WithSupportedSigningAlgorithms(alg)) // last: the relying-party path takes the algorithms from discovery instead
	v := rp.NewIDTokenVerifier(vIssuer, vClientID, staticKeys{trusted.Pub}, opts...)
	var party rp.RelyingParty
	var docs docTransport
	if S(cfg, "via") != "direct" {
		// the verifier a relying party builds for itself: options handed over with WithVerifierOpts, algorithms taken from discovery
		jw, _ := json.Marshal(jose.JSONWebKeySet{Keys: []jose.JSONWebKey{{Key: trusted.Pub, KeyID: "rp-trusted", Use: "sig"}}})
		disc, _ := json.Marshal(M{"issuer": vIssuer, "authorization_endpoint": vIssuer + "/authorize", "token_endpoint": vIssuer + "/token", "jwks_uri": vIssuer + "/keys",
			"id_token_signing_alg_values_supported": []string{alg}})
		tokenResp, _ := json.Marshal(M{"access_token": accessToken, "token_type": "Bearer", "expires_in": 3600, "refresh_token": "next-refresh-token", "id_token": token})
		docs = docTransport{"/.well-known/openid-configuration": disc, "/keys": jw, "/token": tokenResp}
		hc := &http.Client{Transport: docs}
		var err error
		configured := vIssuer
		if S(cfg, "via") == "rpOIDCslash" {
			configured = vIssuer + "/"
		}
		party, err = rp.NewRelyingPartyOIDC(context.Background(), configured, vClientID, "", "https://rp.example.test/cb", []string{"openid"},
			rp.WithHTTPClient(hc), rp.WithVerifierOpts(opts[:len(opts)-1]...), rp.WithSigningAlgsFromDiscovery())
		if err != nil && S(cfg, "via") == "rpOIDCslash" {
			// the provider states another issuer than the configured one: no relying party, nothing is accepted
			return M{"v": "reject", "claimsOK": true, "err": "construction:" + errClass(err)}
		}
		if err != nil {
			panic("harness: " + err.Error())
		}
		v = party.IDTokenVerifier()
	}

	o := M{"v": "reject", "claimsOK": true}
	var got *oidc.IDTokenClaims
	var err error
	if S(cfg, "prior") == "sameIDT" {
		// the same ID token has just been verified by the same verifier / relying party, next to the access token its at_hash names
		priorAT := accessToken
		if S(t, "athash") == "ofOther" {
			priorAT = otherAccessToken
		}
		if pp := CatchPanic(func() {
			switch S(cfg, "via") {
			case "rpRefresh", "rpExchange":
				observed := docs["/token"]
				docs["/token"], _ = json.Marshal(M{"access_token": priorAT, "token_type": "Bearer", "expires_in": 3600, "refresh_token": "next-refresh-token", "id_token": token})
				if S(cfg, "via") == "rpRefresh" {
					rp.RefreshTokens[*oidc.IDTokenClaims](context.Background(), party, "refresh-token-0", "", "")
				} else {
					rp.CodeExchange[*oidc.IDTokenClaims](context.Background(), "code-0", party)
				}
				docs["/token"] = observed
			default:
				rp.VerifyTokens[*oidc.IDTokenClaims](context.Background(), priorAT, token, v)
			}
		}); pp != "" {
			return M{"v": "panic", "claimsOK": true, "detail": "prior call: " + pp}
		}
	}
	p := CatchPanic(func() {
		switch S(cfg, "via") {
		case "rpRefresh":
			var toks *oidc.Tokens[*oidc.IDTokenClaims]
			if toks, err = rp.RefreshTokens[*oidc.IDTokenClaims](context.Background(), party, "refresh-token", "", ""); err == nil {
				got = toks.IDTokenClaims
			}
			return
		case "rpExchange":
			var toks *oidc.Tokens[*oidc.IDTokenClaims]
			if toks, err = rp.CodeExchange[*oidc.IDTokenClaims](context.Background(), "code", party); err == nil {
				got = toks.IDTokenClaims
			}
			return
		}
		if B(t, "withAT") {
			got, err = rp.VerifyTokens[*oidc.IDTokenClaims](context.Background(), accessToken, token, v)
		} else {
			got, err = rp.VerifyIDToken[*oidc.IDTokenClaims](context.Background(), token, v)
		}
	})
	switch {
	case p != "":
		o["v"], o["detail"] = "panic", p
	case err != nil:
		o["err"] = errClass(err)
	default:
		o["v"] = "accept"
		o["claimsOK"] = claimsUnchanged(got, claims)
	}
	return o
}

func errClass(err error) string {
	for name, e := range map[string]error{"subject": oidc.ErrSubjectMissing, "issuer": oidc.ErrIssuerInvalid, "audience": oidc.ErrAudience,
		"azpMissing": oidc.ErrAzpMissing, "azpInvalid": oidc.ErrAzpInvalid, "signature": oidc.ErrSignatureInvalid, "expired": oidc.ErrExpired,
		"iatMissing": oidc.ErrIatMissing, "iatFuture": oidc.ErrIatInFuture, "iatOld": oidc.ErrIatToOld, "nonce": oidc.ErrNonceInvalid,
		"acr": oidc.ErrAcrInvalid, "authTimeMissing": oidc.ErrAuthTimeNotPresent, "authTimeOld": oidc.ErrAuthTimeToOld, "athash": oidc.ErrAtHash,
		"alg": oidc.ErrSignatureUnsupportedAlg, "parse": oidc.ErrParse} {
		if errors.Is(err, e) {
			return name
		}
	}
	return "other:" + err.Error()
}

// claimsUnchanged: the returned claims, marshalled again, carry every signed claim with the signed value.
func claimsUnchanged(got *oidc.IDTokenClaims, signed M) bool {
	if got == nil {
		return false
	}
	b, err := json.Marshal(got)
	if err != nil {
		return false
	}
	var back M
	if json.Unmarshal(b, &back) != nil {
		return false
	}
	norm := func(v any) any {
		b, _ := json.Marshal(v)
		var x any
		json.Unmarshal(b, &x)
		if s, ok := x.(string); ok {
			return []any{s}
		}
		return x
	}
	for k, v := range signed {
		w, ok := back[k]
		if !ok {
			return false
		}
		if k == "aud" {
			if !reflect.DeepEqual(norm(v), norm(w)) {
				return false
			}
			continue
		}
		if !reflect.DeepEqual(norm(v), norm(w)) && !reflect.DeepEqual(mustJSON(v), mustJSON(w)) {
			return false
		}
	}
	return true
}

func mustJSON(v any) any {
	b, _ := json.Marshal(v)
	var x any
	json.Unmarshal(b, &x)
	return x
}
