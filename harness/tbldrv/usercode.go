package tbldrv

import (
	"encoding/base64"
	"encoding/json"
	"net/http"
	"net/url"
	"strings"
	"sync"
	"time"

	"verif/harness/modelstore"
	"verif/harness/opdrv"

	"github.com/zitadel/oidc/v3/pkg/op"
)

// ---- C16: spec/UserCode.tla

var charSets = map[string]string{"base20": op.CharSetBase20, "digits": op.CharSetDigits, "single": "X", "nonascii": "äöüßéñ漢字"}

var ucWorldOnce sync.Once
var ucWorld *opdrv.WorldJSON

func UserCodeCase(c *Case) M {
	cs := c.C
	alphabet := []rune(charSets[S(cs, "charset")])
	amount, interval := I(cs, "amount"), I(cs, "interval")
	o := M{"ok": false, "panic": false, "len": 0, "dashes": []int{}, "alphabetOK": true, "distinct": true, "deviceBits": 0, "uriOK": true, "completeOK": true, "expires": 0, "interval": 0}
	inAlphabet := func(r rune) bool {
		for _, a := range alphabet {
			if a == r {
				return true
			}
		}
		return false
	}
	first := true
	judge := func(code string) {
		rs := []rune(code)
		dashes := []int{}
		for i, r := range rs {
			if r == '-' {
				dashes = append(dashes, i)
			} else if !inAlphabet(r) {
				o["alphabetOK"] = false
			}
		}
		if first {
			o["len"], o["dashes"] = len(rs), dashes
			first = false
			return
		}
		// every further code must have the same shape
		prev, _ := json.Marshal(o["dashes"])
		cur, _ := json.Marshal(dashes)
		if len(rs) != o["len"].(int) || string(prev) != string(cur) {
			o["len"] = -1
		}
	}
	p := CatchPanic(func() {
		if S(cs, "via") == "func" {
			for i := 0; i < 40; i++ {
				code, err := op.NewUserCode(alphabet, amount, interval)
				if err != nil {
					return
				}
				judge(code)
			}
			o["ok"] = true
			return
		}
		ucWorldOnce.Do(func() {
			w, err := opdrv.LoadWorld(DiscWorldPath)
			if err != nil {
				panic(err)
			}
			ucWorld = w
		})
		store := modelstore.New(opdrv.BuildRegs(ucWorld), opdrv.SigningKeyFor("ES256"))
		formURI := opdrv.Issuer + "/device/form"
		conf := &op.Config{CryptoKey: opdrv.CryptoKey, DeviceAuthorization: op.DeviceAuthorizationConfig{
			Lifetime: time.Duration(I(cs, "lifetime")) * time.Second, PollInterval: time.Duration(I(cs, "poll")) * time.Second, UserFormPath: "/device/form",
			UserCode: op.UserCodeConfig{CharSet: string(alphabet), CharAmount: amount, DashInterval: interval}}}
		if S(cs, "form") == "pathNoSlash" {
			conf.DeviceAuthorization.UserFormPath = "device/form" // the verification URI is still <issuer>/device/form
		}
		if S(cs, "form") == "url" {
			formURI = "https://login.example.test/device/enter"
			conf.DeviceAuthorization.UserFormPath, conf.DeviceAuthorization.UserFormURL = "", formURI
		}
		prov, err := op.NewProvider(conf, modelstore.WithCaps(store, true, true, true), op.StaticIssuer(opdrv.Issuer))
		if err != nil {
			panic("harness: " + err.Error())
		}
		var h http.Handler = prov
		if S(cs, "via") == "L" {
			h = op.RegisterLegacyServer(op.NewLegacyServer(prov, *op.DefaultEndpoints), op.AuthorizeCallbackHandler(prov))
		}
		seen := map[string]bool{}
		for i := 0; i < 40; i++ {
			r := postForm2(h, "/device_authorization", url.Values{"scope": {"openid"}}, "cd")
			var resp struct {
				DeviceCode string `json:"device_code"`
				UserCode   string `json:"user_code"`
				URI        string `json:"verification_uri"`
				Complete   string `json:"verification_uri_complete"`
				ExpiresIn  int    `json:"expires_in"`
				Interval   int    `json:"interval"`
			}
			if i > 0 && strings.Contains(r.Body, "user code already exists") {
				break // tiny code spaces (one or two characters) collide in the harness store: not an answer of the provider under test
			}
			if r.Status != 200 || json.Unmarshal([]byte(r.Body), &resp) != nil {
				o["detail"] = r.Body
				return
			}
			judge(resp.UserCode)
			if seen[resp.DeviceCode] {
				o["distinct"] = false
			}
			seen[resp.DeviceCode] = true
			raw, err := base64.RawURLEncoding.DecodeString(resp.DeviceCode)
			if err != nil {
				o["deviceBits"] = 0
			} else if i == 0 || len(raw)*8 < o["deviceBits"].(int) {
				o["deviceBits"] = len(raw) * 8
			}
			if resp.URI != formURI {
				o["uriOK"] = false
			}
			u, err := url.Parse(resp.Complete)
			if err != nil || !strings.HasPrefix(resp.Complete, formURI+"?") || u.Query().Get("user_code") != resp.UserCode {
				o["completeOK"] = false
			}
			o["expires"], o["interval"] = resp.ExpiresIn, resp.Interval
		}
		o["ok"] = true
	})
	if strings.HasPrefix(p, "harness:") {
		panic(p)
	}
	if p != "" {
		o["panic"], o["detail"] = true, p
	}
	return o
}

func postForm2(h http.Handler, path string, form url.Values, client string) *opdrv.RawResponse {
	return isoReq(h, http.MethodPost, path, form, client)
}
