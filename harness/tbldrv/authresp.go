package tbldrv

import (
	"errors"
	"net/http"
	"net/http/httptest"
	"net/url"
	"sort"
	"strconv"
	"strings"
	"sync"
	"time"

	jose "github.com/go-jose/go-jose/v4"
	"golang.org/x/net/html"

	"verif/harness/modelstore"
	"verif/harness/opdrv"

	"github.com/zitadel/oidc/v3/pkg/oidc"
)

// ---- C11: spec/AuthResponse.tla

var classChar = map[string]string{"a": "a", "plus": "+", "slash": "/", "eq": "=", "amp": "&", "pct": "%", "hash": "#", "qmark": "?", "space": " ",
	"dquote": "\"", "squote": "'", "lt": "<", "gt": ">", "semi": ";", "nonascii": "é", "tab": "\t", "pctEnc": "%41", "backslash": "\\"}

func classString(m M, k string) string {
	s := ""
	for _, c := range SS(m, k) {
		s += classChar[c]
	}
	return s
}

var c11URIs = map[string]string{
	"plain":           "https://c11.example.test/cb",
	"withQuery":       "https://c11.example.test/cb?keep=1&x=y",
	"queryPlus":       "https://c11.example.test/cb?x=a+b%2Bc",
	"customScheme":    "com.example.c11:/cb",
	"trailingQ":       "https://c11.example.test/cb?",
	"queryEncodedAmp": "https://c11.example.test/cb?x=a%26b%3Dc&y=%C3%A9",
	"queryMarkup":     `https://c11.example.test/cb?x="><script>alert(1)</script>&y='z'`,
}

type c11World struct {
	store *modelstore.Store
	h     map[string]http.Handler
}

var (
	c11Mu     sync.Mutex
	c11Worlds = map[string]*c11World{}
)

func c11WorldFor(session string) *c11World {
	c11Mu.Lock()
	defer c11Mu.Unlock()
	if w, ok := c11Worlds[session]; ok {
		return w
	}
	// a second client with a redirect URI of its own: its (broken) responses precede the observed one when prior = failedWrite
	other := &modelstore.ClientReg{ID: "c11other", Secret: "secret-c11other", Auth: "basic", App: "web", Grants: []string{"code"}, RTypes: []string{"code"},
		ATType: "opaque", IDTLifetime: time.Hour, URIs: []string{c11OtherURI}}
	reg := &modelstore.ClientReg{ID: "c11", Secret: "secret-c11", Auth: "basic", App: "native", Dev: true, Grants: []string{"code", "implicit", "refresh"},
		RTypes: []string{"code", "id_token", "id_token token"}, ATType: "opaque", IDTLifetime: time.Hour}
	for _, u := range c11URIs {
		reg.URIs = append(reg.URIs, u)
	}
	sort.Strings(reg.URIs)
	store := modelstore.New([]*modelstore.ClientReg{reg, other}, opdrv.SigningKeyFor("ES256"))
	store.PromptNoneLoginRequired = true // a request with prompt=none is refused by the storage (nobody is logged in): login_required
	w := &c11World{store: store, h: map[string]http.Handler{}}
	for _, router := range []string{"P", "L"} {
		cfg := opdrv.DefaultCfg(router)
		cfg.SessSt = session
		h, _, err := opdrv.BuildProvider(store, cfg)
		if err != nil {
			panic(err)
		}
		w.h[router] = h
	}
	c11Worlds[session] = w
	return w
}

var responseNames = map[string]bool{"code": true, "state": true, "session_state": true, "error": true, "error_description": true, "error_uri": true,
	"access_token": true, "id_token": true, "token_type": true, "expires_in": true, "scope": true, "refresh_token": true}

func AuthResponseCase(c *Case) M {
	cs := c.C
	kind, mode, rtype := S(cs, "kind"), S(cs, "mode"), S(cs, "rtype")
	registered := c11URIs[S(cs, "uri")]
	state, session, desc := classString(cs, "state"), classString(cs, "session"), classString(cs, "desc")
	w := c11WorldFor(session)
	out := M{}
	for _, router := range []string{"P", "L"} {
		h := w.h[router]
		if S(cs, "prior") == "failedWrite" {
			for i := 0; i < 3; i++ {
				c11BrokenFormPost(w, h, registered)
			}
		}
		q := url.Values{"client_id": {"c11"}, "redirect_uri": {registered}, "response_type": {rtype}, "nonce": {"n-1"}}
		if state != "" {
			q.Set("state", state)
		}
		if mode != "" {
			q.Set("response_mode", mode)
		}
		if kind != "errAuthorize" {
			q.Set("scope", "openid")
		}
		if kind == "errCreate" {
			q.Set("prompt", "none")
		}
		r := opdrv.Serve(h, httptest.NewRequest(http.MethodGet, opdrv.Issuer+"/authorize?"+q.Encode(), nil))
		if kind != "errAuthorize" && kind != "errCreate" && r.Panic == "" {
			id := strings.TrimPrefix(r.Location, "/login?authRequestID=")
			if r.Status != http.StatusFound || id == r.Location {
				panic("harness: authorize failed for a fitting request: " + strconv.Itoa(r.Status) + " " + r.Body)
			}
			if kind != "errCallback" {
				w.store.Login(id, "u1")
			}
			if kind == "errStorage" {
				if S(cs, "producer") == "oidc" {
					w.store.Refuse(id, &oidc.Error{ErrorType: oidc.AccessDenied, Description: desc})
				} else {
					w.store.Refuse(id, errors.New(desc))
				}
			}
			r = opdrv.Serve(h, httptest.NewRequest(http.MethodGet, opdrv.Issuer+"/authorize/callback?id="+url.QueryEscape(id), nil))
		}
		o := recoverResponse(w, r, registered, state, session, kind+":"+S(cs, "producer"))
		o["desc"] = "absent"
		if got, ok := o["_got"].(url.Values); ok {
			if kind == "errStorage" {
				o["desc"] = intact(got, "error_description", desc)
			}
			if o["desc"] == "changed" {
				o["descGot"] = got.Get("error_description")
			}
		}
		delete(o, "_got")
		out[router] = o
	}
	return out
}

// brokenWriter is a connection that breaks as soon as the body is written.
type brokenWriter struct{ h http.Header }

func (b *brokenWriter) Header() http.Header       { return b.h }
func (b *brokenWriter) WriteHeader(int)           {}
func (b *brokenWriter) Write([]byte) (int, error) { return 0, http.ErrHandlerTimeout }

// c11BrokenFormPost runs a complete form_post code flow of another user agent whose connection breaks while the page is written.
const c11OtherURI = "https://other-c11.example.test/landing"

func c11BrokenFormPost(w *c11World, h http.Handler, registered string) {
	q := url.Values{"client_id": {"c11other"}, "redirect_uri": {c11OtherURI}, "response_type": {"code"}, "nonce": {"n-0"}, "scope": {"openid"},
		"state": {"state-of-the-broken-flow"}, "response_mode": {"form_post"}}
	r := opdrv.Serve(h, httptest.NewRequest(http.MethodGet, opdrv.Issuer+"/authorize?"+q.Encode(), nil))
	id := strings.TrimPrefix(r.Location, "/login?authRequestID=")
	if r.Status != http.StatusFound || id == r.Location {
		panic("harness: authorize failed for a fitting request: " + strconv.Itoa(r.Status) + " " + r.Body)
	}
	w.store.Login(id, "u1")
	func() {
		defer func() { recover() }()
		h.ServeHTTP(&brokenWriter{h: http.Header{}}, httptest.NewRequest(http.MethodGet, opdrv.Issuer+"/authorize/callback?id="+url.QueryEscape(id), nil))
	}()
}

func intact(got url.Values, name, want string) string {
	v, ok := got[name]
	switch {
	case !ok:
		return "absent"
	case len(v) == 1 && v[0] == want:
		return "intact"
	}
	return "changed"
}

// recoverResponse decodes the response as the user agent / the client at the redirect URI would.
func recoverResponse(w *c11World, r *opdrv.RawResponse, registered, state, session, kind string) M {
	o := M{"class": "refused", "channel": "none", "target": "none", "kept": true, "state": "absent", "session": "absent", "params": []string{}, "safe": true, "status": r.Status}
	if r.Panic != "" {
		o["class"], o["detail"] = "panic", r.Panic
		return o
	}
	regBase, regQuery, _ := strings.Cut(registered, "?")
	regParams, _ := url.ParseQuery(regQuery)
	var got url.Values
	var rest url.Values // non-response parameters found in the query of the target
	var base string
	switch {
	case r.Status == http.StatusFound && r.Location != "":
		o["class"] = "response"
		loc, frag, hasFrag := strings.Cut(r.Location, "#")
		b, rawQuery, _ := strings.Cut(loc, "?")
		base = b
		qv, _ := url.ParseQuery(rawQuery)
		fv, _ := url.ParseQuery(frag)
		inFrag := false
		if hasFrag {
			for k := range fv {
				if responseNames[k] {
					inFrag = true
				}
			}
		}
		rest = url.Values{}
		if inFrag {
			o["channel"], got = "fragment", fv
			rest = qv
		} else {
			o["channel"], got = "query", url.Values{}
			for k, v := range qv {
				// a registered parameter may share its name with nothing of the response here (names are disjoint in this model)
				if responseNames[k] {
					got[k] = v
				} else {
					rest[k] = v
				}
			}
		}
	case r.Status == http.StatusOK && strings.Contains(r.Body, "<form"):
		o["class"], o["channel"] = "response", "form"
		action, inputs, safe := parseFormStrict(r.Body)
		o["safe"] = safe
		got = inputs
		b, rawQuery, _ := strings.Cut(action, "?")
		base = b
		rest, _ = url.ParseQuery(rawQuery)
	default:
		return o
	}
	if base == regBase {
		o["target"] = "same"
	} else {
		o["target"] = "other:" + base
	}
	for k, v := range regParams {
		if strings.Join(rest[k], "\x00") != strings.Join(v, "\x00") {
			o["kept"] = false
		}
	}
	if len(rest) != len(regParams) {
		o["kept"] = false
	}
	o["state"] = intact(got, "state", state)
	o["session"] = intact(got, "session_state", session)
	ok := []string{}
	for name, vs := range got {
		if len(vs) != 1 {
			continue
		}
		v := vs[0]
		switch name {
		case "code":
			w.store.Lock()
			_, found := w.store.Codes[v]
			w.store.Unlock()
			if found {
				ok = append(ok, name)
			}
		case "access_token":
			if plain, err := opDecrypt(v); err == nil && strings.Count(plain, ":") == 1 {
				ok = append(ok, name)
			}
		case "id_token":
			if jws, err := jose.ParseSigned(v, []jose.SignatureAlgorithm{jose.ES256}); err == nil {
				if _, err := jws.Verify(w.store.Signing.Pub); err == nil {
					ok = append(ok, name)
				}
			}
		case "token_type":
			if v == "Bearer" {
				ok = append(ok, name)
			}
		case "expires_in":
			if n, err := strconv.Atoi(v); err == nil && n > 0 {
				ok = append(ok, name)
			}
		case "error":
			if (kind == "errCallback:" && v == "interaction_required") || (kind == "errAuthorize:" && v == "invalid_request") || (kind == "errCreate:" && v == "login_required") ||
				(kind == "errStorage:plain" && v == "server_error") || (kind == "errStorage:oidc" && v == "access_denied") {
				ok = append(ok, name)
			}
		}
	}
	sort.Strings(ok)
	o["params"] = ok
	o["_got"] = got
	return o
}

// parseFormStrict parses the form_post page: exactly one form whose only element children are hidden inputs with known names,
// no element other than html/head/meta/body/form/input anywhere (a value that broke out of its attribute would add some).
func parseFormStrict(body string) (action string, inputs url.Values, safe bool) {
	inputs = url.Values{}
	doc, err := html.Parse(strings.NewReader(body))
	if err != nil {
		return "", inputs, false
	}
	safe = true
	forms := 0
	var walk func(*html.Node)
	walk = func(n *html.Node) {
		if n.Type == html.ElementNode {
			switch n.Data {
			case "html", "head", "meta":
			case "body":
				for _, a := range n.Attr {
					if a.Key != "onload" || a.Val != "javascript:document.forms[0].submit()" {
						safe = false
					}
				}
			case "form":
				forms++
				for _, a := range n.Attr {
					switch a.Key {
					case "action":
						if forms == 1 { // the page submits document.forms[0]: where the FIRST form goes is where the response goes
							action = a.Val
						}
					case "method":
					default:
						safe = false
					}
				}
			case "input":
				var name, val, typ string
				for _, a := range n.Attr {
					switch a.Key {
					case "name":
						name = a.Val
					case "value":
						val = a.Val
					case "type":
						typ = a.Val
					default:
						safe = false
					}
				}
				if typ != "hidden" || !responseNames[name] {
					safe = false
				}
				inputs.Add(name, val)
			default:
				safe = false
			}
		}
		for ch := n.FirstChild; ch != nil; ch = ch.NextSibling {
			walk(ch)
		}
	}
	walk(doc)
	if forms != 1 {
		safe = false
	}
	return
}
