#!/bin/sh
# Runs the repository's pinned test suite with the verif build tag OFF and compares with /root/.vp/BASELINE.json:
# every test of stable_pass must pass (network-dependent tests that were never stable offline are ignored).
export GOFLAGS=-mod=mod GOPROXY=off
unset GOTOOLCHAIN GOSUMDB || true
out=$(mktemp)
(cd /repo && go build ./... && go test -json -vet=off -count=1 -timeout 25m ./... > "$out" 2>/dev/null)
python3 - "$out" <<'PY'
import json, sys
res = {}
for line in open(sys.argv[1]):
    try:
        e = json.loads(line)
    except Exception:
        continue
    if e.get("Test") and e.get("Action") in ("pass", "fail", "skip"):
        res[e["Package"] + "::" + e["Test"]] = e["Action"]
base = json.load(open("/root/.vp/BASELINE.json"))["stable_pass"]
bad = [t for t in base if res.get(t) != "pass"]
print(f"baseline (guard off): {len(base) - len(bad)}/{len(base)} stable tests pass")
for t in bad[:40]:
    print("  NOT PASSING:", t, res.get(t))
sys.exit(1 if bad else 0)
PY
rc=$?
rm -f "$out"
exit $rc
