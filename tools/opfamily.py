"""Checks decided by the provider state machine spec/OP.tla (design OPDesign, export OPMBT, monitor OPTrace)."""
import json, os, re, shutil, time, collections
from vlib import *  # noqa

# property -> (family cfg, rule prefixes judged by this check, ops that must have been exercised successfully)
FAMILY = {
    "C09": dict(fam="code", focus="all", prefixes=("C09.",), need=[("CodeExchange", "tokens"), ("CodeExchange", "json"), ("UserInfo", "claims"), ("TokenExchange", "json")]),
    "C11": dict(fam="authorize", focus="authorize", prefixes=("C11.",), need=[("Authorize", "redirErr"), ("Callback", "code"), ("Callback", "tokens"), ("Callback", "redirErr")]),
    "C10": dict(fam="code", focus="faults", prefixes=("C10.",), need=[("CodeExchange", "tokens"), ("CodeExchange", "json"), ("Refresh", "json"), ("UserInfo", "claims")]),
    "C06": dict(fam="issue", prefixes=("C06.",), need=[("Callback", "tokens"), ("CodeExchange", "tokens"), ("Refresh", "tokens"), ("Poll", "tokens"),
                                                      ("ClientCreds", "tokens"), ("JWTBearer", "tokens"), ("TokenExchange", "tokens")]),
    "C03": dict(fam="authorize", prefixes=("C03.",), need=[("Authorize", "login"), ("Authorize", "redirErr"), ("Authorize", "page"), ("Authorize", "json"),
                                                          ("Callback", "code"), ("Callback", "tokens"), ("Callback", "redirErr"), ("Callback", "page")]),
    "C04": dict(fam="code", prefixes=("C04.",), need=[("CodeExchange", "tokens"), ("CodeExchange", "json"), ("Callback", "code")]),
    "C07": dict(fam="refresh", prefixes=("C07.",), need=[("Refresh", "tokens"), ("Refresh", "json")]),
    "C08": dict(fam="tokenuse", prefixes=("C08.",), need=[("UserInfo", "claims"), ("Introspect", "active"), ("Introspect", "inactive"), ("Revoke", "ok200")]),
    "C05": dict(fam="clientauth", prefixes=("C05.",), need=[("ClientCreds", "tokens"), ("Introspect", "active"), ("TokenExchange", "tokens"),
                                                            ("CodeExchange", "tokens"), ("Refresh", "tokens"), ("DeviceAuthorize", "device"), ("Poll", "tokens")]),
    "C15": dict(fam="exchange", prefixes=("C15.",), need=[("TokenExchange", "tokens"), ("TokenExchange", "json")]),
    "C18": dict(fam="logout", prefixes=("C18.",), need=[("EndSession", "redirect"), ("EndSession", "json")]),
    "C16": dict(fam="device", prefixes=("C16.",), need=[("Poll", "tokens"), ("Poll", "json"), ("DeviceAuthorize", "device")]),
}

SIZES = {   # tier -> (mbt walks, mbt depth bonus, random histories, random depth)
    "quick": dict(walks=300, rand_n=150, rand_depth=30, design_suffix=""),
    "thorough": dict(walks=4000, rand_n=3000, rand_depth=40, design_suffix="_thorough"),
}


class LibCrash(Exception):
    """The harness process was killed by a panic / fatal error (stack overflow ...) inside library code: real-code behaviour."""
    def __init__(self, fn, out, stage):
        super().__init__(fn)
        self.fn, self.out, self.stage = fn, out, stage


def crashed(out, stage):
    import tables
    fn = tables.lib_crash(out)
    if fn:
        raise LibCrash(fn, out[-6000:], stage)


def parse_behaviours(out):
    behs, seen = [], set()
    for line in out.splitlines():
        if not line.startswith('<<"BEH", "'):
            continue
        inner = line[len('<<"BEH", '):-2]
        try:
            js = json.loads(inner)          # TLA+ string literal escapes == JSON string escapes
            b = json.loads(js)
        except Exception:
            continue
        key = json.dumps(b, sort_keys=True)
        if key in seen:
            continue
        seen.add(key)
        behs.append(b)
    return behs


def op_pipeline(pid, tier, seed, fam, wd, focus=None):
    sz = SIZES[tier]
    res = {}
    tlc(wd, "OPEmitWorld.tla", cfg="OPEmitWorld.cfg", workers=1, timeout=120)
    if not os.path.exists(os.path.join(wd, "world.json")):
        raise Inconclusive("world.json not written")
    # 1. design spec, exhaustive
    dcfg = f"OPDesign_{fam}{sz['design_suffix']}.cfg"
    if not os.path.exists(os.path.join(wd, dcfg)):
        dcfg = f"OPDesign_{fam}.cfg"
    if os.environ.get("VERIF_DEV_SKIP_DESIGN"):   # development aid only: never used by registered commands
        d = dict(distinct=0, generated=0, depth=0, wall=0.0)
    else:
        # thorough: the larger cfg is explored breadth-first within a time budget (several of them do not finish: the full products of the
        # argument domains); quick: the small cfg must finish
        d = tlc(wd, "OPDesign.tla", cfg=dcfg, timeout=int(os.environ.get("VERIF_DEV_BUDGET", "300")), budget=(tier == "thorough"))
        if d.get("partial"):
            log(f"[{pid}] design {dcfg}: time budget reached - breadth-first exploration to depth {d['depth']}, no violation so far")
    res["design"] = dict(cfg=dcfg, states=d["distinct"], transitions=d["generated"], depth=d["depth"], wall=round(d["wall"], 1))
    log(f"[{pid}] design {dcfg}: {d['distinct']} distinct / {d['generated']} generated states, depth {d['depth']}, {d['wall']:.0f}s, invariant NoViolation holds")
    # 2. behaviours out of TLC
    mcfg = f"OPMBT_{fam}.cfg"
    depth = int(re.search(r"Depth = (\d+)", open(os.path.join(wd, mcfg)).read()).group(1))
    walks = WALKS.get(fam, 200) * (1 if tier == "quick" else 12)
    m = tlc(wd, "OPMBT.tla", cfg=mcfg, workers=1, simulate=f"num={walks}", depth=depth, seed=seed, timeout=3600)
    behs = parse_behaviours(m["out"])
    if not behs:
        raise Inconclusive("TLC emitted no behaviours:\n" + m["out"][-2000:])
    with open(os.path.join(wd, "behaviours.ndjson"), "w") as f:
        for i, b in enumerate(behs):
            cfgd = dict(b["cfg"])
            cfgd.update(reqobj=True, s256=True, alg="ES256")
            for k in ("cc", "te", "dev"):
                cfgd.setdefault(k, True)
            if fam == "issue":      # the signing algorithm decides the hash of at_hash / c_hash
                cfgd["alg"] = ["ES256", "RS256", "ES384", "EdDSA", "ES512", "PS256"][i % 6]
            f.write(json.dumps(dict(id=f"mbt-{i}", cfg=cfgd, steps=b["steps"])) + "\n")
    res["behaviours"] = len(behs)
    # 3. real code
    binp = go_build(wd)
    rc, out = run([binp, "op-replay", "-world", "world.json", "-in", "behaviours.ndjson", "-out", "t1.ndjson", "-raw", "r1.ndjson"], wd)
    if rc != 0:
        crashed(out, "op-replay")
        raise Inconclusive("op-replay failed:\n" + out[-3000:])
    res["divergences"] = [l for l in out.splitlines() if l.startswith("DIVERGENCE")]
    rc, out = run([binp, "op-random", "-world", "world.json", "-out", "t2.ndjson", "-raw", "r2.ndjson", "-n", str(sz["rand_n"]),
                   "-depth", str(sz["rand_depth"]), "-seed", str(seed), "-focus", focus or fam], wd)
    if rc != 0:
        crashed(out, "op-random")
        raise Inconclusive("op-random failed:\n" + out[-3000:])
    with open(os.path.join(wd, "trace.ndjson"), "w") as t, open(os.path.join(wd, "raw.ndjson"), "w") as r:
        n1 = 0
        for line in open(os.path.join(wd, "t1.ndjson")):
            t.write(line)
            n1 += 1
        for line in open(os.path.join(wd, "t2.ndjson")):
            t.write(line)
        for line in open(os.path.join(wd, "r1.ndjson")):
            r.write(line)
        for line in open(os.path.join(wd, "r2.ndjson")):
            e = json.loads(line)
            e["line"] += n1
            r.write(json.dumps(e) + "\n")
    # 4. monitor
    viols, lines = run_monitor(wd)
    res["lines"] = lines
    return res, viols


def run_monitor(wd, replay=False):
    vp = os.path.join(wd, "viol.ndjson")
    if os.path.exists(vp):
        os.remove(vp)
    t = tlc(wd, "OPTrace.tla", cfg="OPTraceReplay.cfg" if replay else "OPTrace.cfg", workers=1, timeout=3600, allow_violation=replay)
    if replay:
        return t, 0
    if not os.path.exists(vp):
        raise Inconclusive("monitor did not consume the whole trace:\n" + "\n".join(t["out"].splitlines()[-30:]))
    rows = read_ndjson(vp)
    head, viols = rows[0], rows[1:]
    return viols, head["lines"]


def signature(v):
    sig = f"{v['rule']}:{v['router']}:{v['op']}"
    a = v.get("args", {})
    if v["rule"] in ("C15.subject.type", "C08.exchange.subject"):
        sig += f":{a['subj']['kind']}-declared-{a['subj']['declared']}"
    if v["rule"] in ("C15.actor.type", "C08.exchange.actor"):
        sig += f":{a['actor']['kind']}-declared-{a['actor']['declared']}"
    if (v["rule"].startswith("C05.") or v["rule"].endswith((".auth", ".authenticated"))) and isinstance(a.get("cred"), dict):
        # which credential was presented by a client registered for which method
        c = a["cred"]
        what = c.get("key") if c.get("kind") == "assertion" else c.get("secret")
        sig += f":{c.get('kind')}-{what}-for-{WORLD_AUTH.get(a.get('caller'), 'unknown')}" + ("+key" if WORLD_KEY.get(a.get('caller')) else "")
    return sig


WORLD_AUTH, WORLD_KEY = {}, {}


WALKS = dict(code=300, refresh=300, tokenuse=150, device=300, exchange=150, clientauth=60, logout=200, authorize=200, issue=150)


def op_part(pid, tier, seed, wd, spec):
    """Runs the OP-family pipeline for `spec` (an entry of FAMILY). Returns dict(new, known, coverage, assumptions)."""
    try:
        res, viols = op_pipeline(pid, tier, seed, spec["fam"], wd, focus=spec.get("focus"))
    except LibCrash as e:
        if not any(p.startswith("C09") for p in spec["prefixes"]):
            raise Inconclusive(f"{e.stage}: the process under test was killed by a panic / fatal error in {e.fn}; only C09 judges panics:\n" + e.out[-2500:])
        with open(os.path.join(wd, "crash.txt"), "w") as f:
            f.write(e.out)
        sig = f"C09.nopanic:processCrash:{e.fn}"
        new, known = report(pid, [dict(rule="C09.nopanic:processCrash", fn=e.fn, stage=e.stage)], lambda v: sig,
                            lambda v: dict(rule=v["rule"], crash_in=v["fn"], stage=v["stage"], output_tail=e.out[-800:]),
                            wd, ["crash.txt", "behaviours.ndjson", "world.json"], seed, tier)
        log(f"[{pid}] {e.stage}: the process serving the histories was killed by a panic / fatal error in {e.fn} (library code; no handler can recover it)")
        return dict(new=new, known=known, coverage=dict(states=0, transitions=0, traces_validated_against_impl=0, samples=[dict(crash_in=e.fn)], evaluations=1,
                                                         distinct_nontrivial=1, rule="process crash while serving histories", exhaustive=False), assumptions=[])
    for c, r in json.load(open(os.path.join(wd, "world.json")))["clients"].items():
        WORLD_AUTH[c], WORLD_KEY[c] = r["auth"], r.get("hasKey") and r["auth"] != "pkjwt"
    trace = read_ndjson(os.path.join(wd, "trace.ndjson"))
    mine = [v for v in viols if v["rule"].startswith(spec["prefixes"])]
    for v in mine:
        e = trace[v["line"] - 1]
        v["router"], v["op"], v["beh"], v["step"] = e.get("router", "?"), e["op"], e.get("beh"), e.get("step")
        v["args"], v["out_class"] = e["args"], e["out"]["class"]
    cov = collections.Counter((e["op"], e["out"]["class"]) for e in trace)
    missing = [n for n in spec["need"] if cov[n] == 0]
    if missing:
        raise Inconclusive(f"vacuous run: no event of kind {missing} in {len(trace)} trace lines")
    histories = sum(1 for e in trace if e["op"] == "Reset")
    new, known = report(pid, mine, signature,
                        lambda v: dict(rule=v["rule"], line=v["line"], router=v["router"], op=v["op"], behaviour=v["beh"], step=v["step"],
                                       args=v["args"], observed=v["out_class"]),
                        wd, ["trace.ndjson", "raw.ndjson", "viol.ndjson", "behaviours.ndjson", "world.json"], seed, tier)
    sample = [dict(op=e["op"], router=e.get("router"), args=e["args"], out_class=e["out"]["class"], status=e["out"]["status"])
              for e in trace[1:12]]
    nontrivial = len({(e.get("router"), e["op"], e["out"]["class"], e["out"].get("err"), json.dumps(e["args"], sort_keys=True))
                      for e in trace if e["op"] != "Reset"})
    log(f"[{pid}] {histories} histories / {len(trace)} events from real code validated by OPTrace; {len(mine)} rule failures ({new} new signatures, {known} known); {len(res['divergences'])} design-vs-code divergences")
    coverage = dict(
        states=res["design"]["states"], transitions=res["design"]["transitions"],
        traces_validated_against_impl=histories, samples=sample,
        evaluations=len(trace), distinct_nontrivial=nontrivial,
        rule="events = operations executed against the real provider; distinct by (router, operation, abstract arguments, outcome class, error code)",
        design=res["design"], tlc_behaviours_replayed=res["behaviours"], monitor_lines=res["lines"],
        outcome_coverage={f"{k[0]}:{k[1]}": v for k, v in sorted(cov.items())},
        divergences=res["divergences"][:50], divergences_total=len(res["divergences"]),
        rule_prefixes=list(spec["prefixes"]), known_findings_seen=known,
        exhaustive=False)
    assumptions = ["harness store (modelstore) implements the storage contract of pkg/op/storage.py".replace(".py", ".go"),
                   "projection of HTTP responses to abstract outcomes (harness/opdrv) is faithful",
                   "design-spec bounds as in " + res["design"]["cfg"]]
    return dict(new=new, known=known, coverage=coverage, assumptions=assumptions)


def op_check(pid, tier, seed, replay=None):
    spec = FAMILY[pid]
    t0 = time.time()
    wd = workdir(pid)
    try:
        if tier == "replay":
            return op_replay(pid, wd, replay, spec)
        r = op_part(pid, tier, seed, wd, spec)
        if pid in CLOSED_LOOP:
            # the closed loop RP <-> OP (spec/Flow.tla) judged on this property's rule prefix
            import misc
            x = misc.flow_part(pid, tier, seed, wd, (pid + ".",))
            r["new"], r["known"] = r["new"] + x["new"], r["known"] + x["known"]
            r["coverage"]["closed_loop"] = x["coverage"]
            for k in ("states", "transitions", "traces_validated_against_impl", "evaluations", "distinct_nontrivial"):
                r["coverage"][k] += x["coverage"][k]
            r["assumptions"] = r["assumptions"] + x["assumptions"]
        write_evidence(pid, tier, seed, "model_checking", r["coverage"], time.time() - t0, r["new"], assumptions=r["assumptions"])
        return 1 if r["new"] else 0
    finally:
        cleanup(wd)


def op_replay(pid, wd, path, spec):
    """Re-drive a saved violating trace against the current code and show TLC's counter-example."""
    src = os.path.join(path, "trace.ndjson")
    trace = read_ndjson(src)
    shutil.copy(os.path.join(path, "world.json"), wd)
    # rebuild behaviours (with the provider configuration they ran under) from the saved trace
    behs, cur = [], None
    for e in trace:
        if e["op"] == "Reset":
            cur = dict(id=e.get("beh", "replay"), cfg=e["cfg"], steps=[], router=e["cfg"]["router"])
            behs.append(cur)
        elif cur is not None:
            cur["steps"].append(dict(op=e["op"], args=e["args"]))
    binp = go_build(wd)
    with open(os.path.join(wd, "trace.ndjson"), "w") as out:
        for r in ("P", "L"):
            sel = [b for b in behs if b["router"] == r]
            if not sel:
                continue
            with open(os.path.join(wd, "b.ndjson"), "w") as f:
                for b in sel:
                    f.write(json.dumps(dict(id=b["id"], cfg=b["cfg"], steps=b["steps"])) + "\n")
            rc, o = run([binp, "op-replay", "-world", "world.json", "-in", "b.ndjson", "-out", "t.ndjson", "-routers", r], wd)
            if rc != 0:
                raise Inconclusive(o[-2000:])
            out.write(open(os.path.join(wd, "t.ndjson")).read())
    viols, lines = run_monitor(wd)
    mine = [v for v in viols if v["rule"].startswith(spec["prefixes"])]
    log(f"[{pid}] replay of {path}: {lines} events re-driven, {len(mine)} rule failures for this property")
    for v in mine[:20]:
        log("  ", json.dumps(v))
    if mine:
        t, _ = run_monitor(wd, replay=True)
        log("\n".join(l for l in t["out"].splitlines() if l.startswith(("Error", "State", "/\\ viol", "/\\ l "))))
        log(f"VIOLATION property={pid} replay={path}")
        return 1
    return 0


CLOSED_LOOP = {"C07", "C08", "C15"}

CHECKS = {p: op_check for p in FAMILY if p not in ('C03', 'C04', 'C05', 'C10', 'C09', 'C11', 'C16')}   # C03 is composed in tables.py
