"""C17: Relying Party login handlers (spec/RP.tla, RPDesign.tla, RPMBT.tla, RPTrace.tla; harness/rpdrv)."""
import json, os, time, collections
from vlib import *  # noqa
from opfamily import parse_behaviours

SIZES = {"quick": dict(walks=400, rand=300, depth=14), "thorough": dict(walks=6000, rand=6000, depth=20)}


def rp_monitor(wd):
    vp = os.path.join(wd, "viol.ndjson")
    if os.path.exists(vp):
        os.remove(vp)
    t = tlc(wd, "RPTrace.tla", cfg="RPTrace.cfg", workers=1, timeout=3600)
    if not os.path.exists(vp):
        raise Inconclusive("RP monitor did not consume the whole trace:\n" + "\n".join(t["out"].splitlines()[-30:]))
    rows = read_ndjson(vp)
    return rows[1:], rows[0]["lines"]


def rp_check(pid, tier, seed, replay=None):
    t0 = time.time()
    wd = workdir(pid)
    try:
        if tier == "replay":
            return rp_replay(pid, wd, replay)
        r = rp_part(pid, tier, seed, wd, (pid + ".", "C09."))
        if r.get("race"):
            return 1
        f = flow_part(pid, tier, seed, wd, (pid + ".", "C09."))
        cov = r["coverage"]
        cov["closed_loop"] = f["coverage"]
        for k in ("states", "transitions", "traces_validated_against_impl", "evaluations", "distinct_nontrivial"):
            cov[k] += f["coverage"][k]
        write_evidence(pid, tier, seed, "model_checking", cov, time.time() - t0, r["new"] + f["new"], assumptions=r["assumptions"] + f["assumptions"])
        return 1 if (r["new"] + f["new"]) else 0
    finally:
        cleanup(wd)


def rp_part(pid, tier, seed, wd, prefixes):
    """The relying-party pipeline (RPDesign -> RPMBT -> real handlers -> RPTrace); rule failures are filtered by prefix."""
    if True:
        sz = SIZES[tier]
        d = tlc(wd, "RPDesign.tla", cfg=f"RPDesign_{tier}.cfg", timeout=3600)
        log(f"[{pid}] design RPDesign_{tier}.cfg: {d['distinct']} distinct / {d['generated']} generated states, depth {d['depth']}: NoViolation holds")
        m = tlc(wd, "RPMBT.tla", cfg="RPMBT.cfg", workers=1, simulate=f"num={sz['walks']}", depth=12, seed=seed, timeout=1800)
        behs = parse_behaviours(m["out"])
        if not behs:
            raise Inconclusive("no behaviours from TLC:\n" + m["out"][-1500:])
        with open(os.path.join(wd, "b.ndjson"), "w") as f:
            for i, b in enumerate(behs):
                f.write(json.dumps(dict(id=f"mbt-{i}", cfg=b["cfg"], steps=b["steps"])) + "\n")
        binp = go_build(wd, race=True)
        rc, out = run([binp, "rp-replay", "-in", "b.ndjson", "-out", "trace.ndjson", "-n", str(sz["rand"]), "-depth", str(sz["depth"]), "-seed", str(seed)], wd, timeout=3600)
        if "DATA RACE" in out:
            with open(os.path.join(wd, "race.txt"), "w") as f:
                f.write(out)
            p = save_replay(pid, wd, ["race.txt", "b.ndjson"], seed, tier)
            if not any(x.startswith("C17") for x in prefixes):
                raise Inconclusive("race detector report in the relying-party stress run (judged by C17)")
            log(f"VIOLATION property={pid} replay={p} signature=C17.datarace :: race detector report while several browsers logged in through one handler")
            return dict(race=True, new=1, known=0, coverage={}, assumptions=[])
        if rc != 0 or "REPLAYED" not in out:
            raise Inconclusive("rp-replay failed:\n" + out[-3000:])
        viols, lines = rp_monitor(wd)
        viols = [v for v in viols if v["rule"].startswith(tuple(prefixes))]
        trace = read_ndjson(os.path.join(wd, "trace.ndjson"))
        for v in viols:
            e = trace[v["line"] - 1]
            v["run"], v["op"], v["args"], v["observed"] = e.get("run"), e["op"], e["args"], e["out"]
        cov = collections.Counter((e["op"], e["out"].get("class")) for e in trace)
        for need in (("StartLogin", "redirect"), ("Callback", "exchanged"), ("Callback", "unauthorized")):
            if not cov[need]:
                raise Inconclusive(f"vacuous run: no event {need}")
        tam = collections.Counter((e["args"].get("tamper"), e["args"].get("form"), e["out"].get("class")) for e in trace if e["op"] == "Callback")
        new, known = report(pid, viols, lambda v: f"{v['rule']}:{v['op']}:{v['args'].get('tamper', '')}:{v['args'].get('form', '')}:{'stress' if v['run'] == 'stress' else 'seq'}",
                            lambda v: dict(rule=v["rule"], line=v["line"], run=v["run"], op=v["op"], args=v["args"], observed=v["observed"]),
                            wd, ["trace.ndjson", "viol.ndjson", "b.ndjson"], seed, tier)
        runs = sum(1 for e in trace if e["op"] == "Reset")
        coverage = (dict(
            states=d["distinct"], transitions=d["generated"], traces_validated_against_impl=runs,
            samples=[dict(op=e["op"], args=e["args"], out=e["out"]) for e in trace[1:10]],
            evaluations=len(trace), distinct_nontrivial=len({json.dumps([e["op"], e["args"], e["out"].get("class")], sort_keys=True) for e in trace}),
            rule="one trace = one relying party with two browsers (TLC-generated behaviour or seeded random history) or one concurrent login of the stress run",
            design=dict(cfg=f"RPDesign_{tier}.cfg", states=d["distinct"], transitions=d["generated"], depth=d["depth"]),
            tlc_behaviours_replayed=len(behs), random_histories=sz["rand"], monitor_lines=lines,
            event_coverage={f"{k[0]}:{k[1]}": v for k, v in sorted(cov.items(), key=str)},
            callback_coverage={f"{k[0]}/{k[1]}:{k[2]}": v for k, v in sorted(tam.items(), key=str)},
            known_findings_seen=known, exhaustive=False))
        assumptions = (["fake provider = http.RoundTripper recording every token request; the RP is rp.NewRelyingPartyOAuth (no ID token), so only the login handlers are under test",
                         "cookie tampering: dropped, minted under another key, minted for the other cookie name, truncated; state parameter: exact, proper prefix, with suffix, empty, never issued",
                         "concurrent logins through one handler run under the race detector; each response is judged against its own cookies"])
        log(f"[{pid}] {len(behs)} TLC behaviours + {sz['rand']} random histories + concurrent logins (-race): {len(trace)} events validated by RPTrace; {len(viols)} rule failures with prefix {list(prefixes)} ({new} new, {known} known)")
        return dict(new=new, known=known, coverage=coverage, assumptions=assumptions)


FLOW_SIZES = {"quick": dict(walks=100, rand=120, depth=40), "thorough": dict(walks=800, rand=1000, depth=60)}


def flow_part(pid, tier, seed, wd, prefixes):
    """The closed loop RP <-> OP (FlowDesign -> FlowMBT -> real relying parties + real provider -> FlowTrace); rule failures filtered by prefix."""
    sz = FLOW_SIZES[tier]
    if not os.path.exists(os.path.join(wd, "world.json")):
        tlc(wd, "OPEmitWorld.tla", cfg="OPEmitWorld.cfg", workers=1, timeout=120)
    d = tlc(wd, "FlowDesign.tla", cfg=f"FlowDesign_{tier}.cfg", timeout=3600)
    log(f"[{pid}] design FlowDesign_{tier}.cfg: {d['distinct']} distinct / {d['generated']} generated states, depth {d['depth']}: NoViolation holds")
    m = tlc(wd, "FlowMBT.tla", cfg="FlowMBT.cfg", workers=1, simulate=f"num={sz['walks']}", depth=18, seed=seed, timeout=1800)
    behs = parse_behaviours(m["out"])
    if not behs:
        raise Inconclusive("no behaviours from TLC (Flow):\n" + m["out"][-1500:])
    with open(os.path.join(wd, "fb.ndjson"), "w") as f:
        for i, b in enumerate(behs):
            f.write(json.dumps(dict(id=f"mbt-{i}", cfg=b["cfg"], steps=b["steps"])) + "\n")
    binp = go_build(wd)
    rc, out = run([binp, "flow-replay", "-world", "world.json", "-in", "fb.ndjson", "-out", "flowtrace.ndjson", "-n", str(sz["rand"]), "-depth", str(sz["depth"]), "-seed", str(seed)], wd, timeout=3600)
    if rc != 0 or "REPLAYED" not in out:
        raise Inconclusive("flow-replay failed:\n" + out[-3000:])
    import shutil
    shutil.copy(os.path.join(wd, "flowtrace.ndjson"), os.path.join(wd, "trace.ndjson"))
    vp = os.path.join(wd, "viol.ndjson")
    if os.path.exists(vp):
        os.remove(vp)
    t = tlc(wd, "FlowTrace.tla", cfg="FlowTrace.cfg", workers=1, timeout=3600)
    if not os.path.exists(vp):
        raise Inconclusive("Flow monitor did not consume the whole trace:\n" + "\n".join(t["out"].splitlines()[-30:]))
    rows = read_ndjson(vp)
    lines, viols = rows[0]["lines"], [v for v in rows[1:] if v["rule"].startswith(tuple(prefixes))]
    trace = read_ndjson(os.path.join(wd, "flowtrace.ndjson"))
    for v in viols:
        e = trace[v["line"] - 1]
        v["run"], v["op"], v["args"], v["observed"] = e.get("run"), e["op"], e["args"], e["out"]
    cov = collections.Counter((e["op"], e["out"].get("class")) for e in trace)
    if not any(e["op"] == "OPCallback" and e["out"].get("channel") == "form" for e in trace):
        raise Inconclusive("vacuous flow run: no form_post response")
    for need in (("RPCallback", "tokens"), ("RPCallback", "unauthorized"), ("Userinfo", "claims"), ("Userinfo", "error"), ("Refresh", "tokens"), ("Revoke", "ok"),
                 ("EndSession", "redirect"), ("Introspect", "active"), ("DevicePoll", "tokens"), ("DevicePoll", "pending"), ("TokenExchange", "tokens")):
        if not cov[need]:
            raise Inconclusive(f"vacuous flow run: no event {need}; have {sorted(cov.items(), key=str)}")
    new, known = report(pid, viols, lambda v: f"{v['rule']}:{v['op']}:{v['args'].get('rp', '')}",
                        lambda v: dict(rule=v["rule"], line=v["line"], run=v["run"], op=v["op"], args=v["args"], observed=v["observed"]),
                        wd, ["flowtrace.ndjson", "viol.ndjson", "fb.ndjson", "world.json"], seed, tier)
    runs = sum(1 for e in trace if e["op"] == "Reset")
    coverage = dict(states=d["distinct"], transitions=d["generated"], traces_validated_against_impl=runs,
                    samples=[dict(op=e["op"], args=e["args"], out=e["out"]) for e in trace[1:10]], evaluations=len(trace),
                    distinct_nontrivial=len({json.dumps([e["op"], e["args"], e["out"].get("class")], sort_keys=True) for e in trace}),
                    rule="one trace = one provider (router P or L) with four relying parties of the library and two browsers; events = steps of login attempts, session operations, device flows",
                    design=dict(cfg=f"FlowDesign_{tier}.cfg", states=d["distinct"], transitions=d["generated"], depth=d["depth"]),
                    tlc_behaviours_replayed=len(behs), random_histories=sz["rand"], monitor_lines=lines,
                    event_coverage={f"{k[0]}:{k[1]}": v for k, v in sorted(cov.items(), key=str)}, known_findings_seen=known, exhaustive=False)
    log(f"[{pid}] closed loop RP<->OP: {len(behs)} TLC behaviours + {sz['rand']} random histories, {len(trace)} events validated by FlowTrace; {len(viols)} rule failures with prefix {list(prefixes)} ({new} new, {known} known)")
    return dict(new=new, known=known, coverage=coverage,
                assumptions=["closed loop (spec/Flow.tla): rp.NewRelyingPartyOIDC relying parties for cw / cx / cj / cp (secret basic, secret post, private_key_jwt, public + PKCE) and "
                             "rs resource servers talk in-process to the real provider on either router over the harness storage; users log in at the storage"])


def rp_replay(pid, wd, path):
    import shutil
    binp = go_build(wd, race=True)
    if os.path.exists(os.path.join(path, "b.ndjson")):
        shutil.copy(os.path.join(path, "b.ndjson"), wd)
    rc, out = run([binp, "rp-replay", "-in", "b.ndjson", "-out", "trace.ndjson", "-n", "200", "-depth", "14"], wd)
    if "DATA RACE" in out:
        log(f"VIOLATION property={pid} replay={path} (race detector)")
        return 1
    viols, lines = rp_monitor(wd)
    log(f"[{pid}] re-drove {lines} events: {len(viols)} rule failures")
    for v in viols[:20]:
        log("  ", json.dumps(v))
    if viols:
        log(f"VIOLATION property={pid} replay={path}")
        return 1
    return 0


CHECKS = {"C17": rp_check}
