"""Shared plumbing of the /verif checks: TLC runner, harness build, evidence, known findings."""
import json, os, re, shutil, subprocess, sys, time, tempfile, signal

VERIF = os.path.dirname(os.path.dirname(os.path.abspath(__file__)))
SPEC = os.path.join(VERIF, "spec")
HARNESS = os.path.join(VERIF, "harness")
# The registered commands always verify /repo. VERIF_REPO is a development aid (seeded-change experiments in scratch
# worktrees outside /repo): the harness is then copied and its replace directive pointed at that tree.
REPO = os.environ.get("VERIF_REPO", "/repo")
NCPU = os.cpu_count() or 4

GOENV = dict(os.environ, GOFLAGS="-mod=mod", GOPROXY="off")
GOENV.pop("GOTOOLCHAIN", None)  # GOTOOLCHAIN=local breaks the build here (go.mod needs 1.24.1, auto-switch is offline-safe)
GOENV.pop("GOSUMDB", None)
if os.environ.get("VERIF_DEV_COVERDIR"):
    os.makedirs(os.environ["VERIF_DEV_COVERDIR"], exist_ok=True)
    GOENV["GOCOVERDIR"] = os.environ["VERIF_DEV_COVERDIR"]


class Inconclusive(Exception):
    """Infrastructure failure: never a violation (exit 2)."""


def log(*a):
    print(*a, flush=True)


def workdir(tag):
    base = os.path.join(VERIF, ".work")
    os.makedirs(base, exist_ok=True)
    d = tempfile.mkdtemp(prefix=tag + ".", dir=base)
    # every TLC run happens in a scratch copy of the specs (TLC litters states/, *.out ...)
    for f in os.listdir(SPEC):
        if f.endswith((".tla", ".cfg")):
            shutil.copy(os.path.join(SPEC, f), d)
    return d


def cleanup(d):
    if os.environ.get("VERIF_DEV_KEEP_WORK"):   # development only: look at the work directory afterwards
        return
    shutil.rmtree(d, ignore_errors=True)


_tlc_stats = re.compile(r"(\d+) states generated, (\d+) distinct states found, (\d+) states left on queue")
_tlc_depth = re.compile(r"The depth of the complete state graph search is (\d+)")


def tlc(wd, module, cfg=None, workers=None, timeout=900, simulate=None, depth=None, seed=None,
        coverage=False, deque=False, extra=(), allow_violation=False, heap=None, outfile=None, keep_prefixes=('<<"CASE"', '<<"VIOL"', '<<"DIVERGE"'),
        budget=False):
    """Run TLC in wd. Returns dict(ok, out, generated, distinct, depth, violated)."""
    meta = tempfile.mkdtemp(prefix="meta.", dir=wd)
    cmd = ["java", "-XX:+UseParallelGC", "-Xss512m"]
    if heap:
        cmd.append("-Xmx" + heap)
    if deque:
        cmd.append("-Dtlc2.tool.queue.IStateQueue=StateDeque")
    cmd += ["-cp", "/opt/veriftools/tla/tla2tools.jar:/opt/veriftools/tla/CommunityModules-deps.jar", "tlc2.TLC",
            "-metadir", meta, "-workers", str(workers or NCPU)]
    if cfg:
        cmd += ["-config", cfg]
    if simulate:
        cmd += ["-simulate", simulate]
    if depth:
        cmd += ["-depth", str(depth)]
    if seed is not None:
        cmd += ["-seed", str(seed)]
    if coverage:
        cmd += ["-coverage", "1"]
    cmd += list(extra) + [module]
    t0 = time.time()
    try:
        if outfile:
            # large outputs (exported cases, monitor verdict lines) go to a file; only TLC's own messages are kept in memory
            with open(os.path.join(wd, outfile), "w") as fo:
                p = subprocess.run(cmd, cwd=wd, stdout=fo, stderr=subprocess.STDOUT, timeout=timeout)
            rc = p.returncode
            keep = []
            with open(os.path.join(wd, outfile), errors="replace") as fi:
                for line in fi:
                    if not line.startswith(keep_prefixes):
                        keep.append(line)
            out = "".join(keep[-4000:])
        else:
            p = subprocess.run(cmd, cwd=wd, stdout=subprocess.PIPE, stderr=subprocess.STDOUT, timeout=timeout, text=True,
                               errors="replace")
            out, rc = p.stdout, p.returncode
    except subprocess.TimeoutExpired as e:
        subprocess.run(["pkill", "-f", "tlc2.TL[C].*" + re.escape(meta)], check=False)
        out = (e.stdout or b"").decode(errors="replace") if isinstance(e.stdout, bytes) else (e.stdout or "")
        if simulate or budget:   # simulation runs - and exhaustive runs given a time budget (thorough tier) - are bounded by the timeout on purpose
            rc = 0
            if budget:
                out += f"\nBUDGET: exploration stopped after {timeout}s\n"
        else:
            raise Inconclusive(f"TLC timeout after {timeout}s on {module}")
    finally:
        shutil.rmtree(meta, ignore_errors=True)
        shutil.rmtree(os.path.join(wd, "states"), ignore_errors=True)
    res = dict(out=out, rc=rc, wall=time.time() - t0, generated=0, distinct=0, depth=0, violated=None)
    m = _tlc_stats.findall(out)
    if m:
        res["generated"], res["distinct"] = int(m[-1][0]), int(m[-1][1])
    m = _tlc_depth.findall(out)
    if m:
        res["depth"] = int(m[-1])
    res["partial"] = "BUDGET: exploration stopped" in out
    if res["partial"]:
        # the last progress line: "Progress(9) at ...: 120,759,218 states generated (...), 33,106,286 distinct states found (...), ..."
        pm = re.findall(r"Progress\((\d+)\) at [^:]+:\d+:\d+: ([\d,]+) states generated .*?, ([\d,]+) distinct states found", out)
        if pm:
            res["depth"], res["generated"], res["distinct"] = int(pm[-1][0]), int(pm[-1][1].replace(",", "")), int(pm[-1][2].replace(",", ""))
    mv = re.search(r"Error: Invariant (\S+) is violated|Error: Action property (\S+) is violated|Error: Temporal properties were violated", out)
    if mv:
        res["violated"] = mv.group(1) or mv.group(2) or "temporal"
    hard = re.search(r"TLC threw an unexpected exception|Error: .*(evaluat|Parsing or semantic|attempted to|was not|not a legal state|not completely specified|Unknown operator|is not a)|StackOverflowError|OutOfMemoryError|Fatal error", out)
    if not hard and not mv and not simulate and not re.search(r"states generated", out) and not (budget and "BUDGET:" in out):
        hard = re.search(r"Error: .*", out) or re.search(r".", "x")      # a model-checking run that reports no state count did not run
    res["ok"] = (rc == 0 and not mv and not hard)
    if hard and not mv:
        raise Inconclusive(f"TLC error on {module}:\n" + "\n".join(out.splitlines()[-40:]))
    if mv and not allow_violation:
        raise Inconclusive(f"TLC found {res['violated']} violated in DESIGN model {module} (a model defect until reproduced on the code):\n"
                           + "\n".join(out.splitlines()[-60:]))
    return res


def go_build(wd, race=False, tags="verif", name="verif"):
    """(Re)build the harness against /repo's current working tree."""
    hdir = HARNESS
    if REPO != "/repo":
        hdir = os.path.join(wd, "harness-copy")
        if not os.path.exists(hdir):
            shutil.copytree(HARNESS, hdir)
            gm = open(os.path.join(hdir, "go.mod")).read().replace("=> /repo", "=> " + REPO)
            open(os.path.join(hdir, "go.mod"), "w").write(gm)
    shutil.copy(os.path.join(REPO, "go.sum"), os.path.join(hdir, "go.sum"))
    binp = os.path.join(wd, name)
    cmd = ["go", "build", "-tags", tags]
    if race:
        cmd.append("-race")
    if os.environ.get("VERIF_DEV_COVERDIR"):   # development aid only (which library lines do the checks reach?): GOCOVERDIR is then set too
        cmd += ["-cover", "-coverpkg=github.com/zitadel/oidc/v3/pkg/..."]
    cmd += ["-o", binp, "./cmd/verif"]
    p = subprocess.run(cmd, cwd=hdir, env=GOENV, stdout=subprocess.PIPE, stderr=subprocess.STDOUT, text=True, timeout=900)
    if p.returncode != 0:
        raise Inconclusive("harness build failed against /repo:\n" + p.stdout[-4000:])
    return binp


def run(cmd, wd, timeout=1800, env=None):
    p = subprocess.run(cmd, cwd=wd, env=env or GOENV, stdout=subprocess.PIPE, stderr=subprocess.STDOUT, text=True,
                       timeout=timeout, errors="replace")
    return p.returncode, p.stdout


def read_ndjson(path):
    out = []
    with open(path) as f:
        for line in f:
            line = line.strip()
            if line:
                out.append(json.loads(line))
    return out


def load_known():
    p = os.path.join(VERIF, "known_findings.json")
    if not os.path.exists(p):
        return {"findings": [], "fixed": []}
    return json.load(open(p))


def claimed_level(pid, default):
    """The level category MANIFEST.json claims for pid (single source of truth for the evidence file's level)."""
    try:
        for c in json.load(open(os.path.join(VERIF, "MANIFEST.json")))["checks"]:
            if c["property_id"] == pid:
                return c["level_claimed"]["category"]
    except Exception:
        pass
    return default


def write_evidence(pid, tier, seed, level, coverage, wall, violations, assumptions=()):
    level = claimed_level(pid, level)
    evdir = os.path.join(VERIF, "evidence")
    if REPO != "/repo" or os.environ.get("VERIF_DEV_SKIP_DESIGN"):
        # development runs (seeded-change experiments against a scratch tree, skipped design run) never touch the evidence of /repo
        evdir = os.path.join(VERIF, ".work", "evidence-dev")
    os.makedirs(evdir, exist_ok=True)
    ev = dict(property_id=pid, tier=tier, seed=int(seed), level=level, coverage=coverage, wall_s=round(wall, 2),
              violations=int(violations), assumptions=list(assumptions))
    tmp = os.path.join(evdir, f"{pid}.json.tmp{os.getpid()}")
    with open(tmp, "w") as f:
        json.dump(ev, f, indent=1, sort_keys=True, default=str)
    os.replace(tmp, os.path.join(evdir, pid + ".json"))


def save_replay(pid, wd, files, seed, tier):
    d = os.path.join(VERIF, "replays", f"{pid}-{tier}-seed{seed}-{int(time.time())}")
    os.makedirs(d, exist_ok=True)
    for f in files:
        src = os.path.join(wd, f)
        if os.path.exists(src):
            shutil.copy(src, d)
    return d


def report(pid, viols, sig_of, describe, wd, files, seed, tier, extra_save=None):
    """viols: list of dict(line, rule, ...). Prints KNOWN-FINDING / VIOLATION lines. Returns (new, known) counts."""
    known = {k["signature"]: k for k in load_known().get("findings", []) if k.get("property") == pid}
    seen_known, new = {}, {}
    for v in viols:
        sig = sig_of(v)
        if sig in known:
            seen_known.setdefault(sig, v)
        else:
            new.setdefault(sig, v)
    for sig, v in seen_known.items():
        log(f"KNOWN-FINDING: property={pid} {sig} {known[sig].get('what', '')}")
    if new:
        path = save_replay(pid, wd, files, seed, tier)
        if extra_save:
            extra_save(path, list(new.values()))
        with open(os.path.join(path, "violations.json"), "w") as f:
            json.dump([dict(signature=s, **describe(v)) for s, v in new.items()], f, indent=1, default=str)
        for sig, v in new.items():
            log(f"VIOLATION property={pid} replay={path} signature={sig} :: {json.dumps(describe(v), default=str)[:600]}")
    return len(new), len(seen_known)
