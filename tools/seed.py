#!/usr/bin/env python3
"""Development tool for the seeded-change experiments of DESIGN.md (never used by registered commands).

  seed.py import <src-dir> <name> <pid> <pkgdir>   confirm a delivered change (patch.diff, demo_test.go, notes.md) in a scratch
                                                    worktree of /repo and keep it as /verif/seeded/<name>/
  seed.py run <name> [quick|thorough] [pid...]      run check(s) against a scratch worktree with the change applied (VERIF_REPO)
Scratch worktrees live under /tmp and are removed, with their build output, before the command returns."""
import json, os, shutil, subprocess, sys, tempfile, time

VERIF = os.path.dirname(os.path.dirname(os.path.abspath(__file__)))
ENV = dict(os.environ, GOFLAGS="-mod=mod", GOPROXY="off")
ENV.pop("GOTOOLCHAIN", None)
ENV.pop("GOSUMDB", None)


def sh(cmd, cwd=None, env=None, timeout=3600):
    p = subprocess.run(cmd, cwd=cwd, env=env or ENV, stdout=subprocess.PIPE, stderr=subprocess.STDOUT, text=True, timeout=timeout, errors="replace")
    return p.returncode, p.stdout


def worktree():
    d = tempfile.mkdtemp(prefix="seedwt-", dir="/tmp")
    os.rmdir(d)
    rc, out = sh(["git", "-C", "/repo", "worktree", "add", "-f", "--detach", d, "HEAD"])
    if rc != 0:
        raise SystemExit(out)
    return d


def drop(d):
    sh(["git", "-C", "/repo", "worktree", "remove", "--force", d])
    shutil.rmtree(d, ignore_errors=True)
    sh(["git", "-C", "/repo", "worktree", "prune"])


def baseline(wt):
    out = os.path.join(wt, "_suite.json")
    sh(["sh", "-c", f"go build ./... && go test -json -vet=off -count=1 -timeout 25m ./... > {out} 2>/dev/null"], cwd=wt)
    res = {}
    for line in open(out):
        try:
            e = json.loads(line)
        except Exception:
            continue
        if e.get("Test") and e.get("Action") in ("pass", "fail", "skip"):
            res[e["Package"] + "::" + e["Test"]] = e["Action"]
    base = json.load(open("/root/.vp/BASELINE.json"))
    stable = base.get("stable_pass") or base.get("tests") or []
    bad = [t for t in stable if res.get(t) != "pass"]
    return len(stable), bad


def cmd_import(src, name, pid, pkgdir):
    wt = worktree()
    try:
        demo = os.path.join(wt, pkgdir, "zz_seed_demo_test.go")
        shutil.copy(os.path.join(src, "demo_test.go"), demo)
        rc0, o0 = sh(["go", "test", "-vet=off", "-count=1", "-run", "Test", "./" + pkgdir], cwd=wt)
        # only the demo's own tests matter: run by file is not possible, so compare failing test names
        fails0 = {l.split()[2] for l in o0.splitlines() if l.startswith("--- FAIL")}
        rc, o = sh(["git", "apply", os.path.join(src, "patch.diff")], cwd=wt)
        if rc != 0:
            raise SystemExit("patch does not apply: " + o)
        rcb, ob = sh(["go", "build", "./..."], cwd=wt)
        rc1, o1 = sh(["go", "test", "-vet=off", "-count=1", "-run", "Test", "./" + pkgdir], cwd=wt)
        fails1 = {l.split()[2] for l in o1.splitlines() if l.startswith("--- FAIL")}
        os.remove(demo)
        n, bad = baseline(wt)
        offline = {'TestDiscover', 'TestNewResourceServer', 'TestIntrospect'}   # need the network, fail on the unchanged tree too
        ok = rcb == 0 and not bad and (fails1 - fails0) and not (fails0 - offline)
        meta = dict(name=name, property=pid, demo_package=pkgdir, compiles=rcb == 0,
                    suite_with_change=f"{n - len(bad)}/{n} stable tests pass", suite_failures=bad[:10],
                    demo_without_change="pass" if not (fails0 - {'TestDiscover', 'TestNewResourceServer', 'TestIntrospect'}) else f"FAIL {sorted(fails0)}",
                    demo_with_change=f"FAIL {sorted(fails1 - fails0)}" if fails1 - fails0 else "pass",
                    confirmed=bool(ok), confirmed_at=time.strftime("%Y-%m-%d %H:%M"),
                    ran=["git worktree add /tmp/seedwt-*; go test ./" + pkgdir + " with the demo (unchanged tree)", "git apply patch.diff; go build ./...; go test ./" + pkgdir + " with the demo",
                         "pinned suite (go test -json ./..., compared with /root/.vp/BASELINE.json stable_pass)"])
        print(json.dumps(meta, indent=1))
        if ok:
            dst = os.path.join(VERIF, "seeded", name)
            os.makedirs(dst, exist_ok=True)
            for f in ("patch.diff", "demo_test.go", "notes.md"):
                if os.path.exists(os.path.join(src, f)):
                    shutil.copy(os.path.join(src, f), dst)
            if os.path.exists(os.path.join(dst, "demo_test.go")):
                os.rename(os.path.join(dst, "demo_test.go"), os.path.join(dst, "demo_test.go.txt"))
            json.dump(meta, open(os.path.join(dst, "meta.json"), "w"), indent=1)
        return 0 if ok else 1
    finally:
        drop(wt)


def cmd_run(name, tier, pids):
    d = os.path.join(VERIF, "seeded", name)
    meta = json.load(open(os.path.join(d, "meta.json")))
    pids = pids or [meta["property"]]
    wt = worktree()
    results = {}
    try:
        rc, o = sh(["git", "apply", os.path.join(d, "patch.diff")], cwd=wt)
        if rc != 0:
            raise SystemExit("patch does not apply: " + o)
        for pid in pids:
            env = dict(os.environ, VERIF_REPO=wt, VERIF_DEV_SKIP_DESIGN="1")
            t0 = time.time()
            rc, out = sh([os.path.join(VERIF, "check"), pid, tier], cwd=VERIF, env=env, timeout=4 * 3600)
            lines = [l for l in out.splitlines() if l.startswith(("VIOLATION", "KNOWN-FINDING", "INCONCLUSIVE"))]
            results[pid] = dict(exit=rc, wall=round(time.time() - t0), lines=[l[:400] for l in lines[:6]])
            print(f"== {name} vs {pid} {tier}: exit {rc} ({'DETECTED' if rc == 1 else 'missed' if rc == 0 else 'inconclusive'}) {results[pid]['wall']}s")
            for l in lines[:6]:
                print("   ", l[:300])
            if rc == 2 or os.environ.get("SEED_VERBOSE"):
                print(out[-4000:])
    finally:
        drop(wt)
    meta.setdefault("check_results", {}).update({f"{p}:{tier}": r for p, r in results.items()})
    json.dump(meta, open(os.path.join(d, "meta.json"), "w"), indent=1)
    return 0


if __name__ == "__main__":
    if sys.argv[1] == "import":
        sys.exit(cmd_import(*sys.argv[2:6]))
    if sys.argv[1] == "run":
        tier = sys.argv[3] if len(sys.argv) > 3 else "quick"
        sys.exit(cmd_run(sys.argv[2], tier, sys.argv[4:]))
