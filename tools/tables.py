"""Decision-table specs (spec/<T>.tla with generated wrappers <T>Design / <T>Trace, tools/mktable.py):
   TLC checks every case against the rules under the code's decision procedure and exports the cases;
   the Go harness (harness/tbldrv) executes each case on the real code; the monitor <T>Trace evaluates the
   same rules on the observed outcomes."""
import re
import json, os, collections, time, shutil
from vlib import *  # noqa


def tlc_lines(path, tag):
    """JSON payloads of the lines  <<"TAG", "json">>  in a TLC output file."""
    pre = f'<<"{tag}", "'
    with open(path, errors="replace") as f:
        for line in f:
            if line.startswith(pre):
                try:
                    yield json.loads(json.loads(line.rstrip("\n")[len(pre) - 1:-2]))
                except Exception:
                    continue


LIB = "github.com/zitadel/oidc/v3/"


def lib_crash(out):
    """The process was killed by a Go panic / fatal error whose innermost non-runtime frame is code of zitadel/oidc
    (a goroutine of the library that no caller can recover from). Returns the function name, or None."""
    m = re.search(r"^(panic: |fatal error: )", out, re.M)
    if not m:
        return None
    tail = out[m.start():]
    # "goroutine 7 [running]:" - or, for fatal errors (stack overflow ...), "goroutine 7 gp=0x.. m=3 mp=0x.. [running]:"
    g = re.search(r"^goroutine \d+ (?:gp=\S+ m=\S+ (?:mp=\S+ )?)?\[running[^\]]*\]:\n((?:.+\n?)+)", tail, re.M)
    if not g:
        return None
    for line in g.group(1).splitlines():
        if line.startswith(("\t", " ")) or line.startswith("created by"):
            continue
        fn = line.rsplit("(", 1)[0]
        if fn.startswith(("runtime.", "panic", "runtime/", "sync.", "sync/", "internal/")):
            continue
        if fn.startswith(("verif/", "main.")):
            return None            # the harness itself
        head, _, last = fn.rpartition("/")
        pkg = (head + "/" if head else "") + last.split(".")[0]
        if "." not in pkg.split("/")[0]:
            continue               # standard library (net/url, encoding/json, strings ...): look at who called it
        return fn if fn.startswith(LIB) else None
    return None


def crash_isolate(binp, sub, module, wd, args, env, fn):
    """Bisects the case file down to a smallest set of cases on which the same library crash reproduces."""
    cases = [l for l in open(os.path.join(wd, f"{module}.cases.ndjson")) if l.strip()]

    def crashes(subset):
        with open(os.path.join(wd, "bisect.ndjson"), "w") as f:
            f.writelines(subset)
        rc, out = run([binp, sub, "-in", "bisect.ndjson", "-out", "bisect.obs.ndjson"] + args, wd, timeout=3600, env=env)
        return rc != 0 and lib_crash(out) == fn, out
    cur, last = cases, None
    while len(cur) > 1:
        a, b = cur[:len(cur) // 2], cur[len(cur) // 2:]
        ok, out = crashes(a)
        if ok:
            cur, last = a, out
            continue
        ok, out = crashes(b)
        if ok:
            cur, last = b, out
            continue
        break
    if last is None:
        ok, last = crashes(cur)
        if not ok:
            return None, None
    return [json.loads(l) for l in cur], last


def table_run(pid, module, sub, tier, seed, wd, prefixes, sig, need=None, binp=None, harness_args=(), label=None, env=None):
    """One decision-table pipeline. Returns dict(design, cases, viols, divergences, obs_summary)."""
    label = label or module
    d = tlc(wd, f"{module}Design.tla", cfg=f"{module}Design_{tier}.cfg", timeout=3600, outfile=f"{module}.design.out")
    n = 0
    with open(os.path.join(wd, f"{module}.cases.ndjson"), "w") as o:
        for c in tlc_lines(os.path.join(wd, f"{module}.design.out"), "CASE"):
            n += 1
            c["id"] = n
            o.write(json.dumps(c, separators=(",", ":")) + "\n")
    if n == 0 or n != d["distinct"]:
        raise Inconclusive(f"{module}: TLC checked {d['distinct']} cases but exported {n}")
    log(f"[{pid}] design {module} ({tier}): {n} cases, every rule holds under the code's decision procedure ({d['wall']:.0f}s)")
    binp = binp or go_build(wd)
    rc, out = run([binp, sub, "-in", f"{module}.cases.ndjson", "-out", "obs.ndjson", "-seed", str(seed), "-tier", tier] + list(harness_args), wd, timeout=3600, env=env)
    if rc != 0 and lib_crash(out):
        # the harness process was killed by a panic inside a goroutine of zitadel/oidc itself: real-code behaviour, not a harness failure
        fn = lib_crash(out)
        if any(p.startswith("C20") for p in prefixes) and re.search(r"fatal error: concurrent map", out):
            # the Go runtime itself caught unsynchronised access to a map inside library code (not recoverable): a data race
            log(f"[{pid}] {label}: the process was killed by 'fatal error: concurrent map ...' in {fn}")
            viols = [dict(rule="C20.racefree:processCrash", id=0, case={}, observed=dict(crash=fn, output=out[-1500:]), module=module,
                          signature=f"C20.racefree:processCrash:{fn}")]
            return dict(design=dict(module=module, cfg=f"{module}Design_{tier}.cfg", states=d["distinct"], transitions=d["generated"], wall=round(d["wall"], 1)),
                        cases=n, viols=viols, divergences=[], divergences_total=0, coverage={}, samples=[], crashed=True)
        hargs = ["-seed", str(seed), "-tier", tier] + list(harness_args)
        culprits, cout = crash_isolate(binp, sub, module, wd, hargs, env, fn)
        if culprits is None or not any(p.startswith("C09") for p in prefixes):
            raise Inconclusive(f"{sub}: the process under test was killed by a panic in {fn}" + ("" if culprits is None else f" (cases {[c['id'] for c in culprits][:5]})")
                               + "; only C09 judges panics:\n" + out[-2500:])
        viols = [dict(rule="C09.nopanic:processCrash", id=c["id"], case=c["c"], observed=dict(crash=fn, output=cout[-1500:]), module=module,
                      signature=f"C09.nopanic:processCrash:{fn}") for c in culprits[:20]]
        log(f"[{pid}] {label}: the process executing the cases was killed by a panic in {fn} (library goroutine); isolated to {len(culprits)} case(s)")
        return dict(design=dict(module=module, cfg=f"{module}Design_{tier}.cfg", states=d["distinct"], transitions=d["generated"], wall=round(d["wall"], 1)),
                    cases=n, viols=viols, divergences=[], divergences_total=0, coverage={}, samples=[], crashed=True)
    if rc != 0 or "EXECUTED" not in out:
        raise Inconclusive(f"{sub} failed:\n" + out[-3000:])
    shutil.copy(os.path.join(wd, "obs.ndjson"), os.path.join(wd, f"{module}.obs.ndjson"))
    t = tlc(wd, f"{module}Trace.tla", cfg=f"{module}Trace_{tier}.cfg", timeout=3600, outfile=f"{module}.trace.out")
    if t["distinct"] != n:
        raise Inconclusive(f"{module}: monitor judged {t['distinct']} of {n} observations:\n" + t["out"][-1500:])
    bad = {v["line"]: v for v in tlc_lines(os.path.join(wd, f"{module}.trace.out"), "VIOL")}
    div = {v["line"] for v in tlc_lines(os.path.join(wd, f"{module}.trace.out"), "DIVERGE")}
    viols, divs, cov, samples = [], [], collections.Counter(), []
    with open(os.path.join(wd, f"{module}.obs.ndjson")) as f:
        for i, line in enumerate(f, 1):
            if i in bad or i in div or i <= 3 or need:
                o = json.loads(line)
                if need:
                    for k in need(o):
                        cov[k] += 1
                if i <= 3:
                    samples.append(dict(case=o["c"], observed=o["o"]))
                if i in bad:
                    for r in bad[i]["rules"]:
                        if r.startswith(prefixes):
                            viols.append(dict(rule=r, id=o["id"], case=o["c"], observed=o["o"], module=module, signature=f"{r}:{sig(o)}"))
                if i in div and len(divs) < 50:
                    divs.append(dict(id=o["id"], case=o["c"], observed=o["o"]))
    log(f"[{pid}] {label}: {n} cases executed on the real code and judged by {module}Trace: {len(viols)} rule failures, {len(div)} design-vs-code divergences")
    return dict(design=dict(module=module, cfg=f"{module}Design_{tier}.cfg", states=d["distinct"], transitions=d["generated"], wall=round(d["wall"], 1)),
                cases=n, viols=viols, divergences=divs, divergences_total=len(div), coverage=dict(cov), samples=samples)


def report_table(pid, viols, wd, seed, tier, modules):
    files = []
    for m in modules:
        files += [f"{m}.cases.ndjson"]
    new, known = report(pid, viols, lambda v: v["signature"],
                        lambda v: dict(rule=v["rule"], module=v["module"], id=v["id"], case=v["case"], observed=v["observed"]),
                        wd, [], seed, tier)
    return new, known


def save_violating_cases(pid, wd, viols, seed, tier):
    """replay directory: the violating cases (cases.ndjson subset per module)"""
    if not viols:
        return None
    d = os.path.join(VERIF, "replays", f"{pid}-{tier}-seed{seed}-{int(time.time())}")
    os.makedirs(d, exist_ok=True)
    by = collections.defaultdict(dict)
    for v in viols:
        by[v["module"]][v["id"]] = v["case"]
    for m, cs in by.items():
        with open(os.path.join(d, f"{m}.cases.ndjson"), "w") as f:
            for i, c in cs.items():
                f.write(json.dumps(dict(id=i, c=c, expect={})) + "\n")
    return d


def write_cases(path, viols):
    by = collections.defaultdict(dict)
    for v in viols:
        if "module" in v:
            by[v["module"]][v["id"]] = v["case"]
    for m, cs in by.items():
        with open(os.path.join(path, f"{m}.cases.ndjson"), "w") as f:
            for i, c in cs.items():
                f.write(json.dumps(dict(id=i, c=c, expect={})) + "\n")


def table_replay(pid, wd, path, parts):
    """Re-executes the saved violating cases on the current code and re-judges them."""
    bad = 0
    binp = go_build(wd)
    for module, sub, prefixes in parts:
        src = os.path.join(path, f"{module}.cases.ndjson")
        if not os.path.exists(src):
            continue
        shutil.copy(src, wd)
        rc, out = run([binp, sub, "-in", f"{module}.cases.ndjson", "-out", "obs.ndjson", "-world", "world.json"], wd)
        if rc != 0 and lib_crash(out) and any(p.startswith("C09") for p in prefixes):
            bad += 1
            log(f"  the process executing the saved cases is killed by a panic in {lib_crash(out)}:\n" + out[-1200:])
            continue
        if rc != 0:
            raise Inconclusive(out[-2000:])
        t = tlc(wd, f"{module}Trace.tla", cfg=f"{module}Trace_quick.cfg", timeout=1800, outfile=f"{module}.trace.out")
        obs = read_ndjson(os.path.join(wd, "obs.ndjson"))
        for v in tlc_lines(os.path.join(wd, f"{module}.trace.out"), "VIOL"):
            rules = [r for r in v["rules"] if r.startswith(prefixes)]
            if rules:
                bad += 1
                log(f"  case {v['id']}: {rules} :: {json.dumps(obs[v['line'] - 1])[:700]}")
    log(f"[{pid}] replay of {path}: {bad} cases still violate a rule on the current code")
    if bad:
        log(f"VIOLATION property={pid} replay={path}")
        return 1
    return 0


def merge_evidence(pid, tier, seed, t0, parts, tables, new, known, assumptions):
    """parts: coverage dict of the OP-family part (or None); tables: list of table_run results."""
    cov = dict(parts or {})
    cov["tables"] = [dict(design=t["design"], cases_executed_on_real_code=t["cases"], rule_failures=len(t["viols"]),
                          divergences_total=t["divergences_total"], divergences=t["divergences"][:10], coverage=t["coverage"],
                          samples=t["samples"]) for t in tables]
    cov["states"] = cov.get("states", 0) + sum(t["design"]["states"] for t in tables)
    cov["transitions"] = cov.get("transitions", 0) + sum(t["design"]["transitions"] for t in tables)
    cov["evaluations"] = cov.get("evaluations", 0) + sum(t["cases"] for t in tables)
    cov["distinct_nontrivial"] = cov.get("distinct_nontrivial", 0) + sum(t["cases"] for t in tables)
    cov["traces_validated_against_impl"] = cov.get("traces_validated_against_impl", 0) + sum(t["cases"] for t in tables)
    if not cov.get("samples"):
        cov["samples"] = [x for t in tables for x in t["samples"]][:12]
    cov.setdefault("rule", "table cases = abstract cases exported by TLC from the design run, each executed once on the real code")
    cov["known_findings_seen"] = known
    cov.setdefault("exhaustive", False)
    write_evidence(pid, tier, seed, "model_checking", cov, time.time() - t0, new, assumptions=assumptions)


def c03_sig(o):
    u, r = o["c"]["uri"], o["c"]["reg"]
    return f"{r['app']}:{u['scheme']}:{'loopback' if u['host'] in ('localhost', '127.0.0.1', '::1') else 'host'}:ui={u['ui']}:frag={u['frag']}:defect={o['c']['defect']}"


def c03_need(o):
    return [f"F:{o['o']['F']}", f"P:{o['o']['P']['class']}", f"L:{o['o']['L']['class']}"]


def c03_check(pid, tier, seed, replay=None):
    import opfamily
    t0 = time.time()
    wd = workdir(pid)
    try:
        if tier == "replay":
            if os.path.exists(os.path.join(replay, "trace.ndjson")):
                return opfamily.op_replay(pid, wd, replay, opfamily.FAMILY[pid])
            return table_replay(pid, wd, replay, [("RedirectURI", "tbl-redirect", ("C03.",)), ("RequestObject", "tbl-reqobj", ("C03.",)), ("AuthResponse", "tbl-authresp", ("C03.",))])
        part = opfamily.op_part(pid, tier, seed, wd, opfamily.FAMILY[pid])
        tb = table_run(pid, "RedirectURI", "tbl-redirect", tier, seed, wd, ("C03.",), c03_sig, need=c03_need, label="redirect-URI table")
        tb2 = table_run(pid, "RequestObject", "tbl-reqobj", tier, seed, wd, ("C03.",), c14r_sig, need=c14r_need, label="request object table (redirect rule)")
        tb3 = table_run(pid, "AuthResponse", "tbl-authresp", tier, seed, wd, ("C03.",), c11_sig, need=c11_need, label="authorization response table (target rule)")
        for k in ("F:ok", "F:refused", "P:login", "P:page", "P:redirErr", "L:login", "L:json"):
            if not tb["coverage"].get(k):
                raise Inconclusive(f"vacuous table run: no observation {k}")
        new, known = report(pid, tb["viols"] + tb2["viols"] + tb3["viols"], lambda v: v["signature"],
                            lambda v: dict(rule=v["rule"], module=v["module"], id=v["id"], case=v["case"], observed=v["observed"]),
                            wd, [], seed, tier, extra_save=write_cases)
        merge_evidence(pid, tier, seed, t0, part["coverage"], [tb, tb2, tb3], part["new"] + new, part["known"] + known,
                       part["assumptions"] + ["URI components are concretised injectively (harness/tbldrv/redirect.go); glob semantics = doublestar on the three patterns of the model"])
        return 1 if (part["new"] + new) else 0
    finally:
        cleanup(wd)


def simple_table_check(parts, assumptions, required=(), world=False):
    """Check made of decision tables only. parts: list of dict(module, sub, prefixes, sig, need, label)."""
    def chk(pid, tier, seed, replay=None):
        t0 = time.time()
        wd = workdir(pid)
        try:
            if tier == "replay":
                if world:
                    tlc(wd, "OPEmitWorld.tla", cfg="OPEmitWorld.cfg", workers=1, timeout=120)
                return table_replay(pid, wd, replay, [(p["module"], p["sub"], p["prefixes"]) for p in parts])
            binp = go_build(wd)
            if world:
                tlc(wd, "OPEmitWorld.tla", cfg="OPEmitWorld.cfg", workers=1, timeout=120)
            tbs, viols = [], []
            for p in parts:
                tb = table_run(pid, p["module"], p["sub"], tier, seed, wd, p["prefixes"], p["sig"], need=p.get("need"), binp=binp, label=p.get("label"),
                               harness_args=["-world", "world.json"] if world else ())
                for k in p.get("required", ()):
                    # a kind of observation that is missing while a rule of this table already fails is a symptom of that failure, not vacuity
                    if not tb["coverage"].get(k) and not tb.get("crashed") and not tb["viols"]:
                        raise Inconclusive(f"vacuous table run ({p['module']}): no observation {k}; have {sorted(tb['coverage'])[:40]}")
                tbs.append(tb)
                viols += tb["viols"]
            new, known = report(pid, viols, lambda v: v["signature"],
                                lambda v: dict(rule=v["rule"], module=v["module"], id=v["id"], case=v["case"], observed=v["observed"]),
                                wd, [], seed, tier, extra_save=write_cases)
            merge_evidence(pid, tier, seed, t0, None, tbs, new, known, assumptions)
            return 1 if new else 0
        finally:
            cleanup(wd)
    return chk


def c01_sig(o):
    t, cfg = o["c"]["tok"], o["c"]["cfg"]
    base = dict(iss="ok", sub="present", aud="cid", azp="absent", exp=3600, iat=-3, auth=-3, acr="allowed", athash="correct", withAT=True, alg="ES256", sig="good")
    dev = sorted(k for k, v in base.items() if t.get(k) != v)
    return f"{o['o']['v']}:dev={'+'.join(dev) or 'none'}"


def c01_need(o):
    return [f"v:{o['o']['v']}", f"err:{o['o'].get('err', '-')}"]


def c02_sig(o):
    t = o["c"]["tok"]
    return f"ser={t['ser']}:alg={t['alg']}:by={t['by']}:edit={t['edit']}:allowed={t['allowed']}"


def c02_need(o):
    return [f"rp:{o['o']['rp']['v']}:{o['o']['rp'].get('err', '-')}", f"find:{o['o']['find']}", f"at:{o['o']['at']['v']}", f"hint:{o['o']['hint']['v']}"]


def c14a_sig(o):
    a = o["c"]["a"]
    return f"iss={a['iss']}:sub={a['sub']}:by={a['by']}:kid={a['kid']}:alg={a['alg']}:aud={a['aud']}:subject={o['c']['cfg']['subject']}:maxAge={o['c']['cfg']['maxAge']}:offset={o['c']['cfg'].get('offset', 0)}:probe={o['c']['probe']}:prior={o['c'].get('prior', 'none')}"


def c14a_need(o):
    return [f"{k}:{v['v']}" for k, v in o["o"].items() if isinstance(v, dict)]


def c14r_sig(o):
    c = o["c"]
    return f"iss={c['iss']}:cid={c['cid']}:by={c['by']}:kid={c['kid']}:alg={c['alg']}:aud={c['aud']}:rtype={c['rtype']}:edit={c['edit']}"


def c14r_need(o):
    return [f"{r}:{o['o'][r]['class']}:{o['o'][r]['src']}" for r in ("P", "L")]


def c11_sig(o):
    c = o["c"]
    return f"kind={c['kind']}:mode={c['mode'] or 'default'}:uri={c['uri']}"


def c11_need(o):
    return [f"{r}:{o['o'][r]['class']}:{o['o'][r]['channel']}" for r in ("P", "L")] + [f"kind:{o['c']['kind']}"]


def c12_sig(o):
    c = o["c"]
    if c["kind"] == "endpoint":
        return f"endpoint:{c['t']}:{c['router']}:regs={'+'.join(c['regs'])}:customs={'+'.join(c['customs'])}"
    if c["kind"] == "merge":
        return f"merge:{c['t']}:regs={'+'.join(c['regs'])}:customs={'+'.join(c['customs'])}"
    if c["kind"] == "decode":
        return f"decode:{c['field']}:{c['form']}"
    return f"seal:{c['plain']}:{c['key']}:{c['via']}"


def c12_need(o):
    c = o["c"]
    if c["kind"] == "endpoint":
        return [f"endpoint:{c['t']}:{c['router']}"] if o["o"]["ok"] else []
    if c["kind"] == "merge":
        return [f"merge:{c['t']}"]
    if c["kind"] == "decode":
        return [f"decode:{o['o']['v']}"]
    return [f"seal:{o['o']['open']}"]


def c10_check(pid, tier, seed, replay=None):
    """C10 = exhaustive fault sweep (Faults table) + fault injection inside random histories (rule C10.failclosed of OP.tla)."""
    import opfamily
    t0 = time.time()
    wd = workdir(pid)
    try:
        if tier == "replay":
            if os.path.exists(os.path.join(replay, "trace.ndjson")):
                return opfamily.op_replay(pid, wd, replay, opfamily.FAMILY[pid])
            tlc(wd, "OPEmitWorld.tla", cfg="OPEmitWorld.cfg", workers=1, timeout=120)
            return table_replay(pid, wd, replay, [("Faults", "tbl-faults", ("C10.",))])
        part = opfamily.op_part(pid, tier, seed, wd, opfamily.FAMILY[pid])
        tb = table_run(pid, "Faults", "tbl-faults", tier, seed, wd, ("C10.",),
                       lambda o: f"{o['c']['flow']}:{o['c']['router']}:{o['o'].get('faultedCall', '')}:{o['o']['class']}",
                       need=lambda o: [f"faulted:{o['c']['flow']}:{o['c']['router']}"] if o["o"]["faulted"] else ["clean"], label="storage fault sweep",
                       harness_args=["-world", "world.json"])
        flows = {json.loads(l)["c"]["flow"] for l in open(os.path.join(wd, "Faults.cases.ndjson"))}
        missing = [f"{f}:{r}" for f in sorted(flows) for r in ("P", "L") if not tb["coverage"].get(f"faulted:{f}:{r}")]
        if missing or tb["divergences_total"]:
            raise Inconclusive(f"fault sweep vacuous: no fault reached in {missing}; prepared flows that did not succeed fault-free: {tb['divergences'][:3]}")
        new, known = report(pid, tb["viols"], lambda v: v["signature"],
                            lambda v: dict(rule=v["rule"], module=v["module"], id=v["id"], case=v["case"], observed=v["observed"]),
                            wd, [], seed, tier, extra_save=write_cases)
        merge_evidence(pid, tier, seed, t0, part["coverage"], [tb], part["new"] + new, part["known"] + known,
                       part["assumptions"] + ["fault sweep: 29 prepared flows x both routers x k-th storage call (k <= 12 / 16) x {error, deadline}; the fault plan is active only while the request is served",
                                              "level: every (flow, router, k, kind) is executed, i.e. exhaustive over the fault positions of the prepared histories"])
        return 1 if (part["new"] + new) else 0
    finally:
        cleanup(wd)


def composed_check(fam_pid, parts, assumptions, world=False, extra=()):
    """OP-family histories (rules with the property's prefix) + decision tables."""
    def chk(pid, tier, seed, replay=None):
        import opfamily
        t0 = time.time()
        wd = workdir(pid)
        try:
            if tier == "replay":
                if os.path.exists(os.path.join(replay, "trace.ndjson")):
                    return opfamily.op_replay(pid, wd, replay, opfamily.FAMILY[pid])
                tlc(wd, "OPEmitWorld.tla", cfg="OPEmitWorld.cfg", workers=1, timeout=120)
                return table_replay(pid, wd, replay, [(p["module"], p["sub"], p["prefixes"]) for p in parts])
            part = opfamily.op_part(pid, tier, seed, wd, opfamily.FAMILY[pid])
            tbs, viols = [], []
            for p in parts:
                tb = table_run(pid, p["module"], p["sub"], tier, seed, wd, p["prefixes"], p["sig"], need=p.get("need"), label=p.get("label"),
                               harness_args=["-world", "world.json"] if world else ())
                for k in p.get("required", ()):
                    # a kind of observation that is missing while a rule of this table already fails is a symptom of that failure, not vacuity
                    if not tb["coverage"].get(k) and not tb.get("crashed") and not tb["viols"]:
                        raise Inconclusive(f"vacuous table run ({p['module']}): no observation {k}; have {sorted(tb['coverage'])[:40]}")
                tbs.append(tb)
                viols += tb["viols"]
            new, known = report(pid, viols, lambda v: v["signature"],
                                lambda v: dict(rule=v["rule"], module=v["module"], id=v["id"], case=v["case"], observed=v["observed"]),
                                wd, [], seed, tier, extra_save=write_cases)
            more = list(assumptions)
            for name, fn in extra:      # further pipelines (other spec families) judged on this property's rule prefix
                x = fn(pid, tier, seed, wd)
                new, known = new + x["new"], known + x["known"]
                part["coverage"][name] = dict(design=x["coverage"].get("design"), events=x["coverage"].get("evaluations"),
                                              traces_validated_against_impl=x["coverage"].get("traces_validated_against_impl"))
                part["coverage"]["evaluations"] += x["coverage"].get("evaluations", 0)
                part["coverage"]["traces_validated_against_impl"] += x["coverage"].get("traces_validated_against_impl", 0)
                more += x["assumptions"][:1]
            merge_evidence(pid, tier, seed, t0, part["coverage"], tbs, part["new"] + new, part["known"] + known, part["assumptions"] + more)
            return 1 if (part["new"] + new) else 0
        finally:
            cleanup(wd)
    return chk


def c09_sig(o):
    c = o["c"]
    k = c["kind"]
    if k == "http":
        return f"http:{c['router']}:{c['ep']}:{c['method']}:{c['mal']}:{c['grant']}:{c['flags']}"
    if k == "verify":
        return f"verify:{c['fn']}:{c['payload']}:{c['segs']}"
    if k == "decode":
        return f"decode:{c['t']}:{c['field']}:{c['form']}"
    return f"client:{c['helper']}:{c['status']}:{c['body']}"


def c09_need(o):
    return [f"{o['c']['kind']}:{o['o']['class']}"]


def c19_sig(o):
    c = o["c"]
    if c["kind"] == "config":
        f, k = c["flags"], c["caps"]
        return (f"config:{c['router']}:{c['issuer']}:{c['endpoints']}:" + "".join(x[0] if f[x] else "-" for x in ("s256", "post", "pkjwt", "refresh", "reqobj"))
                + ":" + "".join(x if k[x] else "-" for x in ("cc", "te", "dev")))
    if c["kind"] == "issuer":
        return f"issuer:{c['scheme']}:{c['host']}:{c['deco']}:insecure={c['insecure']}:{c['via']}"
    return f"{c['kind']}:{c.get('doc')}"


def c19_need(o):
    c = o["c"]
    if c["kind"] == "config":
        return [f"config:{c['router']}:{c['issuer']}:{c['endpoints']}", f"token:{o['o']['issuerToken'][:5]}", f"reqobj:{o['o']['reqobjOK']}", f"s256:{o['o']['s256OK']}"]
    return [f"{c['kind']}:{o['o']['accepted']}"]


def c20_check(pid, tier, seed, replay=None):
    """C20: sequential isolation programs + concurrent programs under the Go race detector (spec/Isolation.tla)."""
    import glob, re
    t0 = time.time()
    wd = workdir(pid)
    try:
        binp = go_build(wd, race=True)
        tlc(wd, "OPEmitWorld.tla", cfg="OPEmitWorld.cfg", workers=1, timeout=120)
        env = dict(GOENV, VERIF_RACELOG=os.path.join(wd, "race"), GORACE=f"log_path={os.path.join(wd, 'race')} halt_on_error=0 exitcode=0")
        if tier == "replay":
            shutil.copy(os.path.join(replay, "Isolation.cases.ndjson"), wd)
            rc, out = run([binp, "tbl-isolation", "-in", "Isolation.cases.ndjson", "-out", "obs.ndjson", "-world", "world.json"], wd, env=env)
            t = tlc(wd, "IsolationTrace.tla", cfg="IsolationTrace_quick.cfg", timeout=1800, outfile="Isolation.trace.out")
            bad = list(tlc_lines(os.path.join(wd, "Isolation.trace.out"), "VIOL"))
            for v in bad[:20]:
                log("  ", json.dumps(v))
            for f in glob.glob(os.path.join(wd, "race.*")):
                log(open(f).read()[:3000])
            if bad:
                log(f"VIOLATION property={pid} replay={replay}")
                return 1
            return 0
        sig = lambda o: f"{o['c']['kind']}:{'+'.join(o['c']['prog'])}:{','.join(sorted(set(o['o']['changed']) | set(o['o'].get('unhealthy', []))) ) or 'race'}"
        tb = table_run(pid, "Isolation", "tbl-isolation", tier, seed, wd, ("C20.",), sig,
                       need=lambda o: [o["c"]["kind"]] + [f"op:{x}" for x in o["c"]["prog"]], binp=binp, label="isolation programs",
                       harness_args=["-world", "world.json"], env=env)
        reports = []
        for f in glob.glob(os.path.join(wd, "race.*")):
            reports += [r for r in open(f, errors="replace").read().split("==================") if "DATA RACE" in r]
        lib, harness_only = [], []
        for r in reports:
            # the two conflicting accesses: the first frames after "Write at / Read at / Previous write / Previous read"
            acc = re.findall(r"(?:Write|Read|Previous write|Previous read) at .*?\n((?:  .*\n      .*\n){1,4})", r)
            (lib if any("github.com/zitadel/oidc" in a for a in acc) else harness_only).append(r)
        if harness_only and not lib:
            raise Inconclusive("race reports with no library frame in either access (harness race):\n" + harness_only[0][:2500])
        if reports:
            with open(os.path.join(wd, "race.txt"), "w") as f:
                f.write("\n==================\n".join(reports))
        for v in tb["viols"]:
            if v["rule"] == "C20.racefree" and lib:
                m = re.findall(r"  (github.com/zitadel/oidc[^\s(]+)\(", lib[0])
                v["race_frames"] = m[:4]
        new, known = report(pid, tb["viols"], lambda v: v["signature"],
                            lambda v: dict(rule=v["rule"], module=v["module"], id=v["id"], case=v["case"], observed=v["observed"], race_frames=v.get("race_frames")),
                            wd, ["race.txt"], seed, tier, extra_save=write_cases)
        merge_evidence(pid, tier, seed, t0, None, [tb], new, known,
                       ["sequential programs: every sequence of <= 2 (quick) / <= 3 (thorough) of the 27 operations; after each program the snapshot of 12 shared cells "
                        "(package defaults, default and caller-supplied HTTP client incl. whether they still follow redirects, discovery and routes of a provider / legacy "
                        "server created earlier, endpoints of an RP created earlier, a storage-owned DeviceAuthorizationState) is compared with the snapshot before; cells are restored between programs",
                        "concurrent programs: every pair of operations, three goroutines each, released together, six repetitions, built with -race; data races are dynamic "
                        "observations of the Go race detector (a race needing a schedule it never sees is missed) - DESIGN.md §4",
                        "the *oauth2.Config handed to NewRelyingPartyOAuth and option arguments consumed at construction are not treated as caller-owned cells"])
        cov = tb["coverage"]
        if not tb.get("crashed") and (not cov.get("seq") or not cov.get("conc")):
            raise Inconclusive("vacuous: no sequential or no concurrent program ran")
        return 1 if new else 0
    finally:
        cleanup(wd)


CHECKS = {
    "C16": composed_check("C16",
        [dict(module="UserCode", sub="tbl-usercode", prefixes=("C16.",), label="device authorization response table",
              sig=lambda o: f"usercode:{o['c']['via']}:{o['c']['charset']}:{o['c']['amount']}:{o['c']['interval']}",
              need=lambda o: [f"via:{o['c']['via']}:{o['o']['ok']}"], required=["via:func:True", "via:P:True", "via:L:True"])],
        ["device authorization response: 4 alphabets (incl. a single character and non-ASCII runes) x 5 lengths x 5 dash intervals, 40 codes / responses per case; "
         "unguessability of the device code is checked as length (>= 128 bit) and pairwise distinctness only; empty alphabets / zero lengths are non-configurations; "
         "the deprecated absolute UserFormURL is not exercised"],
        world=True, extra=[("closed_loop", lambda pid, tier, seed, wd: __import__("misc").flow_part(pid, tier, seed, wd, ("C16.",)))]),
    "C20": c20_check,
    "C05": composed_check("C05",
        [dict(module="Assertion", sub="tbl-assertion", prefixes=("C05.",), sig=lambda o: c14a_sig(o), need=lambda o: c14a_need(o),
              label="JWT assertion table (private_key_jwt client authentication)", required=["codeP:accept", "codeL:accept", "codeP:reject", "codeL:reject"])],
        ["private_key_jwt: spec/Assertion.tla, rule C05.assertion.client - a code / a token of the probe client is served on an assertion only when the assertion is "
         "signed with a key held for that client and names it as issuer (verifiers with and without subject delegation)"]),
    "C04": composed_check("C04",
        [dict(module="RequestObject", sub="tbl-reqobj", prefixes=("C04.",), sig=lambda o: c14r_sig(o) + f":qpkce={o['c']['qpkce']}:opkce={o['c']['opkce']}", need=lambda o: c14r_need(o),
              label="request object table (PKCE challenge of the stored request)", required=["P:login:obj", "L:login:obj"])],
        ["request objects: the PKCE challenge (value and transformation) stored for the request is the object's when the object counts and carries one, else the query's "
         "(spec/RequestObject.tla, rule C04.reqobj.pkce) - the token endpoint holds the code_verifier against exactly that pair"]),
    "C19": simple_table_check(
        [dict(module="Discovery", sub="tbl-discovery", prefixes=("C19.",), sig=c19_sig, need=c19_need, label="discovery table",
              required=["config:P:host:default", "config:L:host:custom", "config:P:path:custom", "config:L:path:default", "config:P:dynamicHost:default", "config:L:dynamicHost:custom", "config:L:host:legacyOwn", "config:L:path:legacyNoDevice",
                        "token:same", "reqobj:True", "reqobj:False", "s256:True", "issuer:True", "issuer:False", "discover:True", "discover:False"])],
        ["every configuration is built for real (op.NewProvider with the options / storage capabilities of the case, both routers, the Server router served with the provider's own endpoints)",
         "'served' = the route does not answer 404 / 405 to the endpoint's method; 'accepted grant' = the token endpoint's answer is not unsupported_grant_type (probed with the credentials of a client registered for that grant)",
         "issuer shapes: host only, with a path component (handler mounted under that path), derived from the request host; endpoint tables: defaults, every endpoint moved to a custom relative path, "
         "a legacy server constructed with its own table (different from the wrapped provider's; with and without a device authorization endpoint); "
         "absolute custom endpoint URLs are outside the statement (they are not issuer-relative by intention)",
         "quick: the two base option sets (all on / all off) and their single-option deviations x all capability sets; thorough: all 32 option sets"],
        world=True),
    "C09": composed_check("C09",
        [dict(module="Handler", sub="tbl-handler", prefixes=("C09.",), sig=c09_sig, need=c09_need, label="malformed-input sweep",
              required=["http:response", "verify:error", "verify:value", "decode:error", "decode:value", "client:error", "client:value"])],
        ["input space covered per malformation CLASS (one concrete member per class); byte-level universality is not claimed (DESIGN.md §4)",
         "observed: recover() around ServeHTTP / each library call, a ResponseWriter counting WriteHeader calls and recording the storage-call count at the first write",
         "client helpers run against a RoundTripper answering every request with the case's status and body (after a usable discovery document where construction needs one)"],
        world=True),
    "C10": c10_check,
    "C12": simple_table_check(
        [dict(module="Codec", sub="tbl-codec", prefixes=("C12.",), sig=c12_sig, need=c12_need, label="codec table",
              required=["merge:IDTokenClaims", "merge:AccessTokenClaims", "merge:LogoutTokenClaims", "merge:UserInfo", "merge:IntrospectionResponse",
                        "merge:JWTProfileAssertionClaims", "merge:JWTTokenRequest", "merge:ActorClaims", "decode:value", "decode:zero", "decode:error",
                        "seal:plain", "seal:different", "endpoint:UserInfo:P", "endpoint:UserInfo:L", "endpoint:IntrospectionResponse:P", "endpoint:IntrospectionResponse:L"])],
        ["merge law and tolerant-form tables are model-checked on the table level; what json.Marshal / json.Unmarshal really do is observed per case and "
         "projected to reg | custom | zero | absent (merge) and value | zero | error | invented | panic (decode) by harness/tbldrv/codec.go",
         "custom claims colliding with a registered name carry a value of the registered claim's JSON type (an ill-typed custom value under a registered "
         "name cannot round-trip by construction)",
         "sealing: observed on six plaintext classes x three key relations through crypto.EncryptAES/DecryptAES and op.NewAESCrypto; confidentiality of AES-CFB is not claimed; "
         "the empty plaintext is exempt from 'only under the same key'",
         "endpoint cases: /userinfo and /oauth/introspect of both routers over a storage that fills the response object with the case's registered fields and custom claims"],
        world=True),
    "C11": composed_check("C11",
        [dict(module="AuthResponse", sub="tbl-authresp", prefixes=("C11.",), sig=c11_sig, need=c11_need, label="authorization response table",
              required=["P:response:query", "P:response:fragment", "P:response:form", "L:response:query", "L:response:fragment", "L:response:form",
                        "L:refused:none", "kind:code", "kind:tokens", "kind:idtoken", "kind:errCallback", "kind:errAuthorize"])],
        ["the receiving end (spec/RP.tla, rules C11.rp.*): callbacks delivered to rp.CodeExchangeHandler by GET and by POST (form_post) are exchanged and hand the application its state",
         "character fidelity is OBSERVED, not model-checked: the monitor judges per-parameter 'intact' flags computed by the harness after decoding the "
         "Location query / raw fragment with url.ParseQuery (as a user agent's form decoding) or the HTML page with golang.org/x/net/html",
         "strings are one representative character per class (delimiters, escapes, markup, non-ASCII, control, a literal %41), length <= 2 (quick: all length-1 "
         "strings and selected pairs); universality over all byte strings is not claimed",
         "redirect URI shapes: plain, with query, query containing '+' and %2B, custom scheme, trailing '?', query containing %26 %3D and UTF-8"],
        extra=[("relying_party_callbacks", lambda pid, tier, seed, wd: __import__("misc").rp_part(pid, tier, seed, wd, ("C11.",))),
               ("closed_loop", lambda pid, tier, seed, wd: __import__("misc").flow_part(pid, tier, seed, wd, ("C11.",)))]),
    "C14": simple_table_check(
        [dict(module="Assertion", sub="tbl-assertion", prefixes=("C14.",), sig=c14a_sig, need=c14a_need, label="JWT assertion table",
              required=["verify:accept", "verify:reject", "bearerP:accept", "bearerL:accept", "codeP:accept", "codeL:accept", "codeP:reject", "codeL:reject"]),
         dict(module="RequestObject", sub="tbl-reqobj", prefixes=("C14.",), sig=c14r_sig, need=c14r_need, label="request object table",
              required=["P:login:obj", "L:login:obj", "P:refused:none", "L:refused:none"]),
         dict(module="Interop", sub="tbl-interop", prefixes=("C14.",), label="client-helper interoperability table",
              sig=lambda o: f"interop:{o['c']['helper']}:{o['c']['key']}:{o['c']['router']}", need=lambda o: [f"{o['c']['helper']}:{o['o']['v']}"],
              required=["client.SignedJWTProfileAssertion:accept", "oidc.GenerateJWTProfileToken:accept", "profile.NewJWTProfileTokenSource:accept",
                        "rp.CodeExchangeHandler+WithJWTProfile:accept", "rs.NewResourceServerJWTProfile:accept"])],
        ["storage holds keys per client (A: RSA, EC, Ed25519; B: EC; one key for nobody); assertions / request objects are built and signed byte by byte by the harness",
         "HTTP entries use a provider whose JWTProfileVerifier takes the case's subject check (op.SubjectCheck), max age 1 h, offset 1 s, on both routers",
         "identity probe: an authorization code of the `probe` client is redeemed with the assertion as client authentication",
         "interoperability: spec/Interop.tla - five client helpers x four private-key formats (PKCS#1 / PKCS#8 RSA, P-256, Ed25519) x both routers; RSA and P-256 must be accepted "
         "with the client's identity, Ed25519 (EdDSA, not in the provider's default list) may go either way",
         "case domain: <= 2 (quick) / <= 3 (thorough) deviations from three fitting assertions / two fitting request objects"]),
    "C02": simple_table_check(
        [dict(module="Signature", sub="tbl-signature", prefixes=("C02.",), sig=c02_sig, need=c02_need, label="signature / key-selection table",
              required=["rp:accept:-", "rp:reject:signature", "rp:reject:alg", "rp:reject:parse", "rp:reject:multiple", "rp:reject:payload",
                        "find:found", "find:none", "find:multiple", "at:accept", "hint:accept"]),
         dict(module="Assertion", sub="tbl-assertion", prefixes=("C02.",), sig=lambda o: c14a_sig(o), need=lambda o: c14a_need(o), label="JWT assertion table (key rules)",
              required=["verify:accept", "bearerP:accept", "bearerL:accept"]),
         dict(module="RequestObject", sub="tbl-reqobj", prefixes=("C02.",), sig=lambda o: c14r_sig(o), need=lambda o: c14r_need(o), label="request object table (key rules)",
              required=["P:login:obj", "L:login:obj"]),
         dict(module="KeyWiring", sub="tbl-keywiring", prefixes=("C02.",), label="configured key set table",
              sig=lambda o: f"wiring:{o['c']['opts']}:{o['c']['kind']}:{o['c']['by']}:{o['c']['router']}", need=lambda o: [f"{o['c']['kind']}:{o['o']['v']}"],
              required=["at:accept", "at:reject", "hint:accept", "hint:reject"]),
         dict(module="KeyRotation", sub="tbl-keyrotation", prefixes=("C02.",), label="key rotation programs (one long-lived key set)",
              sig=lambda o: "rotation:" + ">".join((s["op"][0] + (",".join(s["set"]) if s["op"] == "publish" else s["by"] + "/" + s["kid"])) for s in o["c"]["steps"]) + ":init=" + ",".join(o["c"]["init"]) + (":skip" if o["c"].get("skip") else ""),
              need=lambda o: [f"{e}:{x['v']}:dl{x['dl']}" for e in ("rp", "op") for x in o["o"][e] if x["v"] != "-"],
              required=["rp:accept:dl0", "rp:accept:dl1", "rp:reject:dl0", "rp:reject:dl1", "op:accept:dl1", "op:reject:dl1"])],
        ["keys are real RSA-2048 / P-256 / Ed25519 keys; signatures are computed by the harness with crypto/* directly (not with go-jose), forged "
         "variants (foreign key, HMAC keyed with the public key, alg none, empty / garbage signature, re-encoded or replaced payload, JSON "
         "serialisations smuggling a second payload, two signatures) are built byte by byte",
         "entry points: rp.VerifyIDToken over rp.NewRemoteKeySet (fake JWKS endpoint), op.VerifyAccessToken and op.VerifyIDTokenHint over op.OpenIDKeySet, "
         "oidc.FindMatchingKey; JWT-profile assertions and request objects (per-client key storage): rules C02.assertion.key / C02.reqobj.key of C14's tables, run here as well",
         "case domain: all token deviations in <= 2 dimensions from the fitting token of every key of every key set of <= 2 keys",
         "spec/KeyWiring.tla: which key set the provider's verifiers use under op.WithAccessTokenKeySet / op.WithIDTokenHintKeySet (userinfo and end_session on both routers)"],
        world=True),
    "C03": c03_check,
    "C01": simple_table_check(
        [dict(module="Verifier", sub="tbl-verifier", prefixes=("C01.",), sig=c01_sig, need=c01_need, label="ID-token verifier table",
              required=["v:accept", "err:expired", "err:audience", "err:issuer", "err:iatFuture", "err:iatOld", "err:azpMissing", "err:azpInvalid",
                        "err:subject", "err:signature", "err:athash", "err:nonce", "err:acr", "err:authTimeOld", "err:authTimeMissing"])],
        ["tokens are really signed JWTs (ES256/RS256/ES384/EdDSA) built relative to a `now` sampled immediately before the call; every time-valued "
         "claim lies at least 2 s away from a boundary whenever the spec allows only one verdict",
         "the harness computes at_hash itself (crypto/sha256, sha512), independently of oidc.ClaimHash",
         "case domain: all token deviations in <= 2 (quick) / <= 3 (thorough, near the default configurations) dimensions from the valid token of each of the 72 verifier configurations"]),
}
