#!/usr/bin/env python3
"""Writes /verif/MANIFEST.json from the table below (kept next to the check registry so they cannot drift)."""
import json, os, sys
sys.path.insert(0, os.path.dirname(os.path.abspath(__file__)))
VERIF = os.path.dirname(os.path.dirname(os.path.abspath(__file__)))

# prints the suite's `go test -json` events (guard off) and ends with tools/baseline.sh, whose exit status says whether every test of
# BASELINE.json's stable_pass passed (three network-dependent tests fail in this offline sandbox on the untouched tree as well)
BASELINE_OFF = ("cd /repo && export GOFLAGS=-mod=mod GOPROXY=off && go build ./... && "
                "(go test -json -vet=off -count=1 -timeout 25m ./... ; true) && sh /verif/tools/baseline.sh")

OP_NOTE = ("Trusted: TLC; the harness store (harness/modelstore) as an implementation of the documented storage contract; the "
           "projection of HTTP responses to abstract outcomes (harness/opdrv). Bounds: design cfgs under spec/OPDesign_*.cfg; "
           "implementation traces are TLC-simulated behaviours plus seeded random histories, not all histories.")

CLAIMS = {
    "C20": dict(level="exploration", ref="DESIGN.md §3 C20, §4",
                text="spec/Isolation.tla names the shared cells of the statement (package defaults, default and caller-supplied HTTP client, instances created earlier, "
                     "storage-owned device state), the operations (provider construction with every endpoint option, serving, device poll, every RP / RS / "
                     "token-exchange client call with the caller's and with the default HTTP client) and the promise WriteSet(op) = {} ; TLC enumerates the "
                     "programs (sequences of operations; pairs run concurrently). Each program is executed on real instances: sequential programs compare "
                     "snapshots of every cell before and after, concurrent programs run under the Go race detector; the monitor IsolationTrace judges "
                     "'no cell changed' and 'no race report'.",
                technique="TLA+ spec (cells, operations, write sets, program set) enumerated with TLC; programs executed on real instances (snapshots, Go race detector); observations judged by the TLA+ monitor",
                note="Exploration: program-exhaustive for the bounded program set; data races are what the dynamic race detector sees (DESIGN.md §4)."),
    "C19": dict(level="model_checking", ref="DESIGN.md §3 C19",
                text="spec/Discovery.tla: configuration = five provider options x three storage capabilities x issuer shape x endpoint table x router; "
                     "Advertised(cfg) / Accepted(cfg) transcribe the discovery builders and the two grant dispatchers and TLC checks that they agree in every "
                     "configuration; each configuration is built for real, the document fetched, every advertised URL checked to be issuer-relative and served, "
                     "every token-endpoint grant probed, a code flow run through the ADVERTISED endpoints (issuer of the ID token, S256 and plain PKCE), and a "
                     "signed request object sent when support is advertised; plus the issuer-validation table of provider construction (11 issuer forms x "
                     "insecure opt-in) and the issuer comparison of client.Discover (6 document issuers). The monitor DiscoveryTrace judges the observations.",
                technique="TLA+ decision-table spec model-checked with TLC; every configuration executed on both routers; observations judged by the TLA+ monitor",
                note="Bounds: DiscoveryDesign_*.cfg."),
    "C17": dict(level="model_checking", ref="DESIGN.md §3 C17",
                text="spec/RP.tla (+ RPDesign, RPMBT, RPTrace): state = per browser the attempt whose state / PKCE verifier the RP's signed cookies hold; events "
                     "StartLogin(b) and Callback(b, attempt named by the state parameter, form of the state parameter, cookie tampering) carry their outcome. "
                     "TLC checks the transcription of AuthURLHandler / CodeExchangeHandler / CheckQueryCookie against the rules C17.* for two browsers and "
                     "interleaved attempts; TLC-generated behaviours, seeded random histories and overlapping logins through one handler (race detector) are "
                     "run against the real handlers with a fake provider that records every token request, and every recorded event is judged by the monitor: "
                     "a code is exchanged / the application callback runs only if the state equals the state in this browser's genuine state cookie, otherwise "
                     "the unauthorized handler runs and no request reaches the provider; the code_verifier sent is the one in the pkce cookie whose S256 "
                     "challenge was put into that attempt's authorization URL; the URL carries client, redirect URI, scopes and state.",
                technique="TLA+ spec model-checked with TLC; TLC behaviours replayed into the real handlers; recorded traces (incl. concurrent logins under -race) validated by the TLA+ monitor",
                note="Trusted: TLC; the hand-rolled cookie jar and the fake token endpoint (harness/rpdrv)."),
    "C09": dict(level="exploration", ref="DESIGN.md §3 C09, §4",
                text="spec/Handler.tla: the per-execution state machine Idle -> Started -> StorageCall* -> Responded (library calls: Returned) has no transition for a "
                     "panic, a second response, storage work after an error response, a value returned for an error status / missing document, or a verifier "
                     "accepting a non-object payload; TLC enumerates the case set: endpoint x method x 45 malformation classes (x grant type) x provider "
                     "configuration on both routers, 7 verifiers x 20 payload classes / 7 segment shapes, 15 claims and response types x 22 fields x 12 JSON "
                     "forms, 15 client helpers x 6 provider statuses x 11 bodies. Each case is concretised and executed (recover(), counting ResponseWriter, "
                     "storage-call count at the first write); the monitor HandlerTrace judges the observations. The universal rules C09.nopanic / "
                     "C09.oneResponse of OP.tla are evaluated on every event of seeded histories of all operations as well.",
                technique="TLA+ monitor spec (missing transitions) + TLC-enumerated case set; class-exhaustive, member-sampled execution on the real code; observations judged by the TLA+ monitors",
                note="Exploration: malformation classes, not all byte strings (DESIGN.md §4)."),
    "C10": dict(level="fault_enumeration", ref="DESIGN.md §3 C10",
                text="spec/Faults.tla: case = (flow, router, k, kind): the k-th storage call made while the request completing a prepared flow is served fails "
                     "with a plain error or context.DeadlineExceeded; 29 flows (authorize with and without hint, callback code / form_post / implicit / id_token, "
                     "code exchange for opaque / JWT / private_key_jwt clients, refresh, client credentials, jwt-bearer, token exchange x4, device authorization, "
                     "device poll, userinfo, introspection, revocation x3, end session x2) x both routers x every k up to the longest call sequence. Rule: a "
                     "failed storage call => error answer (OAuth error document / error page >= 400 / error redirect to the validated URI / inactive) and no "
                     "code, token, claim, device code or active:true in status, body or Location. In addition rule C10.failclosed of OP.tla is evaluated by "
                     "the monitor on seeded random histories in which a third of the operations run with a failing storage method.",
                technique="TLA+ spec of the fault plan model-checked / exported with TLC; exhaustive fault-position sweep executed on both routers; outcomes judged by the TLA+ monitors (FaultsTrace, OPTrace)",
                note="Exhaustive over fault positions of the prepared flows; storage = harness store with a fault plan scoped to request serving."),
    "C12": dict(level="model_checking", ref="DESIGN.md §3 C12, §4",
                text="spec/Codec.tla: (merge) for each of the eight claims types, every choice of <= 2 (quick) / <= 4 (thorough) registered claims set and custom "
                     "claims present among the probed names (all colliding with registered names) plus one non-colliding custom claim: registered wins, custom "
                     "survives where the registered field is unset and omitempty, nothing is invented, Marshal(Unmarshal(Marshal x)) = Marshal x; (decode) field "
                     "kind x JSON form table: documented tolerant forms -> value, every other form -> zero or error, never panic / invented value; (seal) plaintext "
                     "class x key relation: opens exactly under the same key, fresh IV. TLC checks the tables; each case is executed on the real json codec / AES "
                     "sealing and the observed projection is judged by the monitor CodecTrace.",
                technique="TLA+ decision-table spec model-checked with TLC; cases executed on the real codec; observed outcomes judged by the TLA+ monitor",
                note="Sealing and byte-level codec fidelity are observed on class representatives (DESIGN.md §4); the table part is exhaustive within CodecDesign_*.cfg."),
    "C11": dict(level="exploration", ref="DESIGN.md §3 C11, §4",
                text="spec/AuthResponse.tla gives the channel table (response mode x response type x kind of response -> query | fragment | form), the parameter "
                     "set of each kind and the exhaustive case set (kind x mode x redirect-URI shape x state / session_state strings over a class alphabet "
                     "of delimiter, escape and markup characters); TLC checks the table and exports the cases. Each case is run through /authorize and "
                     "/authorize/callback of both routers; the harness decodes the response as a user agent would and reports, per parameter, whether the "
                     "recovered value equals the sent / produced one, whether the registered query survived, whether the target is the registered URI and "
                     "whether the form markup is intact; the monitor AuthResponseTrace judges these observations with the rules C11.*. The flow-level rule "
                     "C11.state of OP.tla is evaluated on every Callback event of the C03/C04 histories as well.",
                technique="TLA+ decision-table spec (channel table + case set) model-checked with TLC; cases executed on both routers; fidelity observed by the harness and judged by the TLA+ monitor",
                note="Encode/decode fidelity is not something TLC can conclude from a model (DESIGN.md §4): level 'exploration', class-exhaustive and member-sampled."),
    "C14": dict(level="model_checking", ref="DESIGN.md §3 C14",
                text="Two decision-table specs. spec/Assertion.tla: assertion (iss, sub, aud, exp, iat, signing key of client A / B / nobody, header kid, alg, "
                     "payload edit) x verifier configuration (subject check default / delegation, max age) x identity probe; TLC checks the transcription of "
                     "op.VerifyJWTAssertion against the property sentence; each exported case is signed for real and run through op.VerifyJWTAssertion, "
                     "grant_type=jwt-bearer and an authorization-code exchange with client_assertion on both routers (the code belongs to the probe client, so "
                     "tokens mean the provider took the caller for that client). spec/RequestObject.tla: request object (iss, client_id, aud, response_type, "
                     "key, kid, alg, payload edit, provider flag) on GET /authorize of both routers; observed: login or refusal and whether the stored state / "
                     "nonce / scope / code_challenge come from the object or from the query. The monitors judge with the same rules.",
                technique="TLA+ decision-table specs model-checked with TLC; TLC-exported cases executed on the real verifier and both routers; observed outcomes judged by the TLA+ monitors",
                note="Trusted: TLC; byte-level construction of assertions (harness/tbldrv/assertion.go); harness store's per-client key table. "
                     "EdDSA assertions (Ed25519 client keys) are refused by the provider's fixed default list: counted as either verdict."),
    "C02": dict(level="model_checking", ref="DESIGN.md §3 C02",
                text="Decision-table spec spec/Signature.tla: case = (published key set of <= 2 keys [type, kid, use], token [serialisation, header alg, "
                     "header kid, who signed, payload edit, allowed-algorithm list]). TLC checks the transcription of oidc.ParseToken + CheckSignature + "
                     "FindMatchingKey against the property sentence (accept => one signature, allowed alg, signer in set, type fits, use permits signatures, "
                     "kid consistent, payload = signed payload; ambiguity => reject; unique correct match => accept). Every exported case is built with real "
                     "keys and bytes and fed to rp.VerifyIDToken (remote key set), op.VerifyAccessToken, op.VerifyIDTokenHint (OpenIDKeySet) and "
                     "oidc.FindMatchingKey; the monitor SignatureTrace judges the observed outcomes with the same rules.",
                technique="TLA+ decision-table spec model-checked with TLC; TLC-exported cases executed on the real verifiers; observed outcomes judged by the TLA+ monitor",
                note="Trusted: TLC; byte-level construction of tokens in harness/tbldrv/signature.go; go-jose's parser is part of the implementation under test. "
                     "Bounds: SignatureDesign_*.cfg (quick: RSA/EC keys, thorough adds Ed25519 keys and keys without use)."),
    "C01": dict(level="model_checking", ref="DESIGN.md §3 C01",
                text="Decision-table spec spec/Verifier.tla: every case = (abstract ID token over 13 claim dimensions incl. time offsets around every boundary, "
                     "verifier configuration over offset / max iat age / max auth age / nonce / acr). TLC checks for every case that the chain of Check* calls "
                     "(Verdicts) is sound (accept => the property sentence holds, loosely) and complete (sentence holds with margin => accept) - VerifierDesign; "
                     "every exported case becomes a really signed JWT and a real rp.NewIDTokenVerifier, rp.VerifyIDToken / rp.VerifyTokens is called, and the "
                     "monitor VerifierTrace evaluates the same two declarative rules and 'claims returned unchanged' on the observed outcome.",
                technique="TLA+ decision-table spec model-checked with TLC; TLC-exported cases executed on the real verifier; observed outcomes judged by the TLA+ monitor",
                note="Trusted: TLC; the concretisation of abstract tokens (harness/tbldrv/verifier.go). Time boundaries carry a 2 s either-verdict zone. "
                     "Exhaustive within the deviation-bounded case domain of VerifierDesign_*.cfg, not over all tokens."),
    "C03": dict(level="model_checking", ref="DESIGN.md §3 C03",
                text="(i) Redirect-URI decision table spec/RedirectURI.tla: every (registration, requested URI, response type, other request defect) case "
                     "- URIs as component records within two deviations of every registered URI / glob instance (quick) or the full component product "
                     "(thorough) - is checked by TLC against the property sentence (Allowed) under the code's decision procedure, exported, executed on the "
                     "real op.ValidateAuthReqRedirectURI and on /authorize of both routers, and the observed outcomes are judged by the monitor "
                     "RedirectURITrace with the same rules. (ii) Flow level: the authorize family of OP.tla (Authorize/Login/Callback histories, all response "
                     "modes and types) model-checked and trace-validated on both routers: a redirect, code, token or form response only to the stored, "
                     "registered URI; unknown client / URI / request id only error pages.",
                technique="TLA+ decision-table spec + TLA+ state-machine spec model-checked with TLC; TLC-exported cases and behaviours executed on the real provider; observations validated by TLA+ monitors",
                note="Trusted: TLC; injective concretisation of URI records (harness/tbldrv/redirect.go); harness store; projection of Location / form action. "
                     "Glob semantics modelled for three patterns (host label, path suffix, port). Bounds: RedirectURIDesign_*.cfg, OPDesign_authorize*.cfg."),
    "C06": dict(level="model_checking", ref="DESIGN.md §3 C06",
                text="Issuance family of OP.tla (rules C06.*, evaluated on every event of every family that returns tokens): each ID token / JWT access "
                     "token of every flow (code, implicit, refresh, device, client credentials, jwt-bearer, token exchange access/refresh/id) on both routers, "
                     "under signing algorithms RS256/RS384/PS256/ES256/ES384/ES512/EdDSA, is signed by the current key, passes the library's own "
                     "rp.VerifyTokens / rp.VerifyIDToken / op.VerifyAccessToken against the provider's published /keys (through rp.NewRemoteKeySet), and its "
                     "issuer, audience, azp, subject, nonce, auth_time, amr, lifetime, at_hash, c_hash, scope-gated user claims, opaque sealing, expires_in "
                     "and scope agree with the abstract request state the monitor keeps. Design spec (OPDesign_issue.cfg) model-checked by TLC.",
                technique="TLA+ design spec model-checked with TLC; MBT replay + trace validation by the TLA+ monitor (facts projected from real tokens, judged in TLA+)"),
    "C04": dict(level="model_checking", ref="DESIGN.md §3 C04",
                text="TLC exhaustively checks the code-flow design spec (both routers' decision procedures, OPDesign_code.cfg) against the "
                     "declarative rules C04.* and validates every recorded history of the real provider (TLC-generated behaviours + seeded "
                     "random histories, both routers) with the monitor OPTrace, which evaluates the same rules on each real event.",
                technique="TLA+ design spec model-checked with TLC; TLC-generated behaviours replayed into the real provider; recorded traces validated by the TLA+ monitor"),
    "C07": dict(level="model_checking", ref="DESIGN.md §3 C07",
                text="Same machinery as C04 on the refresh family (OPDesign_refresh.cfg, rules C07.*): client binding, grant, scope narrowing, "
                     "rotation (journal of the storage call), preservation of subject/audience/auth_time over chains.",
                technique="TLA+ design spec model-checked with TLC; MBT replay + trace validation by the TLA+ monitor"),
    "C08": dict(level="model_checking", ref="DESIGN.md §3 C08",
                text="Token-use family (OPDesign_tokenuse.cfg, rules C08.*): userinfo / introspection / revocation / end_session over histories with "
                     "issued, tampered, re-encrypted, foreign-issuer and expired token strings; trace validation of the real provider on both routers.",
                technique="TLA+ design spec model-checked with TLC; MBT replay + trace validation by the TLA+ monitor"),
    "C05": dict(level="model_checking", ref="DESIGN.md §3 C05",
                text="Client-authentication / grant table as a seeded depth-2 design model (OPDesign_clientauth.cfg: every endpoint x caller x credential "
                     "presentation x provider flags and storage capabilities, both routers) checked by TLC against rules C05.*, and the same rules "
                     "evaluated by the monitor on recorded histories of the real provider that mix all token-endpoint grants, introspection, "
                     "revocation and device authorization.",
                technique="TLA+ decision-table/design spec model-checked with TLC; MBT replay + trace validation by the TLA+ monitor"),
    "C15": dict(level="model_checking", ref="DESIGN.md §3 C15",
                text="Token-exchange family (OPDesign_exchange.cfg, rules C15.*): subject/actor token references of every kind/form/declared type, "
                     "requested types, storage policy (veto, default type, impersonation, scope filter); histories recorded from both routers are "
                     "validated by the monitor. One recorded genuine defect (JWT access token accepted as id_token) is listed in known_findings.json.",
                technique="TLA+ design spec model-checked with TLC; MBT replay + trace validation by the TLA+ monitor"),
    "C18": dict(level="model_checking", ref="DESIGN.md §3 C18",
                text="Logout family (OPDesign_logout.cfg, rules C18.*): id_token_hint kinds x client_id x post_logout_redirect_uri x state after real "
                     "code flows; redirect target, rejected hints, contradiction, terminated session (storage journal) and state judged by the monitor.",
                technique="TLA+ design spec model-checked with TLC; MBT replay + trace validation by the TLA+ monitor"),
    "C13": dict(level="model_checking", ref="DESIGN.md §3 C13",
                text="TLC explores every interleaving of the critical sections of rp.remoteKeySet for 2-3 concurrent calls with rotation, endpoint "
                     "failures and cancellation (KSDesign: safety rules C13.*, single-flight invariants, cache-never-shrinks, termination under fairness); "
                     "TLC-generated schedules are replayed deterministically into the real key set through blocking verif hooks (gate scheduler), and "
                     "free-running stress runs under the race detector are recorded through the same hooks; every recorded event log is validated by "
                     "the monitor KSTrace, which compares logged cache lengths / created / ok flags with its own state and evaluates the rules.",
                technique="TLA+ spec of the key set model-checked with TLC; TLC schedules replayed via gate hooks; hook traces (incl. -race stress) validated by the TLA+ monitor",
                note="Trusted: TLC, the hook placement (add-only, under the key set's mutex where the state changes), the fake JWKS RoundTripper. "
                     "Assumes kids are not reused for different key material. Bounds: KSDesign_*.cfg."),
    "C16": dict(level="model_checking", ref="DESIGN.md §3 C16",
                text="Device family (OPDesign_device.cfg, rules C16.*): histories of device_authorization / approve / deny / expire / poll by several "
                     "clients (incl. requests naming two clients, storage time-outs and faults); answers by state, client binding, subject and scopes of "
                     "issued tokens; trace validation on both routers. Plus the decision table spec/UserCode.tla for the device authorization response "
                     "(user-code length, dash positions and alphabet computed in TLA+ per configuration; device-code length and distinctness; verification "
                     "URIs on the issuer; lifetime and interval) through op.NewUserCode and POST /device_authorization of both routers.",
                technique="TLA+ design spec model-checked with TLC; MBT replay + trace validation by the TLA+ monitor"),
}

# additions of the later rounds (appended to the claim texts above)
EXTRA = {
    "C01": " Verifiers are obtained both directly (rp.NewIDTokenVerifier) and through rp.NewRelyingPartyOIDC(WithVerifierOpts, WithSigningAlgsFromDiscovery).",
    "C02": " spec/KeyWiring.tla: which configured key set (op.WithAccessTokenKeySet / op.WithIDTokenHintKeySet / storage) each provider-side verifier "
           "uses. spec/KeyRotation.tla: programs publish(S) | verify(by, kid) over ONE long-lived key set (rp.NewRemoteKeySet with its cache and refresh "
           "transcribed in TLA+, op.OpenIDKeySet): a token is believed only under a key of the set published at the verifier's most recent download, "
           "at most one download per verification.",
    "C03": " The redirect_uri inside a signed request object is judged like the query parameter (rule C03.reqobj.redirect of spec/RequestObject.tla); "
           "clients with a malformed glob pattern (Gbad) are part of the table.",
    "C09": " A panic in a goroutine of the library that kills the executing process (no caller can recover) is classified from the crash output "
           "(innermost non-runtime frame in github.com/zitadel/oidc), bisected to the case and reported as C09.nopanic:processCrash.",
    "C10": " Fault kinds: plain error, context.DeadlineExceeded, a shared *oidc.Error sentinel, the storage contract's ErrDuplicateUserCode; flows "
           "include an authorize request with an unregistered redirect URI.",
    "C11": " Kind errStorage: the storage refuses to issue when the callback runs - a plain Go error (its text becomes the error_description) or an "
           "*oidc.Error with a description over the same class alphabet (incl. %): rule C11.description. prior = failedWrite: form_post responses of "
           "another flow whose connection broke while the page was written precede the observed response.",
    "C14": " Entries of the Assertion table: op.VerifyJWTAssertion, jwt-bearer grant, code exchange and introspection (identity probes: the request "
           "names the probe client next to the assertion) on both routers with the provider's own JWTProfileVerifier, and the jwt-bearer grant at the "
           "second tenant of an issuer-from-host provider. spec/Interop.tla: the library's client helpers against both routers for every key format.",
    "C15": " Token references may be sent without their *_token_type parameter; scope lists include none and one the storage policy strips.",
    "C16": " The user form is configured as a path on the issuer or as the deprecated absolute UserFormURL; 40 responses per configuration.",
    "C18": " World client cw opts into different glob patterns for login and post-logout redirects.",
    "C19": " Endpoint tables: defaults, provider-wide custom, a legacy server constructed with its own table (with / without device authorization); "
           "issuer strings = scheme x host x decoration (path, slash, query, fragment, ...) x insecure opt-in x constructor.",
    "C20": " Further cells: a caller-owned interceptor chain and the order in which a router built from it earlier runs it; two providers with own "
           "storages and keys whose key ids coincide must each sign with their own key (rule C20.instances: cells with one right value at any time).",
}
for _p, _t in EXTRA.items():
    CLAIMS[_p]["text"] += _t


FLOW_TEXT = (" The closed loop (spec/Flow.tla, FlowDesign, FlowMBT, FlowTrace; harness/flowdrv): the library's own relying parties (rp.NewRelyingPartyOIDC with the "
             "login handlers, rp.Userinfo, rp.RefreshTokens, rp.RevokeToken, rp.EndSession, rp.DeviceAuthorization / rp.DeviceAccessToken, rs.Introspect) for a "
             "basic, a post, a private_key_jwt and a public PKCE client talk in-process to the real provider on either router; TLC explores the interleavings of "
             "two browsers, login attempts, session operations and device flows, the behaviours are replayed and the recorded events judged on the rules ")
EXTRA2 = {
    "C01": " Claim dimension cidclaim (the non-OIDC claim client_id decides nothing) and configuration dimension prior (the same ID token was verified by the "
           "same verifier / relying party immediately before, next to the access token its at_hash names: verification is stateless).",
    "C04": " Composed with spec/RequestObject.tla (rule C04.reqobj.pkce): the PKCE challenge AND transformation stored for a request are the signed request "
           "object's when it counts and carries them, else the query's.",
    "C05": " Composed with spec/Assertion.tla (rule C05.assertion.client): a code / token of the probe client is served on a private_key_jwt assertion only when "
           "it is signed with a key held for that client and names it as issuer, also under verifiers that tolerate delegation (iss != sub). World clients cd / cs "
           "register no auth method at all (empty string = client_secret_basic by default).",
    "C06": " Environment event rotateMid: the operator's key rotation to an algorithm of another hash family lands between two storage reads of one request; "
           "one user's subject needs escaping (u2@idp.example).",
    "C07": FLOW_TEXT + "C07.flow.*. Scope lists may repeat a value (granted is the set of values); scripted matrix granted list x requested list.",
    "C08": FLOW_TEXT + "C08.flow.* (userinfo / introspection through the client helpers are served exactly for live tokens; revocation, logout and expiry take effect). "
           "Token forms include forged JWTs under an unknown key id and without key id.",
    "C09": " Bodies validPlus*: the expected document with ONE optional member of another JSON type (id_token as number / object / array / boolean ...).",
    "C10": " Fault kind canceled: the storage's error wraps context.Canceled while the request itself is alive.",
    "C11": " The receiving end: callbacks delivered to rp.CodeExchangeHandler by GET and by POST (form_post) are exchanged and hand the application its state "
           "(rules C11.rp.* of spec/RP.tla, run here as well)." + FLOW_TEXT + "C11.flow.* (a relying party that asks for response_mode=form_post gets the code in an "
           "auto-submitting form, the user agent POSTs it, and the application is handed the state it started with - a state full of characters that need escaping).",
    "C12": " RFC 3339 times with numeric offset and / or fraction; seal cases with an earlier opening of the same string under the right or a third key.",
    "C14": " Request objects carry PKCE parameters (rule C14.reqobj.pkce); dimension prior: the same verifier / provider accepted the OTHER client's assertion immediately before.",
    "C15": FLOW_TEXT + "C15.flow.* (tokenexchange.ExchangeToken with the session's access token: served exactly for a live subject token, issued_token_type names an access token). "
           "Rule C15.client.auth with a scripted matrix: after a success of the client, every other credential presentation.",
    "C16": FLOW_TEXT + "C16.flow.* (rp.DeviceAuthorization / rp.DeviceAccessToken: tokens only for the approved flow, approving user's subject, requested scopes, ID token). "
           "The storage may report a user-code collision once (op.ErrDuplicateUserCode): the user code of the response is the one bound to the device code (C16.device.usercode).",
    "C17": FLOW_TEXT + "C17.flow.* (authorization URL accepted by the provider, callback bound to the browser's cookie, login CSRF refused without a token request, "
           "tokens of the attempt's user and client, every issued token passes the relying party's verification). RP.tla: relying party built by discovery (ID token "
           "verified; code_challenge_methods_supported advertised, absent or plain only), callbacks by GET and POST.",
    "C18": " URI plcxNear: differs from a registered post-logout URI with a query component in the '?' only.",
    "C19": " Discover cases: custom discovery URL on the same / another host, document stating the URL's own issuer, via client.Discover and rp.NewRelyingPartyOIDC.",
    "C20": " Further cells: a shared remote key set whose JWKS lists a key with and a key without key id (keeps serving from its cache), the exported package-level "
           "error values of pkg/op and pkg/oidc; operations keySet.verify(good | unknownKid | noKid), brokenSignerProvider.implicitCallback.",
}
for _p, _t in EXTRA2.items():
    CLAIMS[_p]["text"] += _t

EXTRA3 = {
    "C01": " via = rpOIDCslash: a relying party configured with the issuer plus a trailing slash.",
    "C02": " Entry hintExpired: the expired copy of every token as id_token_hint. KeyRotation: an encryption key published under the key id of a signing key.",
    "C03": " Glob G4 (single trailing star) and a path one segment deeper.",
    "C04": " Scope lists without openid.",
    "C05": " World client cw (client_secret_basic) also holds a public key; the refresh grant disabled while token exchange hands out refresh tokens. "
           "KNOWN FINDING (7 signatures): introspection / revocation accept a private_key_jwt assertion from such a client.",
    "C06": " at_hash / c_hash are recomputed by the harness itself.",
    "C07": " Environment event Withdraw(client, grant); tokens of cx are meant for two resource servers (audience slices with spare capacity, carried over by the storage).",
    "C09": " A fatal error (stack overflow) in library code that kills the process serving the histories is reported as C09.nopanic:processCrash.",
    "C11": " URI shape queryMarkup (quotes and angle brackets in a registered redirect URI).",
    "C13": " KeyRotation: key E (use = enc) under the key id of signing key A.",
    "C15": " The storage's veto may come with its second hook (CreateTokenExchangeRequest).",
    "C16": " Poll interval of one second; every storage call honours its context.",
    "C17": " Closed-loop event ClientCreds (rp.ClientCredentials on a relying party that serves logins); tampers nearKey / nearKeyPkce (hash keys that differ beyond byte 64).",
    "C19": " Issuer of the implicit-flow ID token; request object carrying the redirect_uri alone.",
    "C20": " Cells userFormProviderB.verificationURI and callerEndpointParams; a 'concurrent map' fatal error of the runtime in library code counts as a race report.",
}
for _p, _t in EXTRA3.items():
    CLAIMS[_p]["text"] += _t

EXTRA4 = {
    "C03": " Composed with spec/AuthResponse.tla (rule C03.response.target): after broken form_post responses of ANOTHER client, the page's first form posts to this request's URI.",
    "C07": " Withdraw replaces the registration record (a router that remembers clients is found out).",
    "C08": " The storage wraps op.ErrInvalidRefreshToken with context.",
    "C10": " Flow exchangeJWT (token exchange by a client with JWT access tokens).",
    "C12": " Time form farFuture (253402300799).",
    "C13": " KeyRotation: a JWKS member of unknown key type (skipped; what follows it stays).",
    "C16": " Form pathNoSlash (UserFormPath without leading slash).",
    "C17": " StartLogin argument q: hostile query parameters on the link to the login URL.",
    "C18": " Native client cn with a loopback post-logout URI; the same path on a foreign host.",
    "C19": " Probe C19.pkce.enforced (private_key_jwt client, S256 challenge, wrong / no verifier).",
    "C20": " Cell sharedIssuerFuncProvider.issuer (providers built from one op.IssuerFromHost value).",
}
for _p, _t in EXTRA4.items():
    CLAIMS[_p]["text"] += _t

NOT_APPLICABLE = {}


def main():
    import check  # noqa: registry
    checks = []
    for pid in sorted(CLAIMS):
        if pid not in check.REGISTRY:
            continue
        c = CLAIMS[pid]
        checks.append(dict(
            property_id=pid,
            quick_cmd=f"./check {pid} quick",
            thorough_cmd=f"./check {pid} thorough",
            evidence_file=f"/verif/evidence/{pid}.json",
            replay_cmd_template=f"./check {pid} --replay {{path}}",
            engine="tlc+harness",
            level_claimed=dict(category=c["level"], text=c["text"], design_ref=c["ref"]),
            level_note=c.get("note", OP_NOTE),
            technique=c["technique"]))
    props = [json.loads(l)["id"] for l in open(os.path.join(VERIF, "properties.jsonl"))]
    na = [dict(property_id=p, reason=NOT_APPLICABLE.get(p, "check not built yet in this round (planned in DESIGN.md §3); not claimed"))
          for p in props if p not in {c["property_id"] for c in checks}]
    man = dict(
        version=1,
        setup_cmd="cd /verif && sh tools/setup.sh",
        hooks=dict(guard="verif", enable="go build -tags verif (harness/cmd/verif is always built with the tag)",
                   baseline_off_cmd=BASELINE_OFF, source_commits=HOOK_COMMITS, add_only=True),
        engines=[dict(name="tlc+harness", path="/verif/check", serves_properties=[c["property_id"] for c in checks],
                      kind_free_text="TLA+ specs under /verif/spec checked with TLC; Go conformance harness under /verif/harness driving the real code; "
                                     "TLA+ monitor specs validating recorded traces")],
        checks=checks,
        not_applicable=na,
        notes="VERIF_SEED seeds TLC simulation and the random drivers. Exit 2 = INCONCLUSIVE (infrastructure), never a violation.")
    with open(os.path.join(VERIF, "MANIFEST.json"), "w") as f:
        json.dump(man, f, indent=1)
    print("MANIFEST.json:", len(checks), "checks,", len(na), "not_applicable")


HOOK_COMMITS = []
if os.path.exists(os.path.join(VERIF, "hook_commits.txt")):
    HOOK_COMMITS = [l.strip() for l in open(os.path.join(VERIF, "hook_commits.txt")) if l.strip()]

if __name__ == "__main__":
    main()
