CHECKS = {}
