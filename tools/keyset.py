"""C13: remote JWKS key set (spec/KS.tla, KSDesign.tla, KSMBT.tla, KSTrace.tla; harness/ksdrv with the verif hooks)."""
import json, os, time, collections
from vlib import *  # noqa
from opfamily import parse_behaviours

SIZES = {
    "quick": dict(design=["KSDesign_quick.cfg", "KSDesign_live.cfg"], walks=400, stress=300, big=0),
    "thorough": dict(design=["KSDesign_quick.cfg", "KSDesign_live.cfg", "KSDesign_thorough.cfg", "KSDesign_thorough3.cfg"], walks=6000, stress=6000, big=24),
}


def monitor(wd):
    vp = os.path.join(wd, "viol.ndjson")
    if os.path.exists(vp):
        os.remove(vp)
    t = tlc(wd, "KSTrace.tla", cfg="KSTrace.cfg", workers=1, timeout=3600)
    if not os.path.exists(vp):
        raise Inconclusive("KS monitor did not consume the whole trace:\n" + "\n".join(t["out"].splitlines()[-30:]))
    rows = read_ndjson(vp)
    return rows[1:], rows[0]["lines"]


def ks_check(pid, tier, seed, replay=None):
    t0 = time.time()
    wd = workdir(pid)
    try:
        if tier == "replay":
            return ks_replay(pid, wd, replay)
        sz = SIZES[tier]
        design = []
        for cfg in sz["design"]:
            d = tlc(wd, "KSMC.tla", cfg=cfg, timeout=7200 if tier == "thorough" else 600, heap="40g" if tier == "thorough" else None)
            design.append(dict(cfg=cfg, states=d["distinct"], transitions=d["generated"], depth=d["depth"], wall=round(d["wall"], 1)))
            log(f"[{pid}] design {cfg}: {d['distinct']} distinct / {d['generated']} generated states, depth {d['depth']}, {d['wall']:.0f}s: all invariants/properties hold")
        m = tlc(wd, "KSMBT.tla", cfg="KSMBT.cfg", workers=1, simulate=f"num={sz['walks']}", depth=40, seed=seed, timeout=1800)
        behs = parse_behaviours(m["out"])
        if not behs:
            raise Inconclusive("no schedules from TLC:\n" + m["out"][-1500:])
        with open(os.path.join(wd, "sched.ndjson"), "w") as f:
            for i, b in enumerate(behs):
                f.write(json.dumps(dict(id=f"sched-{i}", steps=b["steps"])) + "\n")
        binp = go_build(wd, race=True)
        rc, out = run([binp, "ks-replay", "-in", "sched.ndjson", "-out", "t1.ndjson", "-seed", str(seed)], wd, timeout=3600)
        if rc != 0 or "DATA RACE" in out:
            if "DATA RACE" in out:
                with open(os.path.join(wd, "race.txt"), "w") as f:
                    f.write(out)
                p = save_replay(pid, wd, ["race.txt", "sched.ndjson"], seed, tier)
                log(f"VIOLATION property={pid} replay={p} signature=C13.datarace :: race detector report during gate replay")
                return 1
            raise Inconclusive("ks-replay failed:\n" + out[-3000:])
        stuck = [l for l in out.splitlines() if l.startswith("STUCK")]
        if len(stuck) > len(behs) // 2:
            raise Inconclusive(f"{len(stuck)} of {len(behs)} schedules could not be replayed:\n" + "\n".join(stuck[:5]))
        rc, out2 = run([binp, "ks-stress", "-out", "t2.ndjson", "-n", str(sz["stress"]), "-seed", str(seed), "-depth", str(sz["big"])], wd, timeout=3600)
        if "DATA RACE" in out2:
            with open(os.path.join(wd, "race.txt"), "w") as f:
                f.write(out2)
            p = save_replay(pid, wd, ["race.txt"], seed, tier)
            log(f"VIOLATION property={pid} replay={p} signature=C13.datarace :: race detector report during stress")
            return 1
        if rc != 0:
            raise Inconclusive("ks-stress failed:\n" + out2[-3000:])
        with open(os.path.join(wd, "trace.ndjson"), "w") as t:
            for fn in ("t1.ndjson", "t2.ndjson"):
                t.write(open(os.path.join(wd, fn)).read())
        viols, lines = monitor(wd)
        trace = read_ndjson(os.path.join(wd, "trace.ndjson"))
        for v in viols:
            e = trace[v["line"] - 1]
            v["run"], v["op"], v["args"] = e.get("run"), e["op"], e["args"]
            v["mode"] = "gated" if str(e.get("run", "")).startswith("sched") else "free"
        runs = sum(1 for e in trace if e["op"] == "Reset")
        cov = collections.Counter((e["op"], str(e["args"].get("res", e["args"].get("created", e["args"].get("ok", ""))))) for e in trace)
        need = [("End", "ok"), ("End", "reject"), ("End", "cancelled"), ("End", "fetcherr"), ("Join", "True"), ("Join", "False"), ("Commit", "False"), ("Commit", "True")]
        missing = [n for n in need if cov[n] == 0]
        if missing:
            raise Inconclusive(f"vacuous run: no event {missing}")
        # sequential rotation programs over one key set (spec/KeyRotation.tla, rules C13.rotation.*): rotation, withdrawal of every key,
        # keys published without key id, rp.SkipRemoteCheck
        import tables
        rot = tables.table_run(pid, "KeyRotation", "tbl-keyrotation", tier, seed, wd, ("C13.",),
                               lambda o: "rotation:" + ">".join((st["op"][0] + (",".join(st["set"]) if st["op"] == "publish" else st["by"] + "/" + st["kid"])) for st in o["c"]["steps"])
                               + ":init=" + ",".join(o["c"]["init"]) + (":skip" if o["c"].get("skip") else ""),
                               need=lambda o: [f"rp:{x['v']}:dl{x['dl']}" for x in o["o"]["rp"] if x["v"] != "-"], label="key rotation programs (sequential)")
        for k in ("rp:accept:dl0", "rp:accept:dl1", "rp:reject:dl0", "rp:reject:dl1"):
            if not rot["coverage"].get(k) and not rot.get("crashed"):
                raise Inconclusive(f"vacuous rotation table: no observation {k}")
        for v in rot["viols"]:
            viols.append(dict(rule=v["rule"], line=0, run="rotation-" + str(v["id"]), op="program", args=v["case"], mode="table:" + v["signature"].split(":", 1)[1][:160],
                              module="KeyRotation", id=v["id"], case=v["case"]))
        new, known = report(pid, viols, lambda v: f"{v['rule']}:{v['mode']}:{v['op']}",
                            lambda v: dict(rule=v["rule"], line=v["line"], run=v["run"], op=v["op"], args=v["args"], mode=v["mode"]),
                            wd, ["trace.ndjson", "viol.ndjson", "sched.ndjson"], seed, tier, extra_save=tables.write_cases)
        sample = [dict(op=e["op"], args=e["args"]) for e in trace[1:25]]
        write_evidence(pid, tier, seed, "model_checking", dict(
            states=sum(d["states"] for d in design), transitions=sum(d["transitions"] for d in design),
            traces_validated_against_impl=runs, samples=[sample],
            evaluations=len(trace), distinct_nontrivial=len({json.dumps([e["op"], e["args"]], sort_keys=True) for e in trace}),
            rule="one trace = one key-set instance (a gate-replayed TLC schedule or a free-running stress run under -race); events are the hook points of remoteKeySet",
            design=design, tlc_schedules_replayed=len(behs) - len(stuck), schedules_stuck=len(stuck), stress_runs=sz["stress"],
            event_coverage={f"{k[0]}:{k[1]}": v for k, v in sorted(cov.items())}, monitor_lines=lines, known_findings_seen=known,
            rotation_table=dict(design=rot["design"], cases_executed_on_real_code=rot["cases"], rule_failures=len(rot["viols"]), coverage=rot["coverage"]),
            exhaustive=False),
            time.time() - t0, new,
            assumptions=["key ids are not reused for different key material across JWKS versions",
                         "the fake JWKS endpoint (http.RoundTripper) stands for the provider; its answers are logged under its own lock",
                         "hook order = real order: hooks under the key set's mutex log inside the critical section, all hooks append under one log mutex",
                         "liveness (every call terminates) is checked on the design spec only, under weak fairness, without faults/cancellation"])
        log(f"[{pid}] {len(behs) - len(stuck)} TLC schedules gate-replayed + {sz['stress']} free-running stress runs (-race): {len(trace)} events validated by KSTrace; "
            f"{len(viols)} rule failures ({new} new, {known} known)")
        return 1 if new else 0
    finally:
        cleanup(wd)


def ks_replay(pid, wd, path):
    import shutil
    if os.path.exists(os.path.join(path, "KeyRotation.cases.ndjson")):
        import tables
        rc = tables.table_replay(pid, wd, path, [("KeyRotation", "tbl-keyrotation", ("C13.",))])
        if rc:
            return rc
    sched = os.path.join(path, "sched.ndjson")
    binp = go_build(wd, race=True)
    if os.path.exists(sched):
        shutil.copy(sched, wd)
        rc, out = run([binp, "ks-replay", "-in", "sched.ndjson", "-out", "trace.ndjson"], wd)
        viols, lines = monitor(wd)
        log(f"[{pid}] re-drove {lines} events of the saved schedules against the current code: {len(viols)} rule failures")
        for v in viols[:20]:
            log("  ", json.dumps(v))
        if viols:
            log(f"VIOLATION property={pid} replay={path}")
            return 1
    # gated schedules were re-driven on the current code without a failure; a saved FREE-running trace cannot be re-driven
    # deterministically, so it is re-validated as recorded - only if a violation of the saved run came from free-running mode
    vj = os.path.join(path, "violations.json")
    if os.path.exists(vj) and os.path.exists(sched):
        modes = {v.get("mode") for v in json.load(open(vj))}
        if "free" not in modes:
            log(f"[{pid}] every saved violation came from a gate-replayed schedule; none of them recurs on the current code")
            return 0
    if not os.path.exists(os.path.join(path, "trace.ndjson")):
        return 0
    shutil.copy(os.path.join(path, "trace.ndjson"), wd)
    t = tlc(wd, "KSTrace.tla", cfg="KSTraceReplay.cfg", workers=1, timeout=3600, allow_violation=True)
    log("\n".join(l for l in t["out"].splitlines() if l.startswith(("Error", "State", "/\\ viol", "/\\ l "))))
    if t["violated"]:
        log(f"VIOLATION property={pid} replay={path} (saved trace re-validated; free-running schedule not reproducible on demand)")
        return 1
    return 0


CHECKS = {"C13": ks_check}
