#!/usr/bin/env python3
"""Entry point of the /verif checks:  check.py <Cxx> quick|thorough   |   check.py <Cxx> --replay <path>

Pipeline per property (details in DESIGN.md):
  1. TLC checks the design spec (Decide* => properties) exhaustively within the cfg's bounds;
  2. TLC exports cases / behaviours of that spec (model-based test generation);
  3. the Go harness (rebuilt against /repo's working tree, -tags verif) runs them - and seeded random
     drivers - against the real code and records ndjson traces;
  4. TLC validates the recorded traces with the monitor spec; a property rule that is false on a
     recorded event is a VIOLATION (unless listed in known_findings.json).
Exit 0: held on everything explored; 1: VIOLATION; 2: INCONCLUSIVE (infrastructure)."""
import json, os, sys, time, random, traceback

sys.path.insert(0, os.path.dirname(os.path.abspath(__file__)))
from vlib import *   # noqa
import opfamily, tables, keyset, misc  # noqa

REGISTRY = {}
for mod in (opfamily, tables, keyset, misc):
    REGISTRY.update(mod.CHECKS)


def main():
    if len(sys.argv) < 3:
        print(__doc__)
        return 2
    pid, mode = sys.argv[1], sys.argv[2]
    if pid not in REGISTRY:
        print("unknown property", pid)
        return 2
    seed = int(os.environ.get("VERIF_SEED", "1") or "1")
    t0 = time.time()
    try:
        if mode == "--replay":
            return REGISTRY[pid](pid, "replay", seed, replay=sys.argv[3])
        tier = os.environ.get("VERIF_TIER", mode)
        if mode in ("quick", "thorough"):
            tier = mode
        return REGISTRY[pid](pid, tier, seed)
    except Inconclusive as e:
        log(f"INCONCLUSIVE property={pid}: {e}")
        return 2
    except Exception:
        log(f"INCONCLUSIVE property={pid}: harness error\n{traceback.format_exc()}")
        return 2
    finally:
        log(f"[{pid}] wall {time.time() - t0:.1f}s")


if __name__ == "__main__":
    sys.exit(main())
