#!/bin/sh
# Run once after a fresh restore, offline: warm the Go build cache for the harness and parse every spec.
set -e
cd "$(dirname "$0")/.."
export GOFLAGS=-mod=mod GOPROXY=off
unset GOTOOLCHAIN GOSUMDB || true
cp /repo/go.sum harness/go.sum
(cd harness && go build -tags verif -o /dev/null ./cmd/verif)
tmp=$(mktemp -d)
cp spec/*.tla "$tmp"/
for f in "$tmp"/*.tla; do
  (cd "$tmp" && java -cp /opt/veriftools/tla/tla2tools.jar:/opt/veriftools/tla/CommunityModules-deps.jar tla2sany.SANY "$(basename "$f")" >/dev/null 2>&1) || { echo "SANY failed on $f"; rm -rf "$tmp"; exit 1; }
done
rm -rf "$tmp"
echo "setup ok"
