SPECIFICATION MSpec
CONSTANTS
  MaxAttempts = 6
  MaxTokens = 12
  MaxDevs = 3
  MaxSteps = 99
  UseRPs = {"cw", "cx", "cj", "cp"}
  Modes = {"query", "form_post"}
  Ops = {"Start", "Authorize", "Login", "OPCallback", "RPCallback", "Userinfo", "Introspect", "Refresh", "Revoke", "Expire", "EndSession", "DeviceStart", "DeviceApprove", "DevicePoll", "TokenExchange", "ClientCreds"}
  Depth = 18
INVARIANT Emit
INVARIANT NoViolation
CHECK_DEADLOCK FALSE
