----------------------------- MODULE OPTrace -----------------------------
(* Monitor: replays a trace recorded from the real provider through OP!Apply *)
(* and evaluates OP!Check (the listed properties) on every event.  The      *)
(* outcome of every event is the OBSERVED one, so the monitor follows the   *)
(* implementation; only the declarative rules can fail.  All violations are *)
(* collected (a known finding must not mask a later, different violation)   *)
(* and exported as viol.ndjson by the final step.                           *)
EXTENDS OP, Json

VARIABLE l
Trace == ndJsonDeserialize("trace.ndjson")

TInit ==
  /\ Init0
  /\ cfg = [router |-> "P", dyn |-> FALSE]
  /\ l = 1

TStep ==
  /\ l <= Len(Trace)
  /\ LET e == Trace[l] IN
       IF e.op = "Reset"
       THEN /\ reqs' = Empty /\ codes' = Empty /\ redeemed' = {} /\ toks' = Empty /\ rts' = Empty
            /\ idts' = Empty /\ devs' = Empty /\ gone' = {}
            /\ cfg' = e.cfg
            /\ UNCHANGED <<cnt, viol>>
       ELSE /\ Apply(e)
            /\ ApplyGone(e)
            /\ viol' = viol \cup {<<l, r>> : r \in Check(e)}
            /\ UNCHANGED <<cfg, cnt>>
  /\ l' = l + 1

TFinish ==
  /\ l = Len(Trace) + 1
  /\ ndJsonSerialize("viol.ndjson",
        <<[lines |-> Len(Trace), violations |-> Cardinality(viol)]>> \o
        SetToSeq({[line |-> v[1], rule |-> v[2]] : v \in viol}))
  /\ l' = l + 1
  /\ UNCHANGED vars

TSpec == TInit /\ [][TStep \/ TFinish]_<<vars, l>>

\* used by --replay: TLC stops at the first violated rule and prints the prefix of the real trace
NoViolation == viol = {}
=============================================================================
