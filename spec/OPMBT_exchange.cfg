SPECIFICATION MSpec
CONSTANTS
  Routers = {"P", "L"}
  Ops = {"Authorize", "Login", "Callback", "CodeExchange", "TokenExchange", "Revoke", "Expire"}
  MaxReq = 3
  MaxCode = 4
  MaxAT = 8
  MaxDev = 3
  MaxSteps = 99
  Seeded = FALSE
  Vary = {"policy"}
  Narrow = TRUE
  Depth = 16
INVARIANT Emit
INVARIANT NoViolation
CHECK_DEADLOCK FALSE
