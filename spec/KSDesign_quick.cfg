SPECIFICATION Spec
CONSTANTS
  Callers <- CallersAB
  TokOf <- RolesQuick2
  MaxRot = 1
  MaxGen = 2
  Faults = TRUE
  Cancels = TRUE
INVARIANT NoViolation
INVARIANT AtMostOneInflight
INVARIANT InflightConsistent
INVARIANT RequestsBounded
PROPERTY CacheNeverShrinksToEmpty
CHECK_DEADLOCK FALSE
