------------------------------- MODULE RPMBT -------------------------------
(* Behaviours of RPDesign with a history variable, printed as JSON for the Go replay (one uniformly chosen event per step). *)
EXTENDS RPDesign, Json
CONSTANT Depth
VARIABLE hist
AllEvents == {Ev("StartLogin", [b |-> b, q |-> q]) : b \in Browsers, q \in LoginQueries}
             \cup {Ev("Callback", [b |-> b, att |-> att, form |-> f, tamper |-> t, err |-> er, method |-> m]) : b \in Browsers, att \in Attempts \cup {"t0"}, f \in Forms, t \in Tampers, er \in BOOLEAN, m \in Methods}
\* keep walks productive: half of the callbacks are the fitting one for the browser's jar
Fitting == {Ev("Callback", [b |-> b, att |-> jar[b].st, form |-> "exact", tamper |-> "asis", err |-> FALSE, method |-> m]) : b \in {x \in Browsers : jar[x].st # "none"}, m \in Methods}
            \cup (IF nAtt < MaxAttempts THEN {Ev("StartLogin", [b |-> b, q |-> q]) : b \in Browsers, q \in LoginQueries} ELSE {})
Pool == IF Fitting # {} /\ RandomElement({TRUE, FALSE}) THEN Fitting ELSE {e \in AllEvents : e.op = "Callback" \/ nAtt < MaxAttempts}
MInit == Init /\ hist = <<>>
MNext == \E e \in {RandomElement(Pool)} : Do(e) /\ hist' = Append(hist, e)
MSpec == MInit /\ [][MNext]_<<dvars, hist>>
Emit == Len(hist) < Depth \/ PrintT(<<"BEH", ToJson([cfg |-> cfg, steps |-> hist])>>)
=============================================================================
