-------------------------------- MODULE RP --------------------------------
(***************************************************************************)
(* C17: the Relying Party's login handlers (rp.AuthURLHandler /             *)
(* rp.CodeExchangeHandler with a cookie handler, optionally PKCE).          *)
(*                                                                          *)
(* State: per browser a cookie jar [st, pk]: the attempt whose state /      *)
(* verifier the RP's signed cookies hold ("none" = no cookie); attempts are *)
(* named t1, t2, ... in the order the RP starts them.  Events carry their   *)
(* outcome (as in OP.tla): RPDesign fixes it with Decide, RPTrace takes it  *)
(* from a log recorded from the real handlers with a fake provider.         *)
(***************************************************************************)
EXTENDS Naturals, Sequences, FiniteSets, TLC, Functions

Browsers == {"b1", "b2"}

VARIABLES
  cfg,      \* [pkce : BOOLEAN, via : how the relying party was constructed - "oauth" (rp.NewRelyingPartyOAuth) | "oidc" (rp.NewRelyingPartyOIDC:
            \*  discovery, ID token verified), disc : what the provider's discovery document lists as code_challenge_methods_supported -
            \*  "s256" | "none" (member absent) | "plainOnly"]  - neither changes what the handlers owe
  jar,      \* browser |-> [st, pk]
  nAtt,     \* number of attempts started
  rviol

rvars == <<cfg, jar, nAtt, rviol>>
NoJar == [st |-> "none", pk |-> "none"]
RInit0 == jar = [b \in Browsers |-> NoJar] /\ nAtt = 0 /\ rviol = {}

\* how the callback request differs from what the browser would send by itself
\* replayPkceAsState: the browser presents the pkce cookie that attempt args.att received - under the state cookie's name (and under
\* its own), with the verifier as state parameter: a genuine cookie of the RP, minted for another cookie name
\* nearKey / nearKeyPkce: minted under ANOTHER hash key that shares its first 64 bytes with the relying party's (long keys that differ
\* in their tail only, e.g. secret + "/2025-Q3" vs secret + "/2025-Q4"); same encryption key
Tampers == {"asis", "dropState", "dropPkce", "otherKey", "swapNames", "truncate", "otherKeyPkce", "replayPkceAsState", "nearKey", "nearKeyPkce"}
\* the state parameter of the callback, relative to the state of attempt args.att: the very string, a proper prefix, the string plus a
\* suffix, or the empty string
Forms == {"exact", "prefix", "suffix", "empty"}
\* how the callback reaches the RP: GET with the parameters in the query, or POST with the parameters in the body (response_mode=form_post)
Methods == {"GET", "POST"}

Apply(e) ==
  LET a == e.args  o == e.out IN
  CASE e.op = "StartLogin" ->
         /\ nAtt' = IF o.class = "redirect" THEN nAtt + 1 ELSE nAtt
         /\ jar' = IF o.class = "redirect"
                   THEN [jar EXCEPT ![a.b] = [st |-> o.att, pk |-> IF cfg.pkce THEN o.att ELSE jar[a.b].pk]]
                   ELSE jar
    [] e.op = "Callback" ->
         \* the handler deletes the state cookie once the state check passed, and the pkce cookie once it has read the verifier
         /\ jar' = [jar EXCEPT ![a.b] = [st |-> IF o.stateChecked THEN "none" ELSE jar[a.b].st,
                                        pk |-> IF o.stateChecked /\ o.verifierRead THEN "none" ELSE jar[a.b].pk]]
         /\ UNCHANGED nAtt
    [] OTHER -> UNCHANGED <<jar, nAtt>>

\* the cookie the browser presents for `slot` after the tamper: the attempt it holds, or why it is unusable
Presented(a, slot) ==
  LET j == jar[a.b] IN
  CASE a.tamper = "dropState" /\ slot = "st" -> "none"
    [] a.tamper = "dropPkce"  /\ slot = "pk" -> "none"
    [] a.tamper = "otherKey"  /\ slot = "st" -> "foreign"        \* minted under another key
    [] a.tamper = "otherKeyPkce" /\ slot = "pk" -> "foreign"
    [] a.tamper = "nearKey"  /\ slot = "st" -> "foreign"
    [] a.tamper = "nearKeyPkce" /\ slot = "pk" -> "foreign"
    [] a.tamper = "swapNames" -> "wrongname"                      \* minted for the other cookie name
    [] a.tamper = "replayPkceAsState" /\ slot = "st" -> "wrongname"
    [] a.tamper = "replayPkceAsState" /\ slot = "pk" -> IF cfg.pkce /\ a.att # "t0" THEN a.att ELSE "none"
    [] a.tamper = "truncate"  /\ slot = "st" -> "damaged"
    [] OTHER -> j[slot]
Usable(x) == x \notin {"none", "foreign", "wrongname", "damaged"}

StateValid(a) == Usable(Presented(a, "st")) /\ a.att = Presented(a, "st") /\ a.form = "exact"

\* a.q: query parameters somebody put on the link to the RP's login URL (/login?code_challenge=...): whatever they are, the
\* authorization URL carries the RP's own client, redirect URI, scopes, state and - with PKCE - the S256 challenge of ITS verifier
LoginQueries == {"none", "challenge", "method", "state", "redirect", "client", "scope"}
RulesStart(a, o) ==
  { <<"C17.authurl.params", (o.class = "redirect") => (o.client /\ o.redirect /\ o.scopes /\ o.stateInURL)>>,
    <<"C17.authurl.cookie", (o.class = "redirect") => o.stateCookie>>,                   \* the state in the URL is the one in the signed cookie
    <<"C17.pkce.challenge", (o.class = "redirect" /\ cfg.pkce) => o.challenge = "s256ofCookieVerifier">>,
    <<"C17.pkce.off",       (o.class = "redirect" /\ ~cfg.pkce) => o.challenge = "none">> }

\* a.err: the callback reports an error of the provider (error=access_denied) instead of a code; the application's error handler
\* is told about it only if the state check passed (class errorHandled), and nothing is ever sent to the provider
RulesCallback(a, o) ==
  { <<"C17.exchange.state",   (o.class = "exchanged" \/ o.tokenRequests > 0) => StateValid(a)>>,
    <<"C17.unauthorized",     (~StateValid(a)) => (o.class = "unauthorized" /\ o.tokenRequests = 0)>>,
    <<"C17.error.state",      (o.class = "errorHandled") => (StateValid(a) /\ a.err /\ o.stateToApp = a.att)>>,
    <<"C17.error.noExchange", a.err => (o.tokenRequests = 0 /\ o.class # "exchanged")>>,
    <<"C17.pkce.verifier",    (o.tokenRequests > 0 /\ cfg.pkce) => (Usable(Presented(a, "pk")) /\ o.verifier = Presented(a, "pk"))>>,
    <<"C17.pkce.required",    (cfg.pkce /\ ~Usable(Presented(a, "pk")) /\ ~a.err) => (o.class = "unauthorized" /\ o.tokenRequests = 0)>>,
    <<"C17.pkce.none",        (o.tokenRequests > 0 /\ ~cfg.pkce) => o.verifier = "none">>,
    <<"C17.once",             o.tokenRequests <= 1>>,
    \* C11 seen from the receiving end: the parameters of an authorization response reach the relying party's callback handler whether
    \* the user agent delivers them in the query (GET) or - response_mode=form_post - in the body of a POST: a fitting callback is
    \* exchanged and the application is handed the state the flow was started with
    <<"C11.rp.delivery",      (StateValid(a) /\ ~a.err /\ (cfg.pkce => Usable(Presented(a, "pk")))) => (o.class = "exchanged" /\ o.stateToApp = a.att)>>,
    <<"C11.rp.error",         (StateValid(a) /\ a.err) => (o.class = "errorHandled" /\ o.stateToApp = a.att)>>,
    <<"C17.callback.state",   (o.class = "exchanged") => o.stateToApp = a.att>>,
    <<"C09.nopanic", o.class # "panic">> }

Rules(e) == CASE e.op = "StartLogin" -> RulesStart(e.args, e.out) [] e.op = "Callback" -> RulesCallback(e.args, e.out) [] OTHER -> {}
Check(e) == {r[1] : r \in {x \in Rules(e) : ~x[2]}}
=============================================================================
