SPECIFICATION Spec
CONSTANTS
  Routers = {"P", "L"}
  Ops = {"Authorize", "Login", "Callback", "CodeExchange", "Refresh", "DeviceAuthorize", "Approve", "Poll", "ClientCreds", "JWTBearer", "TokenExchange"}
  MaxReq = 1
  MaxCode = 1
  MaxAT = 3
  MaxDev = 1
  MaxSteps = 5
  Seeded = FALSE
  Vary = {}
  Narrow = TRUE
INVARIANT NoViolation
VIEW View
CHECK_DEADLOCK FALSE
