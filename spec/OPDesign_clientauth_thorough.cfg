SPECIFICATION Spec
CONSTANTS
  Routers = {"P", "L"}
  Ops = {"CodeExchange", "Refresh", "Introspect", "Revoke", "DeviceAuthorize", "Poll", "ClientCreds", "JWTBearer", "TokenExchange"}
  MaxReq = 1
  MaxCode = 1
  MaxAT = 3
  MaxDev = 3
  MaxSteps = 3
  Seeded = TRUE
  Vary = {"post", "refresh", "caps"}
  Narrow = TRUE
INVARIANT NoViolation
VIEW View
CHECK_DEADLOCK FALSE
