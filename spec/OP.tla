------------------------------- MODULE OP -------------------------------
(***************************************************************************)
(* Abstract state machine of the zitadel/oidc OpenID Provider              *)
(* (pkg/op: both routers).  One action per HTTP request; every event       *)
(*   e = [op, args, out]                                                   *)
(* carries its OUTCOME.  Apply(e) is the state effect of an event given    *)
(* its outcome, Check(e) the set of property rules the event violates in   *)
(* the current state.  The design spec (OPDesign) fixes out == Decide(..)  *)
(* - a transcription of the code's decision order, per router - and TLC    *)
(* shows Decide => properties in every reachable state.  The monitor       *)
(* (OPTrace) takes out from a trace recorded from the real code, so it     *)
(* follows whatever the implementation did and the same Check judges it.   *)
(***************************************************************************)
EXTENDS OPWorld, FiniteSetsExt, SequencesExt

VARIABLES
  cfg,       \* [router : {"P","L"}, post, pkjwt, refresh, cc, te, dev : BOOLEAN, policy : [deny, defType, imp, drop]]
  reqs,      \* request name |-> [client, uri, rtype, rmode, scopes, state, nonce, chall, done, sub, used]
  codes,     \* code name |-> request name
  redeemed,  \* set of code names that yielded tokens
  toks,      \* access-token name |-> [client, sub, scopes, aud, kind, dead]
  rts,       \* refresh-token name |-> [client, sub, scopes, aud, auth, root, live]
  idts,      \* id-token name |-> [client, sub, dead]   (hints for end_session / token exchange)
  devs,      \* device-code name |-> [client, scopes, uc, status, sub, expired]
  gone,      \* set of <<client, grant>>: grants an administrator withdrew from a registration after the world was set up
  cnt,       \* name counters (design spec only)
  viol       \* set of <<rule, op>> violated so far (monitor: plus line numbers)

svars == <<reqs, codes, redeemed, toks, rts, idts, devs>>
vars  == <<cfg, reqs, codes, redeemed, toks, rts, idts, devs, gone, cnt, viol>>

\* the grants a client is registered for NOW
Grants(c) == {g \in Reg[c].grants : <<c, g>> \notin gone}

Empty == [x \in {} |-> 0]
Has(f, k) == k \in DOMAIN f

\* access-token record of an outcome. Besides what the store bound to the token (client, sub, scopes, aud), the C06 facts:
\*   lib    - verdict of the library's own verifier (op.VerifyAccessToken with the published key set) for a JWT access token
\*   iss, jsub, jclient - claims of a JWT access token ; expOK: exp = stored expiry ; fresh: iat <= now <= exp
\*   sealed - opaque token: "ok" (decrypts under the provider key to storedID:storedSubject, and not under another key)
NoTok == [name |-> "none", kind |-> "none", client |-> "none", sub |-> "none", scopes |-> <<>>, aud |-> <<>>,
          lib |-> "none", iss |-> "none", jsub |-> "none", jclient |-> "none", expOK |-> TRUE, fresh |-> TRUE, sealed |-> "none",
          \* iatAgo: seconds between iat of a JWT access token and the moment of the response ; expiresOff: expires_in of the response minus
          \* the remaining lifetime the store recorded (absolute value, seconds)
          iatAgo |-> 0, expiresOff |-> 0]
NoRt  == [name |-> "none", client |-> "none", sub |-> "none", scopes |-> <<>>, aud |-> <<>>, auth |-> "none", root |-> "none"]
\* ID-token record: claims, sig (signature under the provider's CURRENT signing key), lib (rp.VerifyTokens / rp.VerifyIDToken
\* against the published key set), life (exp - iat, seconds), fresh (iat <= now <= exp), amr, uclaims (user claims present)
NoIdt == [name |-> "none", sub |-> "none", aud |-> <<>>, azp |-> "none", nonce |-> "none", iss |-> "none",
          athash |-> "absent", chash |-> "absent", auth |-> "none", sig |-> "none", uclaims |-> <<>>,
          lib |-> "none", life |-> 0, fresh |-> TRUE, amr |-> <<>>, iatAgo |-> 0]
NoOut == [class |-> "none", status |-> 0, err |-> "none", doc |-> FALSE, req |-> "none", target |-> "none",
          channel |-> "none", state |-> "none", code |-> "none", at |-> NoTok, rt |-> NoRt, idt |-> NoIdt,
          scope |-> <<>>, sub |-> "none", rotated |-> "none", bare |-> TRUE, dc |-> "none", uc |-> "none",
          journal |-> <<>>, issuedType |-> "", actor |-> "none", auth |-> "none", expiresOff |-> 0, faulted |-> FALSE, ucBound |-> TRUE]

Init0 ==
  /\ reqs = Empty /\ codes = Empty /\ redeemed = {} /\ toks = Empty /\ rts = Empty /\ idts = Empty
  /\ devs = Empty /\ viol = {} /\ gone = {}
  /\ cnt = [r |-> 0, k |-> 0, a |-> 0, f |-> 0, i |-> 0, d |-> 0, n |-> 0]

-----------------------------------------------------------------------------
(* Token strings presented to the provider (C08): tok = [form, id]            *)
\* jwtForeign: a JWT for this issuer signed with a key nobody published, under the key id of the provider's current key ;
\* jwtUnknownKid: the same under a key id the provider never published (e.g. a key rotated out long ago) ; jwtNoKid: without key id
TokForms == {"issued", "flipIV", "flipBody", "trunc", "rekeyed", "jwtOtherIss", "jwtNone", "jwtForeign", "jwtUnknownKid", "jwtNoKid", "garbage"}

LiveAT(tok)  == tok.form = "issued" /\ Has(toks, tok.id) /\ ~toks[tok.id].dead
LiveRT(name) == Has(rts, name) /\ rts[name].live

\* A presentation that every endpoint of both routers has to accept under configuration cfg: the
\* credential kind the client is registered for.  Used only in the antecedent of rules that
\* EXPECT a particular answer (the statements' "answers authorization_pending", "still answers 200" ...).
Clean(c, cred) ==
  /\ c \in Clients
  /\ CASE Reg[c].auth = "none"  -> cred.kind = "none"
        [] Reg[c].auth = "pkjwt" -> cred.kind = "assertion" /\ cred.key = "own" /\ cfg.pkjwt
        [] Reg[c].auth = "post"  -> cred.kind = "post" /\ cred.secret = "right" /\ cfg.post
        [] OTHER                 -> cred.kind = "basic" /\ cred.secret = "right"

-----------------------------------------------------------------------------
(* State effect of an event, given its outcome.                              *)

AddAT(f, at) == IF at.name = "none" THEN f
                ELSE (at.name :> [client |-> at.client, sub |-> at.sub, scopes |-> Range(at.scopes),
                                   aud |-> Range(at.aud), kind |-> at.kind, dead |-> FALSE]) @@ f
AddRT(f, rt) == IF rt.name = "none" THEN f
                ELSE (rt.name :> [client |-> rt.client, sub |-> rt.sub, scopes |-> Range(rt.scopes),
                                   aud |-> Range(rt.aud), auth |-> rt.auth, root |-> rt.root, live |-> TRUE]) @@ f
AddIDT(f, idt, c) == IF idt.name = "none" THEN f
                     ELSE (idt.name :> [client |-> c, sub |-> idt.sub, dead |-> FALSE]) @@ f

Kill(f, S) == [k \in DOMAIN f |-> IF k \in S THEN [f[k] EXCEPT !.dead = TRUE] ELSE f[k]]

Apply(e) ==
  LET a == e.args  o == e.out IN
  CASE e.op = "Authorize" ->
         /\ reqs' = IF o.class = "login"
                    THEN (o.req :> [client |-> a.client, uri |-> a.uri, rtype |-> a.rtype, rmode |-> a.rmode,
                                    scopes |-> Range(a.scopes), state |-> a.state, nonce |-> a.nonce,
                                    chall |-> a.chall, done |-> FALSE, sub |-> "none", used |-> FALSE, auth |-> "none"]) @@ reqs
                    ELSE reqs
         /\ UNCHANGED <<codes, redeemed, toks, rts, idts, devs>>
    [] e.op = "Login" ->
         /\ reqs' = IF Has(reqs, a.req) /\ o.class = "ok"
                    THEN [reqs EXCEPT ![a.req].done = TRUE, ![a.req].sub = a.user, ![a.req].auth = o.auth] ELSE reqs
         /\ UNCHANGED <<codes, redeemed, toks, rts, idts, devs>>
    [] e.op = "Callback" ->
         /\ codes' = IF o.class = "code" THEN (o.code :> a.req) @@ codes ELSE codes
         /\ toks'  = IF o.class = "tokens" THEN AddAT(toks, o.at) ELSE toks
         /\ idts'  = IF o.class = "tokens" /\ Has(reqs, a.req) THEN AddIDT(idts, o.idt, reqs[a.req].client) ELSE idts
         /\ reqs'  = IF o.class = "tokens" /\ Has(reqs, a.req) THEN [reqs EXCEPT ![a.req].used = TRUE] ELSE reqs
         /\ UNCHANGED <<redeemed, rts, devs>>
    [] e.op = "CodeExchange" ->
         /\ redeemed' = IF o.class = "tokens" THEN redeemed \cup {a.code} ELSE redeemed
         /\ toks' = IF o.class = "tokens" THEN AddAT(toks, o.at) ELSE toks
         /\ rts'  = IF o.class = "tokens" THEN AddRT(rts, o.rt) ELSE rts
         /\ idts' = IF o.class = "tokens" THEN AddIDT(idts, o.idt, a.caller) ELSE idts
         /\ reqs' = IF o.class = "tokens" /\ Has(codes, a.code) /\ Has(reqs, codes[a.code])
                    THEN [reqs EXCEPT ![codes[a.code]].used = TRUE] ELSE reqs
         /\ UNCHANGED <<codes, devs>>
    [] e.op = "Refresh" ->
         /\ toks' = IF o.class = "tokens" THEN AddAT(toks, o.at) ELSE toks
         /\ rts'  = IF o.class = "tokens"
                    THEN LET old == IF Has(rts, a.rt) THEN [rts EXCEPT ![a.rt].live = FALSE] ELSE rts
                         IN AddRT(old, o.rt)
                    ELSE rts
         /\ idts' = IF o.class = "tokens" THEN AddIDT(idts, o.idt, a.caller) ELSE idts
         /\ UNCHANGED <<reqs, codes, redeemed, devs>>
    [] e.op = "Revoke" ->
         \* effective only when the owning, authenticated client got a 200 for a genuine token
         /\ toks' = IF o.status = 200 /\ a.kind = "at" /\ a.tok.form = "issued" /\ Has(toks, a.tok.id)
                       /\ toks[a.tok.id].client = a.caller
                    THEN Kill(toks, {a.tok.id}) ELSE toks
         /\ rts'  = IF o.status = 200 /\ a.kind = "rt" /\ Has(rts, a.tok.id) /\ rts[a.tok.id].client = a.caller
                    THEN [rts EXCEPT ![a.tok.id].live = FALSE] ELSE rts
         /\ UNCHANGED <<reqs, codes, redeemed, idts, devs>>
    [] e.op = "Expire" ->
         /\ toks' = IF Has(toks, a.id) THEN Kill(toks, {a.id}) ELSE toks
         /\ UNCHANGED <<reqs, codes, redeemed, rts, idts, devs>>
    [] e.op = "EndSession" ->
         \* a successful logout (redirect) terminates the session of (sub, client) of the hint
         /\ toks' = IF o.class = "redirect" /\ o.sub # "none"
                    THEN Kill(toks, {t \in DOMAIN toks : toks[t].sub = o.sub /\ toks[t].client = o.req}) ELSE toks
         /\ rts'  = IF o.class = "redirect" /\ o.sub # "none"
                    THEN [t \in DOMAIN rts |-> IF rts[t].sub = o.sub /\ rts[t].client = o.req
                                                THEN [rts[t] EXCEPT !.live = FALSE] ELSE rts[t]]
                    ELSE rts
         /\ UNCHANGED <<reqs, codes, redeemed, idts, devs>>
    [] e.op = "DeviceAuthorize" ->
         /\ devs' = IF o.class = "device"
                    THEN (o.dc :> [client |-> a.caller, scopes |-> Range(a.scopes), uc |-> o.uc,
                                   status |-> "pending", sub |-> "none", expired |-> FALSE]) @@ devs
                    ELSE devs
         /\ UNCHANGED <<reqs, codes, redeemed, toks, rts, idts>>
    [] e.op = "Approve" ->
         /\ devs' = IF Has(devs, a.dc) /\ o.class = "ok"
                    THEN [devs EXCEPT ![a.dc].status = "done", ![a.dc].sub = a.user] ELSE devs
         /\ UNCHANGED <<reqs, codes, redeemed, toks, rts, idts>>
    [] e.op = "Deny" ->
         /\ devs' = IF Has(devs, a.dc) /\ o.class = "ok" THEN [devs EXCEPT ![a.dc].status = "denied"] ELSE devs
         /\ UNCHANGED <<reqs, codes, redeemed, toks, rts, idts>>
    [] e.op = "ExpireDevice" ->
         /\ devs' = IF Has(devs, a.dc) /\ o.class = "ok" THEN [devs EXCEPT ![a.dc].expired = TRUE] ELSE devs
         /\ UNCHANGED <<reqs, codes, redeemed, toks, rts, idts>>
    [] e.op = "Poll" ->
         /\ toks' = IF o.class = "tokens" THEN AddAT(toks, o.at) ELSE toks
         /\ rts'  = IF o.class = "tokens" THEN AddRT(rts, o.rt) ELSE rts
         /\ idts' = IF o.class = "tokens" THEN AddIDT(idts, o.idt, a.caller) ELSE idts
         /\ UNCHANGED <<reqs, codes, redeemed, devs>>
    [] e.op \in {"ClientCreds", "JWTBearer", "TokenExchange"} ->
         /\ toks' = IF o.class = "tokens" THEN AddAT(toks, o.at) ELSE toks
         /\ rts'  = IF o.class = "tokens" THEN AddRT(rts, o.rt) ELSE rts
         /\ idts' = IF o.class = "tokens" THEN AddIDT(idts, o.idt, a.caller) ELSE idts
         /\ UNCHANGED <<reqs, codes, redeemed, devs>>
    [] OTHER -> UNCHANGED svars     \* UserInfo, Introspect, StoreSlow: no abstract effect

\* environment event Withdraw(client, grant): the administrator removes a grant from a client's registration; tokens issued before stay
ApplyGone(e) == gone' = IF e.op = "Withdraw" /\ e.out.class = "ok" THEN gone \cup {<<e.args.client, e.args.grant>>} ELSE gone

-----------------------------------------------------------------------------
(* The listed properties, as rules over (pre-state, event).  Each rule is a  *)
(* pair <<name, holds>>; Check returns the names that do not hold.           *)

IsRedirectClass(c) == c \in {"redirErr", "code", "tokens", "form"}

RulesAuthorize(a, o) ==
  LET known == a.client \in Clients
      allowed == known /\ a.uri \in Reg[a.client].uris IN
  { <<"C03.authorize.target",   (o.class = "redirErr") => (allowed /\ o.target = a.uri)>>,
    <<"C03.authorize.login",    (o.class = "login") => allowed>>,
    <<"C03.authorize.errorpage", (~allowed) => (o.class \in {"page", "json"} /\ o.status >= 400)>>,
    \* an error redirect carries the state the client sent with THIS request
    <<"C11.state.authorize", (o.class = "redirErr") => o.state = a.state>> }

RulesCallback(a, o) ==
  LET known == Has(reqs, a.req) IN
  { <<"C03.callback.target", IsRedirectClass(o.class) => (known /\ o.target = reqs[a.req].uri)>>,
    <<"C04.onlyAfterLogin",  (o.class \in {"code", "tokens", "form"}) => (known /\ reqs[a.req].done)>>,
    <<"C03.callback.unknown", (~known) => (o.class = "page" /\ o.status >= 400)>>,
    <<"C11.state", (IsRedirectClass(o.class) /\ known) => (o.state = reqs[a.req].state)>> }

TokensMatchReq(o, r) ==
  /\ o.at.name # "none" => (o.at.sub = r.sub /\ o.at.client = r.client /\ Range(o.at.scopes) = r.scopes)
  /\ o.idt.name # "none" => (o.idt.sub = r.sub /\ r.client \in Range(o.idt.aud) /\ o.idt.nonce = r.nonce)
  /\ o.rt.name # "none" => (o.rt.sub = r.sub /\ o.rt.client = r.client)

RulesCodeExchange(a, o) ==
  LET ok == o.class = "tokens"
      known == Has(codes, a.code) /\ Has(reqs, codes[a.code])
      r == reqs[codes[a.code]] IN
  { <<"C04.code.known",   ok => known>>,
    <<"C04.code.done",    (ok /\ known) => r.done>>,
    <<"C04.code.client",  (ok /\ known) => a.caller = r.client>>,
    <<"C04.code.auth",    ok => (a.caller \in Clients /\ AuthOK(a.caller, a.cred))>>,
    <<"C04.code.uri",     (ok /\ known) => a.uri = r.uri>>,
    <<"C04.code.pkce",    (ok /\ known /\ r.chall # "none") => Verifies(r.chall, a.verifier)>>,
    <<"C04.code.publicNeedsPKCE", (ok /\ known /\ a.caller \in Clients /\ Reg[a.caller].auth = "none") => r.chall # "none">>,
    <<"C04.code.once",    ok => a.code \notin redeemed>>,
    <<"C04.tokensMatch",  (ok /\ known) => TokensMatchReq(o, r)>>,
    <<"C05.code.grant",   ok => (a.caller \in Clients /\ "code" \in Grants(a.caller))>>,
    <<"C05.code.auth",    ok => (a.caller \in Clients /\ ~BadCred(a.caller, a.cred))>>,
    <<"C05.refused.doc",  (~ok) => (o.status >= 400 /\ o.doc)>> }

RulesRefresh(a, o) ==
  LET ok == o.class = "tokens"
      known == Has(rts, a.rt)
      r == rts[a.rt]
      want == Range(a.scopes) IN
  { <<"C07.refresh.known",  ok => known>>,
    <<"C07.refresh.live",   (ok /\ known) => r.live>>,
    <<"C07.refresh.client", (ok /\ known) => a.caller = r.client>>,
    <<"C07.refresh.auth",   ok => (a.caller \in Clients /\ AuthOK(a.caller, a.cred))>>,
    <<"C07.refresh.grant",  ok => (a.caller \in Clients /\ "refresh" \in Grants(a.caller))>>,
    <<"C07.refresh.enabled", ok => cfg.refresh>>,
    <<"C05.refresh.auth",   ok => (a.caller \in Clients /\ ~BadCred(a.caller, a.cred))>>,
    <<"C05.refresh.grant",  ok => (a.caller \in Clients /\ "refresh" \in Grants(a.caller) /\ cfg.refresh)>>,
    <<"C07.refresh.subset", (ok /\ known) => want \subseteq r.scopes>>,
    <<"C07.refresh.invalidScope",
        (known /\ r.live /\ a.caller = r.client /\ Clean(a.caller, a.cred) /\ cfg.refresh
           /\ "refresh" \in Grants(a.caller) /\ ~(want \subseteq r.scopes))
        => (o.class = "json" /\ o.err = "invalid_scope" /\ o.journal = <<>>)>>,
    <<"C07.refresh.rotated", ok => (o.rotated = a.rt /\ o.rt.name # "none" /\ o.rt.name # a.rt)>>,
    <<"C07.refresh.keeps",  (ok /\ known) =>
         /\ o.at.sub = r.sub /\ o.rt.sub = r.sub
         /\ Range(o.at.aud) = r.aud /\ Range(o.rt.aud) = r.aud
         /\ o.rt.auth = r.auth
         /\ o.rt.client = r.client /\ o.at.client = r.client>>,
    <<"C07.refresh.narrow", (ok /\ known) =>
         /\ Range(o.rt.scopes) \subseteq r.scopes
         /\ Range(o.at.scopes) \subseteq r.scopes
         /\ (want # {} => Range(o.at.scopes) = want)>>,
    <<"C05.refused.doc",  (~ok) => (o.status >= 400 /\ o.doc)>> }

RulesUserInfo(a, o) ==
  { <<"C08.userinfo.live", (o.class = "claims") => LiveAT(a.tok)>>,
    <<"C08.userinfo.sub",  (o.class = "claims" /\ LiveAT(a.tok)) => o.sub = toks[a.tok.id].sub>>,
    <<"C08.userinfo.refused", (o.class # "claims") => o.status >= 400>> }

RulesIntrospect(a, o) ==
  LET active == o.class = "active" IN
  { <<"C08.introspect.live",     active => LiveAT(a.tok)>>,
    <<"C08.introspect.audience", (active /\ LiveAT(a.tok)) => a.caller \in toks[a.tok.id].aud>>,
    \* "requires the AUTHENTICATED caller ...": naming a client is not enough, a public client cannot authenticate
    <<"C08.introspect.authenticated", active => (a.caller \in Clients /\ IsConfidential(a.caller) /\ AuthOK(a.caller, a.cred))>>,
    <<"C05.introspect.auth",     (o.class \in {"active", "inactive"}) =>
                                    (a.caller \in Clients /\ IsConfidential(a.caller) /\ AuthOK(a.caller, a.cred))>>,
    <<"C08.introspect.bare",     (o.class = "inactive") => o.bare>>,
    <<"C05.introspect.refused",  (a.caller \notin Clients \/ BadCred(a.caller, a.cred)) => o.status >= 400>> }

RulesRevoke(a, o) ==
  LET genuine == a.kind = "at" /\ a.tok.form = "issued" /\ Has(toks, a.tok.id)
      genuineRT == a.kind = "rt" /\ Has(rts, a.tok.id)
      owner == IF genuine THEN toks[a.tok.id].client ELSE IF genuineRT THEN rts[a.tok.id].client ELSE "none"
      authed == a.caller \in Clients /\ AuthOK(a.caller, a.cred) /\ ~(IsConfidential(a.caller) /\ a.cred.kind = "none")
      clean  == Clean(a.caller, a.cred) IN
  { <<"C05.revoke.auth",    (o.status = 200) => authed>>,
    <<"C08.revoke.foreign", ((genuine \/ genuineRT) /\ owner # a.caller) => o.status # 200>>,
    <<"C08.revoke.unknown", (clean /\ ~genuine /\ ~genuineRT) => o.status = 200>>,
    <<"C08.revoke.owner",   (clean /\ (genuine \/ genuineRT) /\ owner = a.caller) => o.status = 200>> }

RulesDeviceAuthorize(a, o) ==
  { <<"C05.device.grant", (o.class = "device") => (a.caller \in Clients /\ "device" \in Grants(a.caller))>>,
    \* the device code is recorded for the client that authenticated, whatever else the request names
    <<"C05.device.boundTo", (o.class = "device") => o.req = a.caller>>,
    <<"C16.device.boundTo", (o.class = "device") => o.req = a.caller>>,
    \* the user code shown to the user is the one the storage holds for THIS device code (approving it approves this flow and no other) -
    \* also when the storage first answered "user code already exists" and the provider tried again
    <<"C16.device.usercode", (o.class = "device") => o.ucBound>>,
    <<"C05.device.refused", (a.caller \notin Clients \/ "device" \notin Grants(a.caller)) => o.status >= 400>> }

RulesPoll(a, o) ==
  LET ok == o.class = "tokens"
      known == Has(devs, a.dc)
      d == devs[a.dc]
      mine == known /\ d.client = a.caller
      authed == a.caller \in Clients /\ AuthOK(a.caller, a.cred)
                  /\ ~(IsConfidential(a.caller) /\ a.cred.kind = "none")
      \* expectation rules: the registered presentation of a client that may use the device grant at all
      clean == Clean(a.caller, a.cred) /\ "device" \in Grants(a.caller) /\ cfg.dev IN
  { <<"C16.poll.approved", ok => (known /\ d.status = "done")>>,
    <<"C16.poll.client",   ok => mine>>,
    <<"C16.poll.auth",     ok => authed>>,
    <<"C05.poll.auth",     ok => (a.caller \in Clients /\ ~BadCred(a.caller, a.cred))>>,
    <<"C05.poll.grant",    ok => (a.caller \in Clients /\ "device" \in Grants(a.caller) /\ cfg.dev)>>,
    <<"C16.poll.subject",  (ok /\ known) => (o.at.sub = d.sub /\ Range(o.at.scopes) = d.scopes /\ o.at.client = d.client)>>,
    <<"C16.poll.pending",  (mine /\ clean /\ ~a.slow /\ d.status = "pending" /\ ~d.expired) =>
                              (o.class = "json" /\ o.err = "authorization_pending")>>,
    <<"C16.poll.denied",   (mine /\ clean /\ ~a.slow /\ d.status = "denied") => (o.class = "json" /\ o.err = "access_denied")>>,
    <<"C16.poll.expired",  (mine /\ clean /\ ~a.slow /\ d.status = "pending" /\ d.expired) =>
                              (o.class = "json" /\ o.err = "expired_token")>>,
    <<"C16.poll.slow",     (mine /\ clean /\ a.slow) => (o.class = "json" /\ o.err = "slow_down")>>,
    <<"C16.poll.foreign",  (~mine) => (o.class = "json" /\ o.status >= 400)>>,
    <<"C05.refused.doc",   (~ok) => (o.status >= 400 /\ o.doc)>> }

IDTLifetime == 3600             \* seconds, ID-token lifetime of every registered client in this world

\* Token references of a token-exchange request: [kind, form, id, declared]
\*   kind (what the string really is): access | refresh | id ; declared: access | refresh | id | jwt | unknown
LiveRef(t) ==
  /\ t.declared = t.kind
  /\ CASE t.kind = "access"  -> LiveAT([form |-> t.form, id |-> t.id])
        [] t.kind = "refresh" -> t.form = "issued" /\ LiveRT(t.id)
        [] t.kind = "id"      -> t.form = "valid" /\ Has(idts, t.id)
        [] OTHER -> FALSE
\* liveness of what the string really is, whatever type the request declares for it (C08)
LiveKind(t) ==
  CASE t.kind = "access"  -> LiveAT([form |-> t.form, id |-> t.id])
    [] t.kind = "refresh" -> t.form = "issued" /\ LiveRT(t.id)
    [] t.kind = "id"      -> t.form = "valid" /\ Has(idts, t.id)
    [] OTHER -> FALSE
\* Third-party tokens (op.TokenExchangeTokensVerifierStorage): kind extSubject / extActor, id = the user they name, declared "jwt".
\* The storage accepts the first kind only as subject token and the second only as actor token.
IsExt(t) == t.kind \in {"extSubject", "extActor"}
TypeFits(t) == t.declared = t.kind \/ (IsExt(t) /\ t.declared = "jwt")
SubjOK(t)  == LiveRef(t) \/ (t.kind = "extSubject" /\ t.declared = "jwt")
ActorOK(t) == LiveRef(t) \/ (t.kind = "extActor" /\ t.declared = "jwt")
SubOfRef(t) == CASE t.kind = "access" -> toks[t.id].sub [] t.kind = "refresh" -> rts[t.id].sub [] IsExt(t) -> t.id [] OTHER -> idts[t.id].sub

IssuableTypes == {"access", "refresh", "id"}

RulesTokenExchange(a, o) ==
  LET ok == o.class = "tokens"
      eff == IF a.requested = "" THEN cfg.policy.defType ELSE a.requested     \* the type the store's policy settles on
      hasActor == a.actor.kind # "none"
      wantSub == IF cfg.policy.imp # "" THEN cfg.policy.imp ELSE SubOfRef(a.subj)
      wantScopes == Range(a.scopes) \ {cfg.policy.drop} IN
  { <<"C05.te.auth",     ok => (a.caller \in Clients /\ IsConfidential(a.caller) /\ AuthOK(a.caller, a.cred))>>,
    <<"C05.te.grant",    ok => (a.caller \in Clients /\ "te" \in Grants(a.caller) /\ cfg.te)>>,
    \* C08: "token exchange accepts a subject or actor token only for a token the provider actually issued that is neither expired, revoked ..."
    <<"C08.exchange.subject", ok => LiveKind(a.subj)>>,
    <<"C08.exchange.actor",   (ok /\ hasActor) => LiveKind(a.actor)>>,
    \* "succeeds only for an authenticated client": with the credentials of THIS request - whatever the same client proved before
    <<"C15.client.auth",  ok => (a.caller \in Clients /\ IsConfidential(a.caller) /\ AuthOK(a.caller, a.cred))>>,
    <<"C15.subject.type", ok => TypeFits(a.subj)>>,
    <<"C15.subject.live", (ok /\ TypeFits(a.subj)) => SubjOK(a.subj)>>,
    <<"C15.actor.type",   (ok /\ hasActor) => TypeFits(a.actor)>>,
    <<"C15.actor.live",   (ok /\ hasActor /\ TypeFits(a.actor)) => ActorOK(a.actor)>>,
    <<"C15.veto",         ok => ~cfg.policy.deny>>,
    <<"C15.issuable",     ok => eff \in IssuableTypes>>,
    <<"C15.declares",     ok => o.issuedType = eff>>,
    <<"C15.contains",     ok =>
         CASE eff = "access"  -> o.at.name \notin {"none", "unknown"}
           [] eff = "refresh" -> o.at.name \notin {"none", "unknown"} /\ o.rt.name \notin {"none", "unknown"}
           \* "that token is live at the provider": an ID token that is unexpired and lives as long as the client's ID tokens do
           [] eff = "id"      -> o.idt.name # "none" /\ o.idt.sig = "ok" /\ o.idt.fresh /\ o.idt.life >= IDTLifetime
           [] OTHER -> FALSE>>,
    <<"C15.policy.subject", (ok /\ SubjOK(a.subj)) =>
         /\ (o.at.name \notin {"none", "unknown"} => o.at.sub = wantSub /\ o.at.client = a.caller /\ Range(o.at.scopes) = wantScopes)
         /\ (o.idt.name # "none" => o.idt.sub = wantSub)
         /\ (o.rt.name \notin {"none", "unknown"} => o.rt.sub = wantSub /\ o.rt.client = a.caller)>>,
    <<"C15.policy.actor", (ok /\ hasActor /\ ActorOK(a.actor)) => o.actor = SubOfRef(a.actor)>>,
    \* "... yields an OAuth error": whatever is not a success is an OAuth error document with an error status
    <<"C15.refused.oauthError", (~ok) => (o.class = "json" /\ o.status >= 400 /\ o.doc)>>,
    <<"C05.refused.doc",  (~ok) => (o.status >= 400 /\ o.doc)>> }

RulesClientCreds(a, o) ==
  LET ok == o.class = "tokens" IN
  { <<"C05.cc.auth",  ok => (a.caller \in Clients /\ a.cred.kind \in {"basic", "post"} /\ a.cred.secret = "right" /\ Reg[a.caller].auth \in {"basic", "post"})>>,
    <<"C05.cc.grant", ok => (a.caller \in Clients /\ "cc" \in Grants(a.caller) /\ cfg.cc)>>,
    <<"C05.cc.subject", ok => (o.at.sub = a.caller /\ o.at.client = a.caller)>>,
    <<"C05.refused.doc",  (~ok) => (o.status >= 400 /\ o.doc)>> }

RulesJWTBearer(a, o) ==
  LET ok == o.class = "tokens" IN
  { <<"C14.bearer.signer", ok => (a.iss \in Clients /\ Reg[a.iss].auth = "pkjwt" /\ a.key = "own")>>,
    <<"C14.bearer.identity", ok => o.at.sub = a.iss>>,
    <<"C05.refused.doc",  (~ok) => (o.status >= 400 /\ o.doc)>> }

RulesEndSession(a, o) ==
  \* a.hint : [kind : none|valid|expired|multiaud|wrongkey|wrongiss|algnone, id] ; a.client : "" or client ; a.uri : "" or name ;
  \* a.host : "A" (the issuer every token of the history was issued under) | "B" (a second tenant of an issuer-from-host provider)
  \* kind multiaud: a validly signed hint whose audience also lists a second client (azp = the client it was issued to)
  LET h == a.hint
      foreignTenant == cfg.dyn /\ a.host = "B"          \* the hint names another issuer than the one the request is addressed to
      \* futureiat / noiat: validly signed hints whose iat lies ahead of the provider's clock or is missing (tolerated like an expired hint)
      hintOK == h.kind \in {"valid", "expired", "multiaud", "futureiat", "noiat"} /\ Has(idts, h.id) /\ ~foreignTenant
      proven == IF h.kind # "none" THEN (IF hintOK THEN idts[h.id].client ELSE "none")
                ELSE IF a.client \in Clients THEN a.client ELSE "none"
      registered == proven \in Clients /\ PostLogoutOK(proven, a.uri) IN      \* exactly, or via the client's post-logout glob
  { <<"C18.redirect.registered", (o.class = "redirect" /\ o.target # "default") => (registered /\ o.target = a.uri)>>,
    <<"C18.hint.bad",    (h.kind \in {"wrongkey", "wrongiss", "algnone"}) => o.class # "redirect">>,
    <<"C18.hint.foreignIssuer", (h.kind # "none" /\ foreignTenant) => o.class # "redirect">>,
    <<"C18.hint.expired", (h.kind = "expired" /\ hintOK /\ a.client \in {"", idts[h.id].client}
                             /\ (a.uri = "" \/ registered)) => o.class = "redirect">>,
    <<"C18.hint.valid",  (h.kind \in {"valid", "multiaud"} /\ hintOK /\ a.client \in {"", idts[h.id].client}
                             /\ (a.uri = "" \/ registered)) => o.class = "redirect">>,
    <<"C18.contradiction", (hintOK /\ a.client # "" /\ a.client # idts[h.id].client) => o.class # "redirect">>,
    <<"C18.session", (o.class = "redirect" /\ hintOK) => (o.sub = idts[h.id].sub /\ o.req = idts[h.id].client)>>,
    \* C08 "logout takes effect everywhere": an accepted logout terminates the session of the hint's subject and client at the storage
    <<"C08.logout.session", (o.class = "redirect" /\ hintOK) => (o.sub = idts[h.id].sub /\ o.req = idts[h.id].client)>>,
    <<"C18.state", (o.class = "redirect") => o.state = a.state>> }

Rules(e) ==
  CASE e.op = "Authorize"    -> RulesAuthorize(e.args, e.out)
    [] e.op = "Callback"     -> RulesCallback(e.args, e.out)
    [] e.op = "CodeExchange" -> RulesCodeExchange(e.args, e.out)
    [] e.op = "Refresh"      -> RulesRefresh(e.args, e.out)
    [] e.op = "UserInfo"     -> RulesUserInfo(e.args, e.out)
    [] e.op = "Introspect"   -> RulesIntrospect(e.args, e.out)
    [] e.op = "Revoke"       -> RulesRevoke(e.args, e.out)
    [] e.op = "DeviceAuthorize" -> RulesDeviceAuthorize(e.args, e.out)
    [] e.op = "Poll"         -> RulesPoll(e.args, e.out)
    [] e.op = "EndSession"   -> RulesEndSession(e.args, e.out)
    [] e.op = "TokenExchange" -> RulesTokenExchange(e.args, e.out)
    [] e.op = "ClientCreds"  -> RulesClientCreds(e.args, e.out)
    [] e.op = "JWTBearer"    -> RulesJWTBearer(e.args, e.out)
    [] OTHER -> {}

-----------------------------------------------------------------------------
(* C06: every issued token is well-formed and passes the library's own verifiers. *)
IssuerName == "issuer"          \* abstract name of the provider's issuer (projection maps the configured issuer URL to it)
UserClaimsOf(scopes) ==
  (IF "email" \in scopes THEN {"email", "email_verified"} ELSE {}) \cup
  (IF "profile" \in scopes THEN {"name", "preferred_username"} ELSE {}) \cup
  (IF "phone" \in scopes THEN {"phone_number"} ELSE {}) \cup
  (IF "address" \in scopes THEN {"address"} ELSE {})

\* the client the tokens of a successful event are issued to, and the underlying request's facts (or "any" where the flow has none)
IssuedFor(e) ==
  CASE e.op = "Callback" -> IF Has(reqs, e.args.req) THEN reqs[e.args.req].client ELSE "none"
    [] e.op = "JWTBearer" -> e.args.iss
    [] OTHER -> e.args.caller
ReqOf(e) ==
  CASE e.op = "Callback" /\ Has(reqs, e.args.req) -> reqs[e.args.req]
    [] e.op = "CodeExchange" /\ Has(codes, e.args.code) /\ Has(reqs, codes[e.args.code]) -> reqs[codes[e.args.code]]
    [] OTHER -> [none |-> TRUE]
GrantedScopes(e) ==
  IF e.out.at.name \notin {"none", "unknown"} THEN Range(e.out.at.scopes)
  ELSE IF "scopes" \in DOMAIN ReqOf(e) THEN ReqOf(e).scopes
  ELSE Range(e.out.scope)

SkewOf(c) == IF c \in Clients THEN Skew(c) ELSE 0
Within(x, target, slack) == x + slack >= target /\ x <= target + slack
RulesIssued(e) ==
  LET o == e.out  idt == o.idt  at == o.at  c == IssuedFor(e)  r == ReqOf(e)
      hasIDT == idt.name # "none"
      hasAT  == at.name # "none"
      isReq  == "client" \in DOMAIN r IN
  IF o.class # "tokens" THEN {} ELSE
  { <<"C06.idt.signed",   hasIDT => idt.sig = "ok">>,
    <<"C06.idt.verifies", hasIDT => idt.lib = "ok">>,
    <<"C06.idt.issuer",   hasIDT => idt.iss = IssuerName>>,
    <<"C06.idt.audience", hasIDT => (c \in Range(idt.aud) /\ idt.azp = c)>>,
    \* exp and iat bracket the configured lifetime, shifted by the client's clock skew: iat = now - skew, exp = now + skew + lifetime
    <<"C06.idt.lifetime", hasIDT => (idt.fresh /\ idt.life = IDTLifetime + 2 * SkewOf(c) /\ Within(idt.iatAgo, SkewOf(c), 3))>>,
    <<"C06.idt.at_hash",  hasIDT => (idt.athash # "bad" /\ ((hasAT /\ o.issuedType # "id") => idt.athash = "ok"))>>,
    <<"C06.idt.c_hash",   hasIDT => idt.chash # "bad">>,
    <<"C06.idt.request",  (hasIDT /\ isReq) => (idt.sub = r.sub /\ idt.nonce = r.nonce /\ idt.auth = r.auth /\ idt.amr = <<"pwd">>)>>,
    <<"C06.idt.refresh",  (hasIDT /\ e.op = "Refresh" /\ Has(rts, e.args.rt)) => (idt.sub = rts[e.args.rt].sub /\ idt.auth = rts[e.args.rt].auth)>>,
    <<"C06.idt.userclaims", hasIDT => Range(idt.uclaims) \subseteq UserClaimsOf(GrantedScopes(e))>>,
    <<"C06.at.known",     hasAT => at.name # "unknown">>,
    <<"C06.at.jwt",       (hasAT /\ at.kind = "jwt") => (at.lib = "ok" /\ at.iss = IssuerName /\ at.jsub = at.sub /\ at.jclient = at.client
                                                         /\ at.expOK /\ at.fresh /\ Within(at.iatAgo, SkewOf(at.client), 3))>>,
    <<"C06.at.opaque",    (hasAT /\ at.kind = "opaque") => at.sealed = "ok">>,
    <<"C06.response.expires", (hasAT /\ at.name # "unknown") => Within(at.expiresOff, SkewOf(at.client), 2)>>,
    <<"C06.response.scope",   (hasAT /\ o.scope # <<>>) => Range(o.scope) = Range(at.scopes)>> }

\* rules that apply to every event, whatever the operation (C09 on the server side)
\* C10: out.faulted = a storage call made while serving this request failed (fault plan of the harness store).
\* The answer must then be an error (OAuth error document / error page with a 4xx-5xx status, an error redirect to the
\* validated URI, or an inactive introspection) and carry no code, token, claims or active:true.
Universal(e) == { <<"C09.nopanic", e.out.class # "panic">>,
                  <<"C09.oneResponse", e.out.class # "double">>,
                  <<"C10.failclosed", e.out.faulted =>
                       (/\ e.out.class \in {"json", "page", "redirErr", "inactive"}
                        /\ (e.out.class \in {"json", "page"} => e.out.status >= 400)
                        /\ e.out.at.name = "none" /\ e.out.rt.name = "none" /\ e.out.idt.name = "none" /\ e.out.code = "none")>> }

\* Rules that EXPECT a particular answer of a fitting request.  When a storage call failed while the request was served
\* (out.faulted) an error answer is legitimate (C10 demands it), so these rules do not apply to such an event.
Expectations == {"C07.refresh.invalidScope", "C08.revoke.unknown", "C08.revoke.owner", "C16.poll.pending", "C16.poll.denied",
                 "C16.poll.expired", "C16.poll.slow", "C18.hint.expired", "C18.hint.valid"}

Check(e) == {r[1] : r \in {x \in Rules(e) \cup RulesIssued(e) \cup Universal(e) : ~x[2] /\ ~(e.out.faulted /\ x[1] \in Expectations)}}
=============================================================================
