SPECIFICATION Spec
CONSTANTS
  Routers = {"P", "L"}
  Ops = {"DeviceAuthorize", "Approve", "Deny", "ExpireDevice", "Poll"}
  MaxReq = 0
  MaxCode = 0
  MaxAT = 3
  MaxDev = 3
  MaxSteps = 99
  Seeded = FALSE
  Vary = {"post", "refresh"}
  Narrow = FALSE
INVARIANT NoViolation
VIEW View
CHECK_DEADLOCK FALSE
