SPECIFICATION MSpec
CONSTANTS
  Routers = {"P", "L"}
  Ops = {"Authorize", "Login", "Callback", "CodeExchange", "Refresh", "DeviceAuthorize", "Approve", "Poll", "ClientCreds", "JWTBearer", "TokenExchange"}
  MaxReq = 3
  MaxCode = 3
  MaxAT = 8
  MaxDev = 2
  MaxSteps = 99
  Seeded = FALSE
  Vary = {"policy"}
  Narrow = TRUE
  Depth = 16
INVARIANT Emit
INVARIANT NoViolation
CHECK_DEADLOCK FALSE
