----------------------------- MODULE OPDesign -----------------------------
(***************************************************************************)
(* Design spec of the provider: the events of OP.tla with their outcome     *)
(* fixed by Decide*, a transcription of the decision order of the code      *)
(* (pkg/op/token_code.go, token_refresh.go, server_legacy.go, device.go,    *)
(* token_revocation.go, token_intospection.go, userinfo.go, session.go,     *)
(* auth_request.go), separately for the Provider router ("P") and the       *)
(* LegacyServer router ("L").  TLC checks  viol = {}  in every reachable    *)
(* state, i.e. the decision procedures imply the listed properties for      *)
(* every interleaved history within the bounds of the cfg.                  *)
(***************************************************************************)
EXTENDS OP

CONSTANTS
  Routers,    \* subset of {"P", "L"}: the routers explored
  Ops,        \* operations enabled in this configuration
  MaxReq, MaxCode, MaxAT, MaxDev,   \* bounds on created objects
  MaxSteps,   \* bound on the length of histories (decision-table style configurations use 1 or 2)
  Seeded,     \* TRUE: Init already holds tokens of a completed code flow (keeps token-use / exchange models small)
  Vary,       \* which parts of the provider configuration vary in Init: subset of {"post","refresh","caps","policy"}
  Narrow      \* TRUE: argument domains = the fitting request plus one-dimension deviations (MBT);
              \* FALSE: full products (exhaustive check)

N(prefix, n) == prefix \o ToString(n)

Callers == Clients \cup {"cz"}          \* "cz" is not registered
StateVals == {"st1"}
NonceVals == {"n1", ""}

RightCred(c) ==
  IF c \notin Clients THEN [kind |-> "basic", secret |-> "right", key |-> "none", alias |-> ""]
  ELSE CASE Reg[c].auth = "none"  -> [kind |-> "none", secret |-> "none", key |-> "none", alias |-> ""]
         [] Reg[c].auth = "pkjwt" -> [kind |-> "assertion", secret |-> "none", key |-> "own", alias |-> ""]
         [] Reg[c].auth = "post"  -> [kind |-> "post", secret |-> "right", key |-> "none", alias |-> ""]
         [] OTHER                 -> [kind |-> "basic", secret |-> "right", key |-> "none", alias |-> ""]

-----------------------------------------------------------------------------
(* Client authentication as the code performs it.  Result: "ok" or an error. *)

SecretOK(c, cred) == c \in Clients /\ Reg[c].auth \in {"basic", "post"} /\ cred.kind \in {"basic", "post"} /\ cred.secret = "right"
AssertionOK(c, cred) == c \in Clients /\ Reg[c].auth = "pkjwt" /\ cred.kind = "assertion" /\ cred.key = "own"

\* AuthorizeCodeClient / AuthorizeRefreshClient (P) and LegacyServer.VerifyClient (L) agree on this part
TokenClientAuth(c, cred) ==
  IF cred.kind = "assertion"
  THEN IF ~cfg.pkjwt THEN "invalid_client"
       ELSE IF AssertionOK(c, cred) THEN "ok" ELSE "assertion_failed"
  ELSE IF c \notin Clients THEN "invalid_client"
  ELSE IF Reg[c].auth = "none" THEN "ok"
  ELSE IF Reg[c].auth = "pkjwt" THEN "invalid_client"
  ELSE IF Reg[c].auth = "post" /\ ~cfg.post THEN "invalid_client"
  ELSE IF SecretOK(c, cred) THEN "ok" ELSE "invalid_client"

\* ClientIDFromRequest (P: introspection, device): <<result, authenticated>>
ResourceClientAuthP(c, cred) ==
  CASE cred.kind = "assertion" -> IF AssertionOK(c, cred) THEN <<"ok", TRUE>> ELSE <<"unauthorized_client", FALSE>>
    [] cred.kind = "basic"     -> IF SecretOK(c, cred) THEN <<"ok", TRUE>> ELSE <<"unauthorized_client", FALSE>>
    [] OTHER                   -> <<"ok", FALSE>>      \* client_id from the form, unauthenticated

Err(status, code) == [NoOut EXCEPT !.class = "json", !.status = status, !.err = code, !.doc = TRUE]
Page(status)      == [NoOut EXCEPT !.class = "page", !.status = status]
TokStatus(code)   == IF cfg.router = "P" /\ code = "invalid_client" THEN 401
                     ELSE IF cfg.router = "L" /\ code = "server_error" THEN 500 ELSE 400
TokErr(code)      == Err(TokStatus(code), code)

-----------------------------------------------------------------------------
(* /authorize and the callback                                              *)

Channel(rmode, rtype, success) ==
  IF success /\ rmode = "form_post" THEN "form"
  ELSE IF rmode = "query" THEN "query"
  ELSE IF rmode = "fragment" THEN "fragment"
  ELSE IF rtype \in {"id_token", "id_token token"} THEN "fragment" ELSE "query"

RedirErr(a, code) == [NoOut EXCEPT !.class = "redirErr", !.status = 302, !.err = code, !.target = a.uri,
                                    !.channel = Channel(a.rmode, a.rtype, FALSE), !.state = a.state]

DecideAuthorize(a) ==
  LET known == a.client \in Clients
      reg   == known /\ a.uri \in Reg[a.client].uris
      login == [NoOut EXCEPT !.class = "login", !.status = 302, !.req = N("r", cnt.r + 1)] IN
  IF cfg.router = "P" THEN
    IF a.client = "" \/ a.uri = "" \/ ~known \/ ~reg THEN Page(400)
    ELSE IF a.scopes = <<>> THEN RedirErr(a, "invalid_request")
    ELSE IF a.rtype = "" THEN RedirErr(a, "invalid_request")
    ELSE IF a.rtype \notin Reg[a.client].rtypes THEN RedirErr(a, "unauthorized_client")
    ELSE login
  ELSE
    IF a.client = "" THEN Err(400, "invalid_request")
    ELSE IF ~known THEN Err(500, "server_error")
    ELSE IF a.uri = "" THEN Err(500, "server_error")
    ELSE IF a.scopes = <<>> THEN Err(400, "invalid_request")
    ELSE IF ~reg THEN Err(400, "invalid_request")
    ELSE IF a.rtype = "" THEN Err(400, "invalid_request")
    ELSE IF a.rtype \notin Reg[a.client].rtypes THEN Err(400, "unauthorized_client")
    ELSE login

NewAT(client, sub, scopes, aud) ==
  [NoTok EXCEPT !.name = N("a", cnt.a + 1), !.kind = Reg[client].at, !.client = client, !.sub = sub,
                !.scopes = SetToSeq(scopes), !.aud = SetToSeq(aud),
                !.lib = IF Reg[client].at = "jwt" THEN "ok" ELSE "none", !.iss = IF Reg[client].at = "jwt" THEN IssuerName ELSE "none",
                !.jsub = IF Reg[client].at = "jwt" THEN sub ELSE "none", !.jclient = IF Reg[client].at = "jwt" THEN client ELSE "none",
                !.sealed = IF Reg[client].at = "jwt" THEN "none" ELSE "ok",
                !.iatAgo = IF Reg[client].at = "jwt" THEN Skew(client) ELSE 0, !.expiresOff = Skew(client)]
NewRT(client, sub, scopes, aud, auth, root) ==
  [name |-> N("f", cnt.f + 1), client |-> client, sub |-> sub, scopes |-> SetToSeq(scopes),
   aud |-> SetToSeq(aud), auth |-> auth, root |-> IF root = "new" THEN N("f", cnt.f + 1) ELSE root]
NewIDTA(client, sub, nonce, auth, amr) ==
  [NoIdt EXCEPT !.auth = auth, !.amr = amr, !.name = N("i", cnt.i + 1), !.sub = sub, !.aud = <<client>>, !.azp = client, !.nonce = nonce,
                !.iss = IssuerName, !.sig = "ok", !.lib = "ok", !.life = IDTLifetime + 2 * Skew(client), !.iatAgo = Skew(client)]
NewIDT(client, sub, nonce) == NewIDTA(client, sub, nonce, "none", <<>>)
NewIDTReq(r) == NewIDTA(r.client, r.sub, r.nonce, r.auth, <<"pwd">>)

Usable(r) == Has(reqs, r) /\ ~reqs[r].used

DecideCallback(a) ==
  IF ~Usable(a.req) THEN Page(400)
  ELSE LET r == reqs[a.req] IN
    IF ~r.done THEN [NoOut EXCEPT !.class = "redirErr", !.status = 302, !.err = "interaction_required", !.target = r.uri,
                                   !.channel = Channel(r.rmode, r.rtype, FALSE), !.state = r.state]
    ELSE IF r.rtype = "code"
         THEN [NoOut EXCEPT !.class = "code", !.status = IF r.rmode = "form_post" THEN 200 ELSE 302, !.target = r.uri,
                            !.channel = Channel(r.rmode, r.rtype, TRUE), !.state = r.state, !.code = N("k", cnt.k + 1)]
         ELSE [NoOut EXCEPT !.class = "tokens", !.status = IF r.rmode = "form_post" THEN 200 ELSE 302, !.target = r.uri,
                            !.channel = Channel(r.rmode, r.rtype, TRUE), !.state = r.state,
                            !.at = IF r.rtype = "id_token token" THEN NewAT(r.client, r.sub, r.scopes, {r.client}) ELSE NoTok,
                            !.idt = NewIDTReq(r)]

-----------------------------------------------------------------------------
(* token endpoint: authorization_code                                        *)

CodeTokens(r, caller) ==
  LET wantRT == "offline_access" \in r.scopes /\ "refresh" \in Grants(caller) IN
  [NoOut EXCEPT !.class = "tokens", !.status = 200,
                !.at = NewAT(r.client, r.sub, r.scopes, {r.client}),
                !.rt = IF wantRT THEN NewRT(r.client, r.sub, r.scopes, {r.client}, r.auth, "new") ELSE NoRt,
                !.idt = NewIDTReq(r),
                !.scope = SetToSeq(r.scopes)]

CodeValid(code) == Has(codes, code) /\ Usable(codes[code])

DecideCodeExchange(a) ==
  LET auth == TokenClientAuth(a.caller, a.cred) IN
  IF cfg.router = "P" THEN
    IF ~CodeValid(a.code) THEN TokErr("invalid_grant")
    ELSE LET r == reqs[codes[a.code]] IN
      IF r.chall # "none" /\ a.verifier = "none" THEN TokErr("invalid_request")
      ELSE IF r.chall # "none" /\ ~Verifies(r.chall, a.verifier) THEN TokErr("invalid_grant")
      ELSE IF auth = "assertion_failed" THEN TokErr("server_error")
      ELSE IF auth # "ok" THEN TokErr(auth)
      ELSE IF Reg[a.caller].auth = "none" /\ a.cred.kind # "assertion" /\ r.chall = "none" THEN TokErr("invalid_request")
      ELSE IF a.caller # r.client THEN TokErr("invalid_grant")
      ELSE IF "code" \notin Grants(a.caller) THEN TokErr("unauthorized_client")
      ELSE IF a.uri # r.uri THEN TokErr("invalid_grant")
      ELSE CodeTokens(r, a.caller)
  ELSE
    IF auth = "assertion_failed" THEN TokErr("server_error")
    ELSE IF auth # "ok" THEN TokErr(auth)
    ELSE IF "code" \notin Grants(a.caller) THEN TokErr("unauthorized_client")
    ELSE IF a.uri = "" THEN TokErr("invalid_request")
    ELSE IF ~CodeValid(a.code) THEN TokErr("invalid_grant")
    ELSE LET r == reqs[codes[a.code]] IN
      IF a.caller # r.client THEN TokErr("invalid_grant")
      ELSE IF (Reg[a.caller].auth = "none" \/ r.chall # "none" \/ a.verifier # "none") /\ a.verifier = "none" THEN TokErr("invalid_request")
      ELSE IF (Reg[a.caller].auth = "none" \/ r.chall # "none" \/ a.verifier # "none") /\ ~Verifies(r.chall, a.verifier) THEN TokErr("invalid_grant")
      ELSE IF a.uri # r.uri THEN TokErr("invalid_grant")
      ELSE CodeTokens(r, a.caller)

-----------------------------------------------------------------------------
(* token endpoint: refresh_token                                             *)

RefreshTokens(r, a) ==
  LET want == Range(a.scopes)
      sc == IF want = {} THEN r.scopes ELSE want IN
  [NoOut EXCEPT !.class = "tokens", !.status = 200,
                !.at = NewAT(r.client, r.sub, sc, r.aud),
                !.rt = NewRT(r.client, r.sub, sc, r.aud, r.auth, r.root),
                !.idt = NewIDTA(r.client, r.sub, "", r.auth, <<"pwd">>),
                !.scope = SetToSeq(sc), !.rotated = a.rt,
                !.journal = <<"CreateAccessAndRefreshTokens">>]

DecideRefresh(a) ==
  LET auth == TokenClientAuth(a.caller, a.cred)
      granted == a.caller \in Clients /\ "refresh" \in Grants(a.caller)
      tail == IF ~LiveRT(a.rt) THEN TokErr("invalid_grant")
              ELSE IF rts[a.rt].client # a.caller THEN TokErr("invalid_grant")
              ELSE IF ~(Range(a.scopes) \subseteq rts[a.rt].scopes) THEN TokErr("invalid_scope")
              ELSE RefreshTokens(rts[a.rt], a) IN
  IF cfg.router = "P" THEN
    IF ~cfg.refresh THEN TokErr("unsupported_grant_type")
    ELSE IF a.cred.kind = "assertion" THEN
         (IF auth = "assertion_failed" THEN TokErr("server_error")
          ELSE IF auth # "ok" THEN TokErr("server_error")
          ELSE IF ~granted THEN TokErr("unauthorized_client") ELSE tail)
    ELSE IF a.caller \notin Clients THEN TokErr("server_error")
    ELSE IF ~granted THEN TokErr("unauthorized_client")
    ELSE IF auth # "ok" THEN TokErr(auth)
    ELSE tail
  ELSE
    IF auth = "assertion_failed" THEN TokErr("server_error")
    ELSE IF auth # "ok" THEN TokErr(auth)
    ELSE IF ~granted THEN TokErr("unauthorized_client")
    ELSE IF ~cfg.refresh THEN TokErr("unsupported_grant_type")
    ELSE tail

-----------------------------------------------------------------------------
(* token use                                                                 *)

DecideUserInfo(a) ==
  IF LiveAT(a.tok) THEN [NoOut EXCEPT !.class = "claims", !.status = 200, !.sub = toks[a.tok.id].sub]
  ELSE IF cfg.router = "L" THEN Err(IF a.tok.form = "issued" /\ Has(toks, a.tok.id) THEN 403 ELSE 401, "access_denied")
  ELSE IF a.tok.form = "issued" /\ Has(toks, a.tok.id) THEN Err(403, "none") ELSE Page(401)

DecideIntrospect(a) ==
  LET authed == IF cfg.router = "P" THEN ResourceClientAuthP(a.caller, a.cred) = <<"ok", TRUE>>
                ELSE (AssertionOK(a.caller, a.cred) \/ SecretOK(a.caller, a.cred)) IN
  IF ~authed THEN (IF cfg.router = "P" THEN Page(401) ELSE Err(400, "unauthorized_client"))
  ELSE IF LiveAT(a.tok) /\ a.caller \in toks[a.tok.id].aud
       THEN [NoOut EXCEPT !.class = "active", !.status = 200, !.sub = toks[a.tok.id].sub, !.bare = FALSE]
       ELSE [NoOut EXCEPT !.class = "inactive", !.status = 200]

DecideRevoke(a) ==
  LET authP == CASE a.cred.kind = "assertion" -> cfg.pkjwt /\ AssertionOK(a.caller, a.cred)
                 [] a.cred.kind = "basic"     -> SecretOK(a.caller, a.cred)
                 [] a.cred.kind = "post"      -> a.caller \in Clients /\ ~(Reg[a.caller].auth = "post" /\ ~cfg.post) /\ SecretOK(a.caller, a.cred)
                 [] OTHER                     -> a.caller \in Clients /\ Reg[a.caller].auth = "none"
      authed == IF cfg.router = "P" THEN authP ELSE TokenClientAuth(a.caller, a.cred) = "ok"
      genuine == a.kind = "at" /\ a.tok.form = "issued" /\ Has(toks, a.tok.id)
      genuineRT == a.kind = "rt" /\ Has(rts, a.tok.id)
      owner == IF genuine THEN toks[a.tok.id].client ELSE IF genuineRT THEN rts[a.tok.id].client ELSE a.caller IN
  IF ~authed THEN Err(IF cfg.router = "P" THEN 401 ELSE 400, "invalid_client")
  ELSE IF owner # a.caller THEN Err(401, "invalid_client")
  ELSE [NoOut EXCEPT !.class = "ok200", !.status = 200]

-----------------------------------------------------------------------------
(* device grant                                                              *)

DecideDeviceAuthorize(a) ==
  LET dev == [NoOut EXCEPT !.class = "device", !.status = 200, !.dc = N("d", cnt.d + 1), !.uc = "uc-" \o N("d", cnt.d + 1), !.req = a.caller]
      granted == a.caller \in Clients /\ "device" \in Grants(a.caller) IN
  IF cfg.router = "P" THEN
    LET ra == ResourceClientAuthP(a.caller, a.cred) IN
    IF ra[1] # "ok" THEN TokErr(ra[1])
    ELSE IF a.caller \notin Clients THEN TokErr("server_error")
    ELSE IF ~granted THEN TokErr("unauthorized_client")
    ELSE IF ~cfg.dev THEN TokErr("unsupported_grant_type")
    ELSE dev
  ELSE
    LET auth == TokenClientAuth(a.caller, a.cred) IN
    IF auth = "assertion_failed" THEN TokErr("server_error")
    ELSE IF auth # "ok" THEN TokErr(auth)
    ELSE IF ~granted THEN TokErr("unauthorized_client")
    ELSE IF ~cfg.dev THEN TokErr("unsupported_grant_type")
    ELSE dev

DeviceTokens(d) ==
  LET wantRT == "offline_access" \in d.scopes /\ "refresh" \in Grants(d.client) IN
  [NoOut EXCEPT !.class = "tokens", !.status = 200,
                !.at = NewAT(d.client, d.sub, d.scopes, {d.client}),
                !.rt = IF wantRT THEN NewRT(d.client, d.sub, d.scopes, {d.client}, "t", "new") ELSE NoRt,
                !.idt = IF "openid" \in d.scopes THEN NewIDT(d.client, d.sub, "") ELSE NoIdt,
                !.scope = SetToSeq(d.scopes)]

DeviceState(a) ==     \* CheckDeviceAuthorizationState: "tokens" or an error code
  IF ~(Has(devs, a.dc) /\ devs[a.dc].client = a.caller) THEN "access_denied"
  ELSE IF a.slow THEN "slow_down"
  ELSE IF devs[a.dc].status = "denied" THEN "access_denied"
  ELSE IF devs[a.dc].status = "done" THEN "tokens"
  ELSE IF devs[a.dc].expired THEN "expired_token"
  ELSE "authorization_pending"

DecidePoll(a) ==
  IF cfg.router = "P" THEN
    LET ra == ResourceClientAuthP(a.caller, a.cred)
        st == DeviceState(a) IN
    IF ~cfg.dev THEN TokErr("unsupported_grant_type")
    ELSE IF ra[1] # "ok" THEN TokErr(ra[1])
    ELSE IF st # "tokens" THEN TokErr(st)
    ELSE IF ra[2] # (Reg[a.caller].auth # "none") THEN TokErr("invalid_client")
    ELSE DeviceTokens(devs[a.dc])
  ELSE
    LET auth == TokenClientAuth(a.caller, a.cred)
        st == DeviceState(a) IN
    IF auth = "assertion_failed" THEN TokErr("server_error")
    ELSE IF auth # "ok" THEN TokErr(auth)
    ELSE IF "device" \notin Grants(a.caller) THEN TokErr("unauthorized_client")
    ELSE IF ~cfg.dev THEN TokErr("unsupported_grant_type")
    ELSE IF st # "tokens" THEN TokErr(st)
    ELSE DeviceTokens(devs[a.dc])

-----------------------------------------------------------------------------
(* end_session                                                               *)

DecideEndSession(a) ==
  LET h == a.hint
      hintOK == h.kind \in {"valid", "expired", "multiaud", "futureiat", "noiat"} /\ Has(idts, h.id) /\ ~(cfg.dyn /\ a.host = "B")
      badHint == h.kind # "none" /\ ~hintOK
      client == IF hintOK THEN idts[h.id].client ELSE a.client
      redirect(target, sub, c) == [NoOut EXCEPT !.class = "redirect", !.status = 302, !.target = target,
                                                 !.state = a.state, !.sub = sub, !.req = c] IN
  IF badHint THEN TokErr("invalid_request")
  ELSE IF hintOK /\ a.client # "" /\ a.client # idts[h.id].client THEN TokErr("invalid_request")
  ELSE IF client = "" THEN redirect("default", "", "")
  ELSE IF client \notin Clients THEN TokErr("server_error")
  ELSE IF a.uri = "" THEN redirect("default", IF hintOK THEN idts[h.id].sub ELSE "", client)
  ELSE IF PostLogoutOK(client, a.uri) THEN redirect(a.uri, IF hintOK THEN idts[h.id].sub ELSE "", client)
  ELSE TokErr("invalid_request")

-----------------------------------------------------------------------------
(* token endpoint: client_credentials, jwt-bearer, token-exchange            *)

IssuerURL == "https://op.example.test"

DecideClientCreds(a) ==
  LET secretOK == a.caller \in Clients /\ Reg[a.caller].auth \in {"basic", "post"}
                    /\ a.cred.kind \in {"basic", "post"} /\ a.cred.secret = "right"
      tokens == [NoOut EXCEPT !.class = "tokens", !.status = 200,
                              !.at = NewAT(a.caller, a.caller, Range(a.scopes), {a.caller}), !.scope = a.scopes] IN
  IF ~cfg.cc THEN TokErr("unsupported_grant_type")
  ELSE IF ~secretOK THEN TokErr("invalid_client")
  ELSE IF "cc" \notin Grants(a.caller) THEN TokErr("unauthorized_client")
  ELSE tokens

DecideJWTBearer(a) ==
  IF a.iss \in Clients /\ Reg[a.iss].auth = "pkjwt" /\ a.key = "own"
  THEN LET sc == Range(a.scopes) \cap {"openid", "api"} IN
       [NoOut EXCEPT !.class = "tokens", !.status = 200,
                     !.at = [NoTok EXCEPT !.name = N("a", cnt.a + 1), !.kind = "opaque", !.client = a.iss, !.sub = a.iss,
                                          !.scopes = SetToSeq(sc), !.aud = <<IssuerURL>>, !.sealed = "ok"],
                     !.scope = SetToSeq(sc)]
  ELSE IF cfg.router = "P" THEN TokErr("server_error") ELSE Err(400, "invalid_request")

DecideTokenExchange(a) ==
  LET authP == a.cred.kind = "basic" /\ SecretOK(a.caller, a.cred)
      authL == TokenClientAuth(a.caller, a.cred)
      granted == a.caller \in Clients /\ "te" \in Grants(a.caller)
      eff == IF a.requested = "" THEN cfg.policy.defType ELSE a.requested
      hasActor == a.actor.kind # "none"
      \* "absent": the token is sent without its *_token_type parameter. A subject token without type is an unsupported type;
      \* an actor token without type passes the type check and then fails verification (no verifier for the empty type)
      typesOK == a.subj.declared \notin {"unknown", "absent"} /\ a.requested # "unknown" /\ (hasActor => a.actor.declared # "unknown")
      sub == IF cfg.policy.imp # "" THEN cfg.policy.imp ELSE SubOfRef(a.subj)
      sc == Range(a.scopes) \ {cfg.policy.drop}
      body ==
        IF ~LiveRef(a.subj) THEN TokErr("invalid_request")
        ELSE IF hasActor /\ ~LiveRef(a.actor) THEN TokErr("invalid_request")
        ELSE IF cfg.policy.deny THEN TokErr("access_denied")
        ELSE IF eff \in {"access", "refresh"}
             THEN [NoOut EXCEPT !.class = "tokens", !.status = 200, !.issuedType = eff,
                                !.at = NewAT(a.caller, sub, sc, {}),
                                !.rt = IF eff = "refresh" THEN NewRT(a.caller, sub, sc, {}, "t", "new") ELSE NoRt,
                                !.scope = SetToSeq(sc), !.actor = IF hasActor THEN SubOfRef(a.actor) ELSE "none"]
        ELSE IF eff = "id"
             THEN [NoOut EXCEPT !.class = "tokens", !.status = 200, !.issuedType = eff,
                                !.idt = NewIDT(a.caller, sub, ""), !.scope = SetToSeq(sc),
                                !.actor = IF hasActor THEN SubOfRef(a.actor) ELSE "none"]
        ELSE TokErr("invalid_request") IN
  IF cfg.router = "P" THEN
    IF ~cfg.te THEN TokErr("unsupported_grant_type")
    ELSE IF ~authP THEN TokErr("invalid_client")
    ELSE IF ~granted THEN TokErr("unauthorized_client")
    ELSE IF ~typesOK THEN TokErr("invalid_request")
    ELSE body
  ELSE
    IF authL = "assertion_failed" THEN TokErr("server_error")
    ELSE IF authL # "ok" THEN TokErr(authL)
    ELSE IF ~granted THEN TokErr("unauthorized_client")
    ELSE IF ~typesOK THEN TokErr("invalid_request")
    ELSE IF ~cfg.te THEN TokErr("unsupported_grant_type")
    ELSE body

-----------------------------------------------------------------------------
Decide(op, a) ==
  CASE op = "Authorize"    -> DecideAuthorize(a)
    [] op = "Callback"     -> DecideCallback(a)
    [] op = "CodeExchange" -> DecideCodeExchange(a)
    [] op = "Refresh"      -> DecideRefresh(a)
    [] op = "UserInfo"     -> DecideUserInfo(a)
    [] op = "Introspect"   -> DecideIntrospect(a)
    [] op = "Revoke"       -> DecideRevoke(a)
    [] op = "DeviceAuthorize" -> DecideDeviceAuthorize(a)
    [] op = "Poll"         -> DecidePoll(a)
    [] op = "EndSession"   -> DecideEndSession(a)
    [] op = "ClientCreds"  -> DecideClientCreds(a)
    [] op = "JWTBearer"    -> DecideJWTBearer(a)
    [] op = "TokenExchange" -> DecideTokenExchange(a)
    [] op = "Login"        -> [NoOut EXCEPT !.class = IF Usable(a.req) THEN "ok" ELSE "noop", !.auth = "t"]
    [] op \in {"Approve", "Deny", "ExpireDevice"} -> [NoOut EXCEPT !.class = IF Has(devs, a.dc) THEN "ok" ELSE "noop"]
    [] OTHER               -> [NoOut EXCEPT !.class = "ok"]

-----------------------------------------------------------------------------
(* Argument domains.                                                         *)

\* scope lists are sequences as sent: a value may be repeated ("openid openid offline_access" is legal and stored verbatim); what is
\* granted is the SET of values
ScopeSeqs == {<<"openid">>, <<"openid", "offline_access">>, <<"openid", "email", "offline_access">>, <<"openid", "openid", "offline_access">>,
              \* plain OAuth 2.0 requests: no "openid" among the scopes
              <<"email", "offline_access">>, <<"profile">>}
Challs == {"none", "plain:v1", "s256:v1"}
Verifiers == {"none", "v1", "v2"}

Deviations(right, dims) ==       \* right: record; dims: field |-> set of alternative values
  {right} \cup UNION {{[right EXCEPT ![f] = v] : v \in dims[f]} : f \in DOMAIN dims}

AuthorizeArgs ==
  LET right(c) == [client |-> c, uri |-> CHOOSE u \in Reg[c].uris : TRUE, rtype |-> CHOOSE t \in Reg[c].rtypes : TRUE,
                   rmode |-> "", scopes |-> <<"openid", "offline_access">>, chall |-> "none", state |-> "st1", nonce |-> "n1"]
      cs == {c \in Clients : Reg[c].uris # {}} IN
  IF Narrow
  THEN UNION {Deviations(right(c), [client |-> {"cz", ""}, uri |-> URIs \cup {""}, rtype |-> {"code", "id_token", "id_token token", ""},
                                    rmode |-> {"query", "fragment", "form_post"}, scopes |-> ScopeSeqs \cup {<<>>},
                                    chall |-> Challs, nonce |-> {""}]) : c \in cs}
  ELSE [client : {"cw", "cx", "cp", "cz"}, uri : {"ucw", "ucx", "ucp", "evil", ""}, rtype : {"code", "id_token token"},
        rmode : {"", "form_post"}, scopes : {<<"openid", "offline_access">>, <<>>}, chall : {"none", "s256:v1"},
        state : {"st1"}, nonce : {"n1"}]

VerifierFor(ch) == IF ch = "none" THEN "none" ELSE IF ch \in {"plain:v1", "s256:v1"} THEN "v1" ELSE "v2"

CodeExchangeArgs ==
  LET ks == DOMAIN codes \cup {"k0"}
      right(k) == IF Has(codes, k) /\ Has(reqs, codes[k])
                  THEN LET r == reqs[codes[k]] IN
                       [caller |-> r.client, cred |-> RightCred(r.client), code |-> k, uri |-> r.uri, verifier |-> VerifierFor(r.chall)]
                  ELSE [caller |-> "cw", cred |-> RightCred("cw"), code |-> k, uri |-> "ucw", verifier |-> "none"] IN
  IF Narrow
  THEN UNION {Deviations(right(k), [caller |-> Callers, cred |-> Creds, uri |-> {"ucw", "ucw2", "ucx", "evil", "ucnEvil", ""}, verifier |-> Verifiers]) : k \in ks}
  ELSE [caller : {"cw", "cx", "cp", "cz"}, cred : Creds, code : ks, uri : {"ucw", "ucx", "ucp"}, verifier : {"none", "v1"}]

RefreshArgs ==
  LET fs == DOMAIN rts \cup {"f0"}
      right(f) == IF Has(rts, f) THEN [caller |-> rts[f].client, cred |-> RightCred(rts[f].client), rt |-> f, scopes |-> <<>>]
                  ELSE [caller |-> "cw", cred |-> RightCred("cw"), rt |-> f, scopes |-> <<>>]
      scs == {<<>>, <<"openid">>, <<"openid", "phone">>, <<"phone">>, <<"openid", "offline_access">>, <<"offline_access">>, <<"email", "offline_access">>} IN
  IF Narrow THEN UNION {Deviations(right(f), [caller |-> Callers, cred |-> Creds, scopes |-> scs]) : f \in fs}
  ELSE [caller : {"cw", "cx", "cp", "cz"}, cred : Creds, rt : fs, scopes : {<<>>, <<"openid">>, <<"openid", "phone">>}]

TokArgs == LET ids == DOMAIN toks \cup {"a0"} IN
  IF Narrow THEN [form : TokForms, id : ids] ELSE [form : {"issued", "flipBody", "garbage"}, id : ids]

CallerCreds == IF Narrow THEN {<<c, RightCred(c)>> : c \in Callers} \cup {<<"cw", cr>> : cr \in Creds} \cup {<<"cx", cr>> : cr \in Creds}
                           \cup {<<"cj", cr>> : cr \in Creds} \cup {<<"cp", cr>> : cr \in Creds} \cup {<<"cn", cr>> : cr \in Creds}
               ELSE {"cw", "cx", "cp", "cz"} \X Creds

IntrospectArgs == {[caller |-> cc[1], cred |-> cc[2], tok |-> t] : cc \in CallerCreds, t \in TokArgs}
RevokeArgs ==
  {[caller |-> cc[1], cred |-> cc[2], kind |-> "at", tok |-> t, hint |-> h] : cc \in CallerCreds, t \in TokArgs, h \in {"none", "access_token"}}
  \cup {[caller |-> cc[1], cred |-> cc[2], kind |-> "rt", tok |-> [form |-> "issued", id |-> f], hint |-> h] :
          cc \in CallerCreds, f \in DOMAIN rts \cup {"f0"}, h \in {"none", "refresh_token", "access_token"}}

DeviceAuthorizeArgs == {[caller |-> cc[1], cred |-> cc[2], scopes |-> s] : cc \in CallerCreds, s \in {<<"openid">>, <<"openid", "offline_access">>}}
PollArgs == {[caller |-> cc[1], cred |-> cc[2], dc |-> d, slow |-> s] : cc \in CallerCreds, d \in DOMAIN devs \cup {"d0"}, s \in BOOLEAN}

EndSessionArgs ==
  LET hints == {[kind |-> "none", id |-> "none"]} \cup [kind : {"valid", "expired", "multiaud", "futureiat", "noiat", "wrongkey", "wrongiss", "algnone"}, id : DOMAIN idts] IN
  [hint : hints, client : {"", "cw", "cx", "cn", "cz"}, uri : {"", "plcw", "plcx", "evil", "plcwG", "ucwG", "plcxNear", "plcn", "plcnEvil"}, state : {"", "ls1"}, host : IF cfg.dyn THEN {"A", "B"} ELSE {"A"}]

RefArgs ==
  LET none == [kind |-> "none", form |-> "none", id |-> "none", declared |-> "none"]
      ats == {[kind |-> "access", form |-> f, id |-> t, declared |-> d] : f \in (IF Narrow THEN TokForms ELSE {"issued", "flipBody"}),
                                                                          t \in DOMAIN toks \cup {"a0"}, d \in {"access"}}
             \cup {[kind |-> "access", form |-> "issued", id |-> t, declared |-> d] : t \in DOMAIN toks, d \in {"refresh", "id", "jwt", "unknown", "absent"}}
             \cup {[kind |-> "access", form |-> "garbage", id |-> "a0", declared |-> "absent"]}
      fs  == {[kind |-> "refresh", form |-> "issued", id |-> f, declared |-> d] : f \in DOMAIN rts \cup {"f0"}, d \in {"refresh", "access"}}
      is  == {[kind |-> "id", form |-> f, id |-> i, declared |-> "id"] : f \in {"valid", "expired", "wrongkey", "wrongiss", "algnone"}, i \in DOMAIN idts} IN
  [none |-> none, refs |-> ats \cup fs \cup is]

TokenExchangeArgs ==
  LET R == RefArgs
      reqs_ == {"", "access", "refresh", "id", "jwt", "unknown"}
      scs == {<<"openid">>, <<"openid", "email">>, <<>>, <<"email">>}
      right(sr) == [caller |-> "cw", cred |-> RightCred("cw"), subj |-> sr, actor |-> R.none, requested |-> "access", scopes |-> <<"openid", "email">>] IN
  IF Narrow
  THEN LET good == {r \in R.refs : LiveRef(r)}
           sr == IF good = {} THEN [kind |-> "access", form |-> "garbage", id |-> "a0", declared |-> "access"] ELSE CHOOSE r \in good : TRUE IN
       Deviations(right(sr), [caller |-> Callers, cred |-> Creds, subj |-> R.refs, actor |-> R.refs, requested |-> reqs_, scopes |-> scs])
            \cup Deviations([right(sr) EXCEPT !.requested = "id"], [actor |-> good, subj |-> good])
            \cup Deviations([right(sr) EXCEPT !.requested = "refresh"], [actor |-> good, subj |-> good])
            \cup Deviations([right(sr) EXCEPT !.requested = ""], [actor |-> good, subj |-> good])
  ELSE [caller : {"cw", "cx", "cz"}, cred : {RightCred("cw"), [kind |-> "basic", secret |-> "wrong", key |-> "none", alias |-> ""]},
        subj : {r \in R.refs : r.form \in {"issued", "valid", "expired", "flipBody"}},
        actor : {R.none} \cup {r \in R.refs : r.form \in {"issued", "valid"} /\ r.declared = r.kind /\ r.id \notin {"a0", "f0"}},
        requested : {"", "access", "refresh", "id", "jwt"}, scopes : {<<"openid", "email">>, <<"email">>}]

ClientCredsArgs == {[caller |-> cc[1], cred |-> cc[2], scopes |-> s] : cc \in CallerCreds \cup ({"cs"} \X Creds), s \in {<<"api">>, <<>>}}
JWTBearerArgs == [iss : Callers, key : {"own", "foreign"}, scopes : {<<"openid">>, <<"openid", "email", "api">>}]

-----------------------------------------------------------------------------
Bump(o) ==
  cnt' = [cnt EXCEPT !.r = IF o.class = "login" THEN @ + 1 ELSE @,
                     !.k = IF o.code # "none" THEN @ + 1 ELSE @,
                     !.a = IF o.at.name # "none" THEN @ + 1 ELSE @,
                     !.f = IF o.rt.name # "none" THEN @ + 1 ELSE @,
                     !.i = IF o.idt.name # "none" THEN @ + 1 ELSE @,
                     !.d = IF o.dc # "none" THEN @ + 1 ELSE @,
                     !.n = @ + 1]

\* CreateIDToken: at_hash whenever an access token is created alongside, c_hash when a code is redeemed
Bind(op, o) ==
  IF o.class = "tokens" /\ o.idt.name # "none" /\ o.at.name # "none"
  THEN [o EXCEPT !.idt.athash = "ok", !.idt.chash = IF op = "CodeExchange" THEN "ok" ELSE "absent"]
  ELSE o

Event(op, a) == [op |-> op, args |-> a, out |-> Bind(op, Decide(op, a))]

Do(e) ==
  /\ Apply(e)
  /\ ApplyGone(e)
  /\ viol' = viol \cup {<<r, e.op>> : r \in Check(e)}
  /\ Bump(e.out)
  /\ UNCHANGED cfg

StepsOf(op) ==   \* the events of operation op enabled in the current state
  CASE op = "Authorize" -> IF cnt.r < MaxReq THEN {Event(op, a) : a \in AuthorizeArgs} ELSE {}
    [] op = "Login" -> {Event(op, [req |-> r, user |-> u]) : r \in {x \in DOMAIN reqs : ~reqs[x].done}, u \in Users}
    [] op = "Callback" -> IF cnt.k < MaxCode /\ cnt.a < MaxAT THEN {Event(op, [req |-> r]) : r \in DOMAIN reqs \cup {"r0"}} ELSE {}
    [] op = "CodeExchange" -> IF cnt.a < MaxAT THEN {Event(op, a) : a \in CodeExchangeArgs} ELSE {}
    [] op = "Refresh" -> IF cnt.a < MaxAT THEN {Event(op, a) : a \in RefreshArgs} ELSE {}
    [] op = "UserInfo" -> {Event(op, [tok |-> t]) : t \in TokArgs}
    [] op = "Introspect" -> {Event(op, a) : a \in IntrospectArgs}
    [] op = "Revoke" -> {Event(op, a) : a \in RevokeArgs}
    [] op = "Expire" -> {Event(op, [id |-> t]) : t \in {x \in DOMAIN toks : ~toks[x].dead}}
    [] op = "EndSession" -> {Event(op, a) : a \in EndSessionArgs}
    [] op = "DeviceAuthorize" -> IF cnt.d < MaxDev THEN {Event(op, a) : a \in DeviceAuthorizeArgs} ELSE {}
    [] op = "Approve" -> {Event(op, [dc |-> d, user |-> u]) : d \in {x \in DOMAIN devs : devs[x].status = "pending"}, u \in Users}
    [] op = "Deny" -> {Event(op, [dc |-> d, user |-> "u1"]) : d \in {x \in DOMAIN devs : devs[x].status = "pending"}}
    [] op = "ExpireDevice" -> {Event(op, [dc |-> d, user |-> "u1"]) : d \in {x \in DOMAIN devs : ~devs[x].expired}}
    [] op = "Poll" -> IF cnt.a < MaxAT THEN {Event(op, a) : a \in PollArgs} ELSE {}
    [] op = "ClientCreds" -> IF cnt.a < MaxAT THEN {Event(op, a) : a \in ClientCredsArgs} ELSE {}
    [] op = "JWTBearer" -> IF cnt.a < MaxAT THEN {Event(op, a) : a \in JWTBearerArgs} ELSE {}
    [] op = "TokenExchange" -> IF cnt.a < MaxAT /\ cnt.i < MaxAT THEN {Event(op, a) : a \in TokenExchangeArgs} ELSE {}
    \* at most one withdrawal per history: the refresh grant of a client that holds a live refresh token
    [] op = "Withdraw" -> IF gone = {} THEN {Event(op, [client |-> c, grant |-> "refresh"]) : c \in {rts[f].client : f \in {x \in DOMAIN rts : rts[x].live}}} ELSE {}
    [] OTHER -> {}

Steps == UNION {StepsOf(op) : op \in Ops}

SeedToks == ("a1" :> [client |-> "cw", sub |-> "u1", scopes |-> {"openid", "email", "offline_access"}, aud |-> {"cw"}, kind |-> "opaque", dead |-> FALSE])
         @@ ("a2" :> [client |-> "cx", sub |-> "u2@idp.example", scopes |-> {"openid"}, aud |-> {"cx"}, kind |-> "jwt", dead |-> FALSE])
SeedRts  == ("f1" :> [client |-> "cw", sub |-> "u1", scopes |-> {"openid", "email", "offline_access"}, aud |-> {"cw"}, auth |-> "t", root |-> "f1", live |-> TRUE])
SeedIdts == ("i1" :> [client |-> "cw", sub |-> "u1", dead |-> FALSE]) @@ ("i2" :> [client |-> "cx", sub |-> "u2@idp.example", dead |-> FALSE])

Init ==
  /\ IF Seeded
     THEN /\ reqs = ("r1" :> [client |-> "cw", uri |-> "ucw", rtype |-> "code", rmode |-> "", scopes |-> {"openid", "offline_access"},
                              state |-> "st1", nonce |-> "n1", chall |-> "none", done |-> TRUE, sub |-> "u1", used |-> FALSE, auth |-> "t"])
          /\ codes = ("k1" :> "r1") /\ redeemed = {} /\ viol = {}
          /\ devs = ("d1" :> [client |-> "cx", scopes |-> {"openid"}, uc |-> "uc-d1", status |-> "done", sub |-> "u1", expired |-> FALSE])
                  @@ ("d2" :> [client |-> "cp", scopes |-> {"openid"}, uc |-> "uc-d2", status |-> "pending", sub |-> "none", expired |-> FALSE])
          /\ toks = SeedToks /\ rts = SeedRts /\ idts = SeedIdts /\ gone = {}
          /\ cnt = [r |-> 1, k |-> 1, a |-> 2, f |-> 1, i |-> 2, d |-> 2, n |-> 0]
     ELSE Init0
  /\ cfg \in [router : Routers,
              post : IF "post" \in Vary THEN BOOLEAN ELSE {TRUE}, pkjwt : {TRUE},
              refresh : IF "refresh" \in Vary THEN BOOLEAN ELSE {TRUE},
              cc : IF "caps" \in Vary THEN BOOLEAN ELSE {TRUE},
              te : IF "caps" \in Vary THEN BOOLEAN ELSE {TRUE},
              dev : IF "caps" \in Vary THEN BOOLEAN ELSE {TRUE},
              dyn : IF "dyn" \in Vary THEN BOOLEAN ELSE {FALSE},
              policy : IF "policy" \in Vary
                       THEN [deny : BOOLEAN, defType : {"", "refresh"}, imp : {"", "u2@idp.example"}, drop : {"email"}]
                       ELSE {[deny |-> FALSE, defType |-> "", imp |-> "", drop |-> ""]}]

Next == cnt.n < MaxSteps /\ \E e \in Steps : Do(e)

Spec == Init /\ [][Next]_vars

NoViolation == viol = {}

\* observation-only parts of the state are hidden from the fingerprint in exhaustive runs
\* (the step counter is hidden too: BFS reaches every state first by a shortest history, so the MaxSteps guard stays exact)
View == <<cfg, reqs, codes, redeemed, toks, rts, idts, devs, gone, [cnt EXCEPT !.n = 0], viol>>
=============================================================================
