SPECIFICATION Spec
CONSTANT Tier = "quick"
INVARIANT NoViolation
INVARIANT NoSurprise
INVARIANT EmitCase
CHECK_DEADLOCK FALSE
