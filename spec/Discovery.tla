----------------------------- MODULE Discovery -----------------------------
(***************************************************************************)
(* C19: the discovery document is truthful about the provider in every      *)
(* configuration.                                                           *)
(* cfg = six provider options x three storage capabilities x issuer shape   *)
(* (host only / with a path component) x endpoint table (defaults / every   *)
(* endpoint moved to a custom relative path) x router.                      *)
(* Advertised(cfg) transcribes CreateDiscoveryConfig / createDiscoveryConfigV2,*)
(* Accepted(cfg, g) the grant dispatch of Exchange (P) and of               *)
(* webServer.tokensHandler + LegacyServer (L); the invariants say that the  *)
(* two agree.  The harness builds every configuration for real, fetches the *)
(* document, probes every advertised URL and every grant type, and issues a *)
(* token; the monitor judges the observations with the same rules.          *)
(* Two small tables complete the statement: issuer validation at            *)
(* construction and the issuer comparison of the discovery client.          *)
(***************************************************************************)
EXTENDS Naturals, Sequences, FiniteSets, TLC, FiniteSetsExt, Functions, SequencesExt

CONSTANT Tier

TokenGrants == {"authorization_code", "refresh_token", "client_credentials", "jwt-bearer", "token-exchange", "device_code"}
EndpointNames == {"authorization", "token", "introspection", "userinfo", "revocation", "end_session", "jwks", "device_authorization"}

Flags == [s256 : BOOLEAN, post : BOOLEAN, pkjwt : BOOLEAN, refresh : BOOLEAN, reqobj : BOOLEAN]
AllOn  == [s256 |-> TRUE, post |-> TRUE, pkjwt |-> TRUE, refresh |-> TRUE, reqobj |-> TRUE]
AllOff == [s256 |-> FALSE, post |-> FALSE, pkjwt |-> FALSE, refresh |-> FALSE, reqobj |-> FALSE]
Near(f) == {f} \cup UNION {{[f EXCEPT ![k] = ~f[k]]} : k \in DOMAIN f}
FlagSets == Flags   \* all 32 option sets (the run takes seconds)
Caps == [cc : BOOLEAN, te : BOOLEAN, dev : BOOLEAN]

\* endpoints: "default" | "custom" (every endpoint of the provider moved, the legacy server is given the provider's table) |
\* "legacyOwn" (router L: the provider keeps its defaults, the legacy server is constructed with its own moved table) |
\* "legacyNoDevice" (router L: the legacy server's own table has no device authorization endpoint)
ConfigCases == {[kind |-> "config", flags |-> f, caps |-> c, issuer |-> i, endpoints |-> e, router |-> r] :
                   f \in FlagSets, c \in Caps, i \in {"host", "path", "dynamicHost", "forwarded"}, e \in {"default", "custom"}, r \in {"P", "L"}}
               \cup {[kind |-> "config", flags |-> f, caps |-> c, issuer |-> i, endpoints |-> e, router |-> "L"] :
                   f \in Near(AllOn) \cup Near(AllOff), c \in Caps, i \in {"host", "path", "dynamicHost", "forwarded"}, e \in {"legacyOwn", "legacyNoDevice"}}
\* issuer strings: scheme x host x decoration, plus two degenerate strings; built by either constructor
IssuerCases == {[kind |-> "issuer", scheme |-> sc, host |-> h, deco |-> d, insecure |-> ins, via |-> v] :
                   sc \in {"https", "http", "ftp"}, h \in {"host", "localhost", "nohost"},
                   d \in {"none", "path", "slash", "query", "fragment", "pathQuery", "pathFragment"}, ins \in BOOLEAN, v \in {"NewProvider", "NewOpenIDProvider"}}
               \cup {[kind |-> "issuer", scheme |-> x, host |-> "nohost", deco |-> "none", insecure |-> ins, via |-> v] :
                   x \in {"empty", "garbage"}, ins \in BOOLEAN, v \in {"NewProvider", "NewOpenIDProvider"}}
\* doc: the issuer the document states, relative to the issuer asked for ("urlIssuer": the issuer the custom discovery URL belongs to,
\* i.e. that URL minus /.well-known/openid-configuration) ; url: where the document is fetched from - the default location, or a custom
\* discovery URL (variadic argument of client.Discover / rp.WithCustomDiscoveryUrl) on the same or on another host ;
\* via: the discovery client itself or the relying-party constructor built on it
DiscoverCases == {[kind |-> "discover", doc |-> d, url |-> u, via |-> v] :
                    d \in {"equal", "different", "trailingSlash", "empty", "otherScheme", "subpath", "urlIssuer"},
                    u \in {"default", "customSameHost", "customOtherHost"}, v \in {"client.Discover", "rp.NewRelyingPartyOIDC"}}

Groups == {"config", "issuer", "discover"}
CasesOf(g) == CASE g = "config" -> ConfigCases [] g = "issuer" -> IssuerCases [] OTHER -> DiscoverCases

-----------------------------------------------------------------------------
(* ---- the code ---- *)
Advertised(c) ==       \* GrantTypes(config), restricted to token-endpoint grants
  {"authorization_code", "jwt-bearer"}
  \cup (IF c.flags.refresh THEN {"refresh_token"} ELSE {})
  \cup (IF c.caps.cc THEN {"client_credentials"} ELSE {})
  \cup (IF c.caps.te THEN {"token-exchange"} ELSE {})
  \cup (IF c.caps.dev THEN {"device_code"} ELSE {})
Accepted(c) ==         \* grants the token endpoint does not answer with unsupported_grant_type
  {"authorization_code", "jwt-bearer"}
  \cup (IF c.flags.refresh THEN {"refresh_token"} ELSE {})
  \cup (IF c.caps.cc THEN {"client_credentials"} ELSE {})
  \cup (IF c.caps.te THEN {"token-exchange"} ELSE {})
  \cup (IF c.caps.dev THEN {"device_code"} ELSE {})

GoodConfig(c) == [issuerDoc |-> "same", issuerToken |-> "same", badEndpoints |-> <<>>, grantsAdv |-> SetToSeq(Advertised(c)), grantsAcc |-> SetToSeq(Accepted(c)),
                  s256Adv |-> c.flags.s256, s256OK |-> TRUE, plainOK |-> TRUE, reqobjAdv |-> c.flags.reqobj, reqobjOK |-> c.flags.reqobj, reqobjInnerOK |-> c.flags.reqobj, issuerImplicit |-> "same", pkceEnforced |-> TRUE, panic |-> FALSE]

IssuerAccepted(c) == /\ c.scheme = "https" \/ (c.scheme = "http" /\ c.insecure)
                     /\ c.host # "nohost"
                     /\ c.deco \in {"none", "path", "slash"}

Outcomes(c) ==
  CASE c.kind = "config"   -> {GoodConfig(c)}
    [] c.kind = "issuer"   -> {[accepted |-> IssuerAccepted(c)]}
    [] OTHER               -> {[accepted |-> c.doc = "equal"]}

(* ---- the property sentence ---- *)
RulesConfig(c, o) ==
  { <<"C19.issuer.document",  o.issuerDoc = "same">>,
    <<"C19.issuer.tokens",    o.issuerToken = "same">>,
    \* ... also in the ID token the implicit flow hands out at the authorize callback
    <<"C19.issuer.implicit",  o.issuerImplicit = "same">>,
    <<"C19.endpoints.served", o.badEndpoints = <<>>>>,
    <<"C19.grants.exact",     Range(o.grantsAdv) \cap TokenGrants = Range(o.grantsAcc)>>,
    <<"C19.pkce.honoured",    o.s256Adv => o.s256OK>>,
    \* an advertised PKCE method is honoured for every kind of client: a private_key_jwt client that sent an S256 challenge does not
    \* get tokens with another verifier (or none)
    <<"C19.pkce.enforced",    o.pkceEnforced>>,
    <<"C19.reqobj.honoured",  o.reqobjAdv => o.reqobjOK>>,
    \* ... also when a parameter (redirect_uri) travels inside the signed object only
    <<"C19.reqobj.inner",     o.reqobjAdv => o.reqobjInnerOK>>,
    <<"C09.nopanic", ~o.panic>> }
RulesIssuer(c, o) ==
  { <<"C19.issuer.rejected", (\/ c.scheme \notin {"https", "http"} \/ c.host = "nohost"                    \* empty, host-less, not a web origin
                              \/ c.deco \in {"query", "fragment", "pathQuery", "pathFragment"}          \* carries query or fragment
                              \/ (c.scheme = "http" /\ ~c.insecure)) => ~o.accepted>>,                   \* http without the insecure opt-in
    <<"C19.issuer.accepted", (c.scheme = "https" /\ c.host # "nohost" /\ c.deco \in {"none", "path"}) => o.accepted>> }
RulesDiscover(c, o) ==
  { <<"C19.discover.issuer", (c.doc # "equal") => ~o.accepted>>,
    <<"C19.discover.equal",  (c.doc = "equal") => o.accepted>> }
Rules(c, o) == CASE c.kind = "config" -> RulesConfig(c, o) [] c.kind = "issuer" -> RulesIssuer(c, o) [] OTHER -> RulesDiscover(c, o)
Check(c, o) == {x[1] : x \in {y \in Rules(c, o) : ~y[2]}}
Conforms(c, o) == IF c.kind = "config" THEN Range(o.grantsAdv) \cap TokenGrants = Advertised(c) /\ Range(o.grantsAcc) = Accepted(c) ELSE o.accepted = (CHOOSE x \in Outcomes(c) : TRUE).accepted
=============================================================================
