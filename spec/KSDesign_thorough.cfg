SPECIFICATION Spec
CONSTANTS
  Callers <- CallersAB
  TokOf <- RolesAll2
  MaxRot = 2
  MaxGen = 3
  Faults = TRUE
  Cancels = TRUE
INVARIANT NoViolation
INVARIANT AtMostOneInflight
INVARIANT InflightConsistent
INVARIANT RequestsBounded
PROPERTY CacheNeverShrinksToEmpty
CHECK_DEADLOCK FALSE
