------------------------------- MODULE KSMC -------------------------------
(* Model-checking configurations of KSDesign (constants that a .cfg file cannot spell). *)
EXTENDS KSDesign

CallersABC == {"A", "B", "C"}
CallersAB  == {"A", "B"}
\* quick: fixed roles (valid / rotated-or-unknown / wrong-key-or-kidless)
RolesQuick == [A |-> {"valid1"}, B |-> {"rot2", "unknown"}, C |-> {"wrong1", "kidless1"}]
\* thorough: every caller may present every token class
RolesAll == [c \in CallersABC |-> TokenNames]
RolesQuick2 == [A |-> {"valid1", "rot2", "wrong1"}, B |-> {"rot2", "unknown", "kidless1"}]
RolesAll2 == [c \in CallersAB |-> TokenNames]
=============================================================================
