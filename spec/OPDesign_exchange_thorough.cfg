SPECIFICATION Spec
CONSTANTS
  Routers = {"P", "L"}
  Ops = {"TokenExchange", "Expire"}
  MaxReq = 0
  MaxCode = 0
  MaxAT = 5
  MaxDev = 0
  MaxSteps = 99
  Seeded = TRUE
  Vary = {"policy"}
  Narrow = TRUE
INVARIANT NoViolation
VIEW View
CHECK_DEADLOCK FALSE
