------------------------------ MODULE OPMBT ------------------------------
(* Model-based test generation: behaviours of OPDesign with a history      *)
(* variable, printed as JSON for the Go replay.  Shaping happens inside     *)
(* Next (one uniformly chosen event per enabled operation), never by a     *)
(* CONSTRAINT, so every emitted behaviour is a behaviour of OPDesign.       *)
EXTENDS OPDesign, Json

CONSTANT Depth
VARIABLE hist

MInit == Init /\ hist = <<>>
MNext == cnt.n < MaxSteps /\ \E op \in Ops :
            /\ StepsOf(op) # {}
            \* bound variable, not LET: LET would re-evaluate RandomElement at every use of e
            /\ \E e \in {RandomElement(StepsOf(op))} : Do(e) /\ hist' = Append(hist, e)
MSpec == MInit /\ [][MNext]_<<vars, hist>>

Emit == Len(hist) < Depth \/ PrintT(<<"BEH", ToJson([cfg |-> cfg, steps |-> hist])>>)
=============================================================================
