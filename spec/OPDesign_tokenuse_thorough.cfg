SPECIFICATION Spec
CONSTANTS
  Routers = {"P", "L"}
  Ops = {"Authorize", "Login", "Callback", "CodeExchange", "UserInfo", "Introspect", "Revoke", "Expire", "EndSession"}
  MaxReq = 2
  MaxCode = 1
  MaxAT = 3
  MaxDev = 0
  MaxSteps = 99
  Seeded = FALSE
  Vary = {"post", "refresh"}
  Narrow = FALSE
INVARIANT NoViolation
VIEW View
CHECK_DEADLOCK FALSE
