SPECIFICATION Spec
CONSTANT Tier = "quick"
INVARIANT NoViolation
INVARIANT EmitCase
CHECK_DEADLOCK FALSE
