----------------------------- MODULE KSTrace -----------------------------
(* Monitor for traces recorded from the real rp.remoteKeySet (gate-replayed  *)
(* TLC schedules and free-running stress).  Every logged event is applied   *)
(* with KS!Apply; logged scalars (cache length, created flag, ok flag) are  *)
(* compared with the monitor's state by the KS!Check rules.                 *)
EXTENDS KS, Json, FiniteSetsExt, SequencesExt

VARIABLE l
Trace == ndJsonDeserialize("trace.ndjson")

TInit == KInit /\ l = 1

TStep ==
  /\ l <= Len(Trace)
  /\ LET e == Trace[l] IN
       IF e.op = "Reset"
       THEN /\ cache' = {} /\ inflight' = 0 /\ gens' = Empty /\ ngen' = 0 /\ calls' = Empty
            /\ server' = [ver |-> 1, mode |-> "ok"] /\ served' = {} /\ nreq' = 0
            /\ UNCHANGED viol
       ELSE /\ Apply(e)
            /\ viol' = viol \cup {<<l, r>> : r \in Check(e)}
  /\ l' = l + 1

TFinish ==
  /\ l = Len(Trace) + 1
  /\ ndJsonSerialize("viol.ndjson",
        <<[lines |-> Len(Trace), violations |-> Cardinality(viol)]>> \o
        SetToSeq({[line |-> v[1], rule |-> v[2]] : v \in viol}))
  /\ l' = l + 1
  /\ UNCHANGED kvars

TSpec == TInit /\ [][TStep \/ TFinish]_<<kvars, l>>
NoViolation == viol = {}
=============================================================================
