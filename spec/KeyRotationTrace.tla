--------------------------- MODULE KeyRotationTrace ---------------------------
(* Monitor: evaluates the rules of KeyRotation on the outcomes observed on the real code.  obs.ndjson holds one *)
(* line [id, c, o] per executed case (c echoed from cases.ndjson, o = projected observation).          *)
(* Every line is an initial state; failing rules are printed as VIOL lines (collected by tools).       *)
EXTENDS KeyRotation, Json, SequencesExt
VARIABLE l
Obs == ndJsonDeserialize("obs.ndjson")
Init == l \in 1..Len(Obs)
Next == UNCHANGED l
Spec == Init /\ [][Next]_l
Judge == LET bad == Check(Obs[l].c, Obs[l].o) IN
           /\ (bad = {} \/ PrintT(<<"VIOL", ToJson([line |-> l, id |-> Obs[l].id, rules |-> bad])>>))
           /\ (Conforms(Obs[l].c, Obs[l].o) \/ PrintT(<<"DIVERGE", ToJson([line |-> l, id |-> Obs[l].id])>>))
=============================================================================
