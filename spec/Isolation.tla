----------------------------- MODULE Isolation -----------------------------
(***************************************************************************)
(* C20: using or constructing one instance never changes package-level      *)
(* defaults, caller-supplied objects or other instances; shared instances   *)
(* are race-free.                                                           *)
(*                                                                          *)
(* Cells = the shared state the statement names.  Ops = constructors and    *)
(* calls of the library.  The library's promise is WriteSet(op) = {} on     *)
(* every cell (after construction an instance is read-only configuration).  *)
(* A sequential case is a program: a sequence of operations; the observation*)
(* lists the cells whose snapshot differs after the program.  A concurrent  *)
(* case is a multiset of operations run at the same time on shared          *)
(* instances under the Go race detector; the observation is the number of   *)
(* race reports.  TLA+ has no Go memory model: the race detector is the     *)
(* observer, the spec supplies the program set and the invariant.           *)
(***************************************************************************)
EXTENDS Naturals, Sequences, FiniteSets, TLC, FiniteSetsExt, Functions, SequencesExt

CONSTANT Tier

Cells == {"op.DefaultEndpoints", "op.DefaultSupportedClaims", "op.DefaultSupportedScopes", "httphelper.DefaultHTTPClient", "callerHTTPClient",
          "callerHTTPClient.followsRedirects", "defaultHTTPClient.followsRedirects", "providerA.discovery", "providerA.routes", "legacyA.routes",
          "rpA.endpoints", "storage.DeviceAuthorizationState",
          \* a caller-owned interceptor chain handed to several constructors, and the order in which a router built from it earlier runs them
          "callerInterceptorChain", "routerA2.interceptorOrder",
          \* two providers with their own storages and signing keys whose key ids coincide: each signs with its own key
          "providerA.tokenSignature", "providerB.tokenSignature",
          \* one provider serving two tenants (issuer from the request host): each tenant honours the ID tokens issued under its own issuer and no others
          "dynProvider.tenantA.ownHint", "dynProvider.tenantB.ownHint", "dynProvider.tenantB.foreignHint",
          \* one remote key set (rp.NewRemoteKeySet) shared by all verifications; its JWKS lists a key with a key id and, after it, a key without:
          \* what it has cached keeps serving a token of the first key while the JWKS endpoint is down
          "sharedKeySet.servesFromCache",
          \* the exported package-level error values of pkg/op and pkg/oidc (sentinels handed to every caller)
          "packageLevelErrors",
          \* two providers configured with the same (deprecated, absolute) UserFormURL: the verification_uri of a device authorization
          \* response is that URL - without anything left over from an earlier response of either provider
          "userFormProviderB.verificationURI",
          \* a url.Values the caller hands to rp.ClientCredentials as endpointParams (and keeps using for other relying parties)
          "callerEndpointParams",
          \* a provider built earlier from an issuer function value (op.IssuerFromHost) that later constructions reuse: its issuer stays https
          "sharedIssuerFuncProvider.issuer"}
\* cells that have one right value at any time (o.unhealthy lists those that do not show it after the program)
Healthy == {"callerInterceptorChain", "routerA2.interceptorOrder", "providerA.tokenSignature", "providerB.tokenSignature",
            "dynProvider.tenantA.ownHint", "dynProvider.tenantB.ownHint", "dynProvider.tenantB.foreignHint", "sharedKeySet.servesFromCache", "userFormProviderB.verificationURI", "sharedIssuerFuncProvider.issuer"}

Ops == {"op.NewProvider", "op.NewProvider+WithCustomAuthEndpoint", "op.NewProvider+WithCustomTokenEndpoint", "op.NewProvider+WithCustomIntrospectionEndpoint",
        "op.NewProvider+WithCustomUserinfoEndpoint", "op.NewProvider+WithCustomRevocationEndpoint", "op.NewProvider+WithCustomEndSessionEndpoint",
        "op.NewProvider+WithCustomKeysEndpoint", "op.NewProvider+WithCustomDeviceAuthorizationEndpoint", "op.NewProvider+WithCustomEndpoints",
        "op.NewLegacyServer", "op.CreateRouter(callerChain)", "op.NewProvider+WithHttpInterceptors(callerChain)", "providerA.issueJWT", "providerB.issueJWT",
        "dynProvider.logout(tenantA)", "dynProvider.logout(tenantB)", "rp.AuthURLHandler.serve(pkce)", "provider.serveAll", "legacy.serveAll", "provider.devicePoll",
        "rp.NewRelyingPartyOIDC(caller)", "rp.NewRelyingPartyOIDC(default)", "rp.EndSession(caller)", "rp.EndSession(default)", "rp.RevokeToken(caller)",
        "rp.RevokeToken(default)", "rp.Userinfo(caller)", "rp.RefreshTokens(caller)", "rp.CodeExchange(caller)", "client.Discover(caller)", "client.Discover(default)",
        "rs.Introspect(caller)", "tokenexchange.ExchangeToken(caller)",
        \* verifications through the shared key set: a token of the first key, a stranger's token under an unknown key id, a token without key id
        "keySet.verify(good)", "keySet.verify(unknownKid)", "keySet.verify(noKid)",
        \* an implicit-flow callback at a provider whose signing key does not fit the algorithm it announces (the signer cannot be created)
        "brokenSignerProvider.implicitCallback",
        "userFormProviderA.deviceAuthorization", "userFormProviderB.deviceAuthorization", "rp.ClientCredentials(jwtProfileRP, callerParams)",
        "op.NewProvider(sharedIssuerFunc)+WithAllowInsecure", "op.NewProvider(sharedIssuerFunc)"}

\* what the library promises to write on shared cells
WriteSet(op) == {}

MaxLen == IF Tier = "quick" THEN 2 ELSE 3
Programs == UNION {[1..n -> Ops] : n \in 1..MaxLen}
SeqCases == {[kind |-> "seq", prog |-> p] : p \in Programs}
\* concurrent programs: every pair of operations (quick) / every multiset of three (thorough) at the same time, each repeated in a barrier-released loop
ConcCases == {[kind |-> "conc", prog |-> SetToSeq({a, b})] : a \in Ops, b \in Ops}

Groups == {"seq", "conc"}
CasesOf(g) == IF g = "seq" THEN SeqCases ELSE ConcCases

\* o = [changed : sequence of cells whose snapshot differs after the program, unhealthy : cells of Healthy that show a wrong value,
\*      races : number of race reports, panic]
Rules(c, o) ==
  { <<"C20.isolation", Range(o.changed) \subseteq UNION {WriteSet(op) : op \in Range(c.prog)}>>,
    <<"C20.instances", o.unhealthy = <<>>>>,
    <<"C20.racefree",  o.races = 0>>,
    <<"C09.nopanic",   ~o.panic>> }
Check(c, o) == {x[1] : x \in {y \in Rules(c, o) : ~y[2]}}
Outcomes(c) == {[changed |-> <<>>, unhealthy |-> <<>>, races |-> 0, panic |-> FALSE]}
Conforms(c, o) == TRUE
=============================================================================
