------------------------------- MODULE Handler -------------------------------
(***************************************************************************)
(* C09: malformed requests, tokens and provider responses yield an error    *)
(* response / a returned error - never a panic, never two responses, never  *)
(* grant logic after an error has been answered.                            *)
(*                                                                          *)
(* The state machine of one execution is tiny:                              *)
(*    Idle -> Started -> {StorageCall}* -> Responded(status) -> Idle        *)
(* (library calls: Started -> Returned(value | error)).  There is no        *)
(* transition for Panic, for a second Responded, or for a StorageCall after *)
(* Responded(status >= 400).  An observation o is the projection of one     *)
(* execution; Rules are the missing transitions.  The case set enumerates   *)
(* endpoint x method x malformation class (x grant type) on both routers,   *)
(* verifier x payload class, claims type x field x JSON form, and client    *)
(* helper x provider status x provider body; the harness concretises one    *)
(* (seeded) member per class.                                               *)
(***************************************************************************)
EXTENDS Naturals, Sequences, FiniteSets, TLC, FiniteSetsExt, Functions

CONSTANT Tier

Endpoints == {"authorize", "callback", "token", "introspect", "userinfo", "revoke", "end_session", "keys", "discovery", "device_authorization", "healthz", "ready", "unknown"}
Methods == {"GET", "POST", "PUT", "HEAD"}
Grants == {"", "authorization_code", "refresh_token", "client_credentials", "jwt-bearer", "token-exchange", "device_code", "unknown"}
\* malformation classes of an HTTP request
Mals == {"none", "badPercentBody", "badPercentQuery", "semicolonQuery", "dupParams", "oversizedParam", "wrongContentType", "emptyBody", "jsonBody",
         "basicBadBase64", "basicBadEscapeUser", "basicBadEscapePass", "basicNoColon", "basicEmpty", "basicUnknownClient",
         "bearerEmpty", "bearerNoSpace", "bearer1seg", "bearer2seg", "bearerNullPayload", "bearerArrayPayload", "bearerNumberPayload", "bearerStringPayload",
         "bearerTruncJSON", "bearerBadUTF8", "bearer4seg", "bearerBadB64", "bearerAudNonString", "bearerHugeExp",
         "assertionGarbage", "assertionNullPayload", "hintNullPayload", "hintGarbage", "requestObjectNullPayload", "requestObjectGarbage",
         "subjectTokenGarbage", "subjectTokenNullPayload", "actorTokenNullPayload", "codeGarbage", "deviceCodeGarbage", "tokenGarbage", "idUnknown", "nulByte", "nonUTF8Param"}
\* provider configuration: every optional feature on / every optional feature off (request objects, POST auth, private_key_jwt, refresh, S256, storage capabilities)
Flags == {"all", "minimal"}
HTTPCases ==
  {[kind |-> "http", ep |-> e, method |-> m, mal |-> x, grant |-> "", router |-> r, flags |-> f] : e \in Endpoints \ {"token"}, m \in Methods, x \in Mals, r \in {"P", "L"}, f \in Flags}
  \cup {[kind |-> "http", ep |-> "token", method |-> m, mal |-> x, grant |-> g, router |-> r, flags |-> f] : m \in {"POST", "GET"}, x \in Mals, g \in Grants, r \in {"P", "L"}, f \in Flags}

Verifiers == {"rp.VerifyIDToken", "rp.VerifyTokens", "op.VerifyAccessToken", "op.VerifyIDTokenHint", "op.VerifyJWTAssertion", "op.ParseRequestObject", "oidc.ParseToken"}
Payloads == {"null", "array", "number", "string", "true", "truncJSON", "badUTF8", "emptyObject", "audNonString", "audNumber", "expString", "expHuge", "expObject",
             "nestedActor50", "amrNumber", "localeNumber", "emailVerifiedObject", "scopeArray", "issNumber", "valid"}
Segs == {"0", "1", "2", "3", "4", "badB64", "emptyPayload"}
\* hdr: how the token header relates to the key set - "fits", or the header names an algorithm of another key family than the
\* (only) key of the set, e.g. ES256 while the set holds an RSA key (the signature bytes are garbage then)
Hdrs == {"esAlgRsaKey", "esAlgOkpKey", "rsAlgEcKey", "psAlgEcKey", "edAlgRsaKey", "edAlgEcKey", "es384AlgRsaKey"}
VerifyCases == {[kind |-> "verify", fn |-> f, payload |-> p, segs |-> "3", hdr |-> "fits"] : f \in Verifiers, p \in Payloads}
               \cup {[kind |-> "verify", fn |-> f, payload |-> "valid", segs |-> s, hdr |-> "fits"] : f \in Verifiers, s \in Segs}
               \cup {[kind |-> "verify", fn |-> f, payload |-> "valid", segs |-> "3", hdr |-> h] : f \in Verifiers, h \in Hdrs}

ClaimTypes == {"IDTokenClaims", "AccessTokenClaims", "LogoutTokenClaims", "UserInfo", "IntrospectionResponse", "JWTProfileAssertionClaims", "JWTTokenRequest",
               "ActorClaims", "TokenExchangeResponse", "AccessTokenResponse", "DiscoveryConfiguration", "DeviceAuthorizationResponse", "RequestObject", "AuthRequest", "Error"}
Fields == {"iss", "sub", "aud", "exp", "iat", "auth_time", "nonce", "amr", "act", "scope", "locale", "ui_locales", "email_verified", "address", "active",
           "expires_in", "updated_at", "prompt", "max_age", "claims_locales", "events", "client_id"}
JSONForms == {"null", "true", "one", "float", "huge", "negative", "string", "emptyArray", "mixedArray", "object", "nested50", "emptyString"}
DecodeCases == {[kind |-> "decode", t |-> t, field |-> f, form |-> x] : t \in ClaimTypes, f \in Fields, x \in JSONForms}
               \cup {[kind |-> "decode", t |-> t, field |-> "*document*", form |-> x] : t \in ClaimTypes, x \in JSONForms}

Helpers == {"client.Discover", "rp.NewRelyingPartyOIDC", "rp.CodeExchange", "rp.RefreshTokens", "rp.ClientCredentials", "rp.Userinfo", "rp.EndSession", "rp.RevokeToken",
            "rp.DeviceAuthorization", "rp.DeviceAccessToken", "rp.remoteKeySet", "rs.NewResourceServer", "rs.Introspect", "tokenexchange.ExchangeToken", "client.JWTProfileExchange"}
Statuses == {200, 204, 302, 400, 401, 500}
\* stall: the provider takes the request and does not answer (the caller's deadline, or a network time-out, ends it)
\* validPlus*: the document the helper expects, in which ONE optional member has another JSON type than the specification gives it
\* (id_token as number / object / array / boolean, refresh_token as number, expires_in as string, scope as number)
Bodies == {"empty", "null", "array", "number", "string", "emptyObject", "truncated", "wrongTyped", "errorDoc", "html", "valid", "stall",
           "validPlusIdTokenNumber", "validPlusIdTokenObject", "validPlusIdTokenArray", "validPlusIdTokenBool", "validPlusRefreshNumber",
           "validPlusExpiresString", "validPlusScopeNumber"}
ClientCases == {[kind |-> "client", helper |-> h, status |-> s, body |-> b] : h \in Helpers, s \in Statuses, b \in Bodies}

Groups == {"http", "verify", "decode", "client"}
CasesOf(g) == CASE g = "http" -> HTTPCases [] g = "verify" -> VerifyCases [] g = "decode" -> DecodeCases [] OTHER -> ClientCases

-----------------------------------------------------------------------------
\* o = [class, status, writes, after]
\*   http:   class "response" | "panic" | "silent" (handler returned without answering -> net/http sends 200 with an empty body; reported with status 200)
\*           writes = number of WriteHeader calls, after = storage calls made after the response was started
\*   others: class "value" | "error" | "panic"
Rules(c, o) ==
  { <<"C09.nopanic", o.class # "panic">>,
    <<"C09.oneResponse", (c.kind = "http") => o.writes <= 1>>,
    <<"C09.noWorkAfterError", (c.kind = "http" /\ o.class = "response" /\ o.status >= 400) => o.after = 0>>,
    \* a helper given an error status (or no document at all) must return an error, not a value
    <<"C09.client.errorStatus", (c.kind = "client" /\ c.status \in {400, 401, 500}) => o.class = "error">>,
    <<"C09.client.noDocument", (c.kind = "client" /\ c.status = 200 /\ c.body \in {"empty", "null", "truncated", "html"}
                                   /\ c.helper \notin {"rp.RevokeToken", "rp.EndSession"}) => o.class = "error">>,
    <<"C09.client.noAnswer", (c.kind = "client" /\ c.body = "stall") => o.class = "error">>,
    \* a verifier never accepts what is not a signed object with claims
    <<"C09.verify.rejects", (c.kind = "verify" /\ c.fn # "oidc.ParseToken" /\ (c.payload # "valid" \/ c.segs # "3" \/ c.hdr # "fits")) => o.class # "value">> }
Check(c, o) == {x[1] : x \in {y \in Rules(c, o) : ~y[2]}}

Outcomes(c) == IF c.kind = "http" THEN {[class |-> "response", status |-> 400, writes |-> 1, after |-> 0]}
               ELSE {[class |-> "error", status |-> 0, writes |-> 0, after |-> 0]}
Conforms(c, o) == TRUE
=============================================================================
