----------------------------- MODULE RPDesign -----------------------------
(* Design spec of the RP login handlers: the events of RP.tla with their outcome fixed by a transcription of        *)
(* AuthURLHandler / CodeExchangeHandler / CookieHandler.CheckQueryCookie.  TLC checks rviol = {} in every state.    *)
EXTENDS RP

CONSTANTS MaxAttempts, MaxSteps
VARIABLE steps
dvars == <<rvars, steps>>

N(n) == "t" \o ToString(n)
Attempts == {N(i) : i \in 1..nAtt}

DecideStart(a) ==
  [class |-> "redirect", att |-> N(nAtt + 1), client |-> TRUE, redirect |-> TRUE, scopes |-> TRUE, stateInURL |-> TRUE, stateCookie |-> TRUE,
   challenge |-> IF cfg.pkce THEN "s256ofCookieVerifier" ELSE "none"]

DecideCallback(a) ==
  LET st == Presented(a, "st")  pk == Presented(a, "pk")
      stateOK == Usable(st) /\ a.att = st /\ a.form = "exact"
      pkOK == ~cfg.pkce \/ Usable(pk) IN
  IF ~stateOK THEN [class |-> "unauthorized", tokenRequests |-> 0, verifier |-> "none", stateChecked |-> FALSE, verifierRead |-> FALSE, stateToApp |-> "none"]
  ELSE IF a.err THEN [class |-> "errorHandled", tokenRequests |-> 0, verifier |-> "none", stateChecked |-> TRUE, verifierRead |-> FALSE, stateToApp |-> a.att]
  ELSE IF ~pkOK THEN [class |-> "unauthorized", tokenRequests |-> 0, verifier |-> "none", stateChecked |-> TRUE, verifierRead |-> FALSE, stateToApp |-> "none"]
  ELSE [class |-> "exchanged", tokenRequests |-> 1, verifier |-> IF cfg.pkce THEN pk ELSE "none", stateChecked |-> TRUE, verifierRead |-> cfg.pkce, stateToApp |-> a.att]

Ev(op, a) == [op |-> op, args |-> a, out |-> IF op = "StartLogin" THEN DecideStart(a) ELSE DecideCallback(a)]
Do(e) == Apply(e) /\ rviol' = rviol \cup {<<r, e.op>> : r \in Check(e)} /\ steps' = steps + 1 /\ UNCHANGED cfg

StartLogin(b, q) == nAtt < MaxAttempts /\ Do(Ev("StartLogin", [b |-> b, q |-> q]))
Callback(b, att, form, tamper, err, m) == Do(Ev("Callback", [b |-> b, att |-> att, form |-> form, tamper |-> tamper, err |-> err, method |-> m]))

Cfgs == [pkce : BOOLEAN, via : {"oauth", "oidc"}, disc : {"s256", "none", "plainOnly"}]
Init == RInit0 /\ cfg \in Cfgs /\ steps = 0
Next == steps < MaxSteps /\ (\/ \E b \in Browsers, q \in LoginQueries : StartLogin(b, q)
                             \/ \E b \in Browsers, att \in Attempts \cup {"t0"}, f \in Forms, t \in Tampers, er \in BOOLEAN, m \in Methods : Callback(b, att, f, t, er, m))
Spec == Init /\ [][Next]_dvars
NoViolation == rviol = {}
View == <<cfg, jar, nAtt, rviol>>
=============================================================================
