SPECIFICATION Spec
CONSTANTS
  MaxAttempts = 5
  MaxSteps = 11
INVARIANT NoViolation
VIEW View
CHECK_DEADLOCK FALSE
