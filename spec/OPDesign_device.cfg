SPECIFICATION Spec
CONSTANTS
  Routers = {"P", "L"}
  Ops = {"DeviceAuthorize", "Approve", "Deny", "ExpireDevice", "Poll"}
  MaxReq = 0
  MaxCode = 0
  MaxAT = 2
  MaxDev = 2
  MaxSteps = 99
  Seeded = FALSE
  Vary = {"post", "refresh"}
  Narrow = FALSE
INVARIANT NoViolation
VIEW View
CHECK_DEADLOCK FALSE
