SPECIFICATION Spec
CONSTANTS
  Routers = {"P", "L"}
  Ops = {"DeviceAuthorize", "Approve", "Deny", "ExpireDevice", "Poll"}
  MaxReq = 0
  MaxCode = 0
  MaxAT = 2
  MaxDev = 2
  Narrow = FALSE
INVARIANT NoViolation
VIEW View
CHECK_DEADLOCK FALSE
