SPECIFICATION Spec
CONSTANTS
  Callers <- CallersABC
  TokOf <- RolesQuick
  MaxRot = 1
  MaxGen = 2
  Faults = TRUE
  Cancels = TRUE
INVARIANT NoViolation
INVARIANT AtMostOneInflight
INVARIANT InflightConsistent
INVARIANT RequestsBounded
PROPERTY CacheNeverShrinksToEmpty
CHECK_DEADLOCK FALSE
