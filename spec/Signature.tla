---------------------------- MODULE Signature ----------------------------
(***************************************************************************)
(* C02: a token is believed only if it carries exactly one signature, made  *)
(* with an allowed algorithm, that verifies under a key of the configured   *)
(* key set whose type fits the algorithm, whose declared use permits        *)
(* signatures and whose key id is consistent with the token header; the     *)
(* claims handed back are the payload that signature covers.                *)
(*                                                                          *)
(* A case is [ks, tok]: a published key set (sequence of <= 2 keys          *)
(* [type, kid, use]) and an abstract token [ser, alg, kid, by, edit,        *)
(* allowed].  FindKey transcribes oidc.FindMatchingKey / algToKeyType,      *)
(* Verdict transcribes oidc.ParseToken + oidc.CheckSignature.  The harness  *)
(* builds real keys and really signed (or forged) tokens and feeds them to  *)
(* rp.VerifyIDToken over rp.NewRemoteKeySet, op.VerifyAccessToken and       *)
(* op.VerifyIDTokenHint over op.OpenIDKeySet, and oidc.FindMatchingKey.     *)
(***************************************************************************)
EXTENDS Naturals, Sequences, FiniteSets, TLC, FiniteSetsExt, Functions

CONSTANT Tier

KTypes == IF Tier = "quick" THEN {"RSA", "EC"} ELSE {"RSA", "EC", "OKP"}
KUses  == IF Tier = "quick" THEN {"sig", "enc"} ELSE {"sig", "enc", ""}
KKids  == {"k1", "k2", ""}
Keys   == [type : KTypes, kid : KKids, use : KUses]
KeySets == {<<k>> : k \in Keys} \cup {<<a, b>> : a \in Keys, b \in Keys}

Algs == {"RS256", "PS256", "RS384", "ES256", "EdDSA", "HS256", "none"}
TypeOfAlg(alg) == CASE alg \in {"RS256", "PS256", "RS384"} -> "RSA" [] alg = "ES256" -> "EC" [] alg = "EdDSA" -> "OKP" [] OTHER -> "none"
AlgOfType(t) == CASE t = "RSA" -> "RS256" [] t = "EC" -> "ES256" [] OTHER -> "EdDSA"

AllowedLists == [default |-> {"RS256", "ES256", "PS256"}, eddsa |-> {"EdDSA"}, rs256 |-> {"RS256"}, es256eddsa |-> {"ES256", "EdDSA"},
                 all |-> {"RS256", "PS256", "RS384", "ES256", "EdDSA"}, hs |-> {"HS256", "RS256", "ES256"}]

TokDims == [
  ser     |-> {"compact", "twoseg", "emptysig", "fourseg", "flat", "smuggled", "smuggled2"},
  alg     |-> Algs,
  kid     |-> {"k1", "k2", "kx", ""},
  by      |-> {"key1", "key2", "foreign", "hmacpub", "nobody"},   \* who made the signature: key 1 / key 2 of the set, ...
  edit    |-> {"none", "reencoded", "otherclaims"},        \* what happened to the payload segment after signing
  allowed |-> DOMAIN AllowedLists ]

KName(i) == IF i = 1 THEN "key1" ELSE "key2"
\* the fitting token for key i of key set ks
Base(ks, i) == [ser |-> "compact", alg |-> AlgOfType(ks[i].type), kid |-> ks[i].kid, by |-> KName(i), edit |-> "none", allowed |-> "all"]

Dev1(S) == S \cup UNION {UNION {{[t EXCEPT ![f] = v] : v \in TokDims[f]} : f \in DOMAIN TokDims} : t \in S}

Groups == KeySets
CasesOf(ks) == {[ks |-> ks, tok |-> t] : t \in Dev1(Dev1({Base(ks, i) : i \in 1..Len(ks)}))}

-----------------------------------------------------------------------------
UseOK(k) == k.use \in {"sig", ""}
\* the signature is a genuine signature of key i over the signing input, made with the algorithm of the header
SignedByKey(c, i) == c.tok.by = KName(i) /\ i <= Len(c.ks) /\ TypeOfAlg(c.tok.alg) = c.ks[i].type

(* ---- the property sentence ---- *)
KidConsistent(k, t) == k.kid = "" \/ t.kid = "" \/ k.kid = t.kid
\* keys of the set that could have been meant by the header
CouldMatch(c) == {i \in 1..Len(c.ks) : UseOK(c.ks[i]) /\ c.ks[i].type = TypeOfAlg(c.tok.alg) /\ KidConsistent(c.ks[i], c.tok)}
ExactMatch(c) == {i \in CouldMatch(c) : c.tok.kid # "" /\ c.ks[i].kid = c.tok.kid}

MayAccept(c) ==
  /\ c.tok.ser = "compact"                                    \* exactly one signature, three segments, no JSON serialisation
  /\ c.tok.edit = "none"                                      \* the payload handed back is the payload that was signed
  /\ c.tok.alg \in AllowedLists[c.tok.allowed] /\ c.tok.alg \notin {"none", "HS256"}
  /\ \E i \in CouldMatch(c) : SignedByKey(c, i)
\* "when several keys could match a token without key ID the verifier reports ambiguity instead of guessing"
Ambiguous(c) == ExactMatch(c) = {} /\ Cardinality(CouldMatch(c)) > 1
MustAccept(c) ==
  /\ MayAccept(c)
  /\ \/ \E i \in ExactMatch(c) : ExactMatch(c) = {i} /\ SignedByKey(c, i)
     \/ ExactMatch(c) = {} /\ \E i \in CouldMatch(c) : CouldMatch(c) = {i} /\ SignedByKey(c, i)

(* ---- the code ---- *)
\* oidc.FindMatchingKey: index of the selected key, 0 = ErrKeyNone, 99 = ErrKeyMultiple
FindKey(ks, kid, alg) ==
  LET fits == {i \in 1..Len(ks) : UseOK(ks[i]) /\ ks[i].type = TypeOfAlg(alg)}
      exact == {i \in fits : ks[i].kid = kid /\ kid # ""}
      \* the loop returns the first exact match; before reaching it, keys without kid (or any key if the token has none) are collected
      loose == {i \in fits : ks[i].kid = "" \/ kid = ""} IN
  IF exact # {} THEN Min(exact)
  ELSE IF Cardinality(loose) = 1 THEN CHOOSE i \in loose : TRUE
  ELSE IF loose = {} THEN 0 ELSE 99

Verdict(c) ==
  LET t == c.tok  k == FindKey(c.ks, t.kid, t.alg) IN
  IF t.ser \in {"twoseg", "fourseg", "flat"} THEN "reject"              \* ParseToken: not exactly three segments
  ELSE IF t.alg \notin AllowedLists[t.allowed] THEN "reject"            \* jose.ParseSigned allow-list
  ELSE IF t.alg \in {"none", "HS256"} THEN "reject"                     \* no key type fits
  ELSE IF t.ser = "emptysig" THEN "reject"
  ELSE IF t.ser = "smuggled2" THEN "reject"                             \* more than one signature
  ELSE IF k \in {0, 99} THEN "reject"
  ELSE IF ~SignedByKey(c, k) THEN "reject"
  ELSE IF t.ser = "smuggled" THEN "reject"                              \* signed payload # parsed payload
  ELSE IF t.edit # "none" THEN "reject"
  ELSE "accept"

FindVerdict(c) == LET k == FindKey(c.ks, c.tok.kid, c.tok.alg) IN IF k = 0 THEN "none" ELSE IF k = 99 THEN "multiple" ELSE "found"

\* rpDisc: the relying party's own verifier, its allowed algorithms taken from the provider's discovery document
\* (rp.NewRelyingPartyOIDC with rp.WithSigningAlgsFromDiscovery; the document also lists OTHER algorithms for OTHER purposes)
\* hintExpired: the same token with an expiry in the past, as id_token_hint: an expired hint is still believed (the answer
\* IDTokenHintExpiredError carries the claims) - on exactly the same signature conditions
Entries == {"rp", "at", "hint", "rpDisc", "hintExpired"}
Outcomes(c) == {[e \in Entries |-> [v |-> Verdict(c), payloadOK |-> TRUE]] @@ [find |-> FindVerdict(c)]}

RulesEntry(e, c, o) ==
  { <<"C02.sound:" \o e,     (o.v = "accept") => MayAccept(c)>>,
    <<"C02.ambiguity:" \o e, Ambiguous(c) => o.v # "accept">>,
    <<"C02.complete:" \o e,  MustAccept(c) => o.v = "accept">>,
    <<"C02.payload:" \o e,   (o.v = "accept") => o.payloadOK>>,
    <<"C09.nopanic:" \o e,   o.v # "panic">> }
Rules(c, o) ==
  UNION {RulesEntry(e, c, o[e]) : e \in Entries}
  \cup { <<"C02.findkey.ambiguity", Ambiguous(c) => o.find # "found">>,
         <<"C02.findkey.use", (o.find = "found") => CouldMatch(c) # {}>> }
Check(c, o) == {r[1] : r \in {x \in Rules(c, o) : ~x[2]}}
Conforms(c, o) == (\A e \in Entries : o[e].v = Verdict(c)) /\ o.find = FindVerdict(c)
=============================================================================
