SPECIFICATION FairSpec
CONSTANTS
  Callers <- CallersAB
  TokOf <- RolesQuick2
  MaxRot = 1
  MaxGen = 2
  Faults = FALSE
  Cancels = FALSE
PROPERTY Terminates
CHECK_DEADLOCK FALSE
