------------------------------- MODULE Faults -------------------------------
(***************************************************************************)
(* C10: storage failures fail closed.                                       *)
(* A case is [flow, router, k, fkind]: while the request that completes     *)
(* `flow` is served, the k-th call into the storage fails (plain error or   *)
(* context.DeadlineExceeded).  Every flow is prepared by real operations    *)
(* (a completed login, an issued code / refresh token / approved device     *)
(* code ...), so the faulted request is otherwise fitting and would succeed.*)
(* Observed: was a storage call really failed (k <= number of calls), the   *)
(* class of the answer, and whether any secret left the provider.           *)
(***************************************************************************)
EXTENDS Naturals, Sequences, FiniteSets, TLC, FiniteSetsExt, Functions

CONSTANT Tier

Flows == {"authorize", "authorizeHint", "authorizeUnregistered", "callbackCode", "callbackImplicit", "callbackIDToken", "callbackFormPost", "codeExchange", "codeExchangeJWT", "codeExchangePKJWT",
          "refresh", "refreshJWT", "clientCreds", "jwtBearer", "exchangeAccess", "exchangeJWT", "exchangeRefresh", "exchangeID", "exchangeActor",
          "deviceAuthorize", "pollApproved", "pollPending", "userinfoOpaque", "userinfoJWT", "introspectOpaque", "introspectJWT",
          "revokeOpaque", "revokeJWT", "revokeRefresh", "endSession", "endSessionNoHint"}
MaxK == IF Tier = "quick" THEN 12 ELSE 16
Kinds == {"error", "deadline", "canceled", "oidc", "dupcode", "typednil"}   \* canceled: the error wraps context.Canceled while the request itself is alive
\*   \* typednil: look-ups answer `return obj, err` with a nil pointer inside the interface

Groups == Flows
CasesOf(f) == {[flow |-> f, router |-> r, k |-> k, fkind |-> fk] : r \in {"P", "L"}, k \in 1..MaxK, fk \in Kinds}

\* answers that count as "an error" for the flow: an OAuth error document / error page (status >= 400),
\* an error redirect to the already validated redirect URI, an inactive introspection
IsAuthFlow(f) == f \in {"authorize", "authorizeHint", "authorizeUnregistered", "callbackCode", "callbackImplicit", "callbackIDToken", "callbackFormPost"}
ErrorAnswer(c, o) ==
  \/ o.class \in {"json", "page"} /\ o.status >= 400
  \/ o.class = "redirErr" /\ IsAuthFlow(c.flow) /\ o.sameTarget
  \/ o.class = "inactive" /\ c.flow \in {"introspectOpaque", "introspectJWT"}
  \* a device poll whose state lookup times out is told to slow down (an OAuth error document)
NoSecrets(o) == ~o.code /\ ~o.tokens /\ ~o.claims /\ ~o.active /\ ~o.device

Rules(c, o) ==
  { <<"C10.failclosed.error",     o.faulted => ErrorAnswer(c, o)>>,
    <<"C10.failclosed.nosecrets", o.faulted => NoSecrets(o)>>,
    <<"C09.nopanic",      o.class # "panic">>,
    <<"C09.oneResponse",  o.class # "double">> }
Check(c, o) == {x[1] : x \in {y \in Rules(c, o) : ~y[2]}}

\* design: either the k-th call exists (then an error answer without secrets) or the flow has fewer calls and completes
Faulted == [faulted |-> TRUE, class |-> "json", status |-> 500, sameTarget |-> FALSE, code |-> FALSE, tokens |-> FALSE, claims |-> FALSE, active |-> FALSE, device |-> FALSE]
Clean   == [faulted |-> FALSE, class |-> "ok", status |-> 200, sameTarget |-> FALSE, code |-> FALSE, tokens |-> FALSE, claims |-> FALSE, active |-> FALSE, device |-> FALSE]
Outcomes(c) == {Faulted, Clean}
\* the fault-free run of every flow must succeed (otherwise the sweep would be vacuous): judged by the harness (class "prepfail")
Conforms(c, o) == o.class # "prepfail"
=============================================================================
