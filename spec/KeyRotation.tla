----------------------------- MODULE KeyRotation -----------------------------
(***************************************************************************)
(* C02 ("verifies under a key of the configured key set ... selected from   *)
(* a PUBLISHED key set") over the life of ONE key-set instance: the         *)
(* provider rotates, adds and withdraws keys while a long-lived verifier    *)
(* keeps verifying.  A case is a program: the initially published set and   *)
(* a sequence of steps  publish(S) | verify(by, kid).  Keys A, B (EC,       *)
(* kid = name) are the provider's, X is never published.                    *)
(*                                                                          *)
(* Entry rp: rp.VerifyIDToken over one rp.NewRemoteKeySet for the whole     *)
(* program (cache + refresh, transcribed in VerifyRP below); the fake JWKS  *)
(* endpoint counts downloads.  Entry op: op.VerifyAccessToken over one      *)
(* op.OpenIDKeySet whose storage returns the currently published keys.      *)
(* The rules speak about what was published when the verifier last looked:  *)
(* a key withdrawn before the last download must not be believed.           *)
(***************************************************************************)
EXTENDS Naturals, Sequences, FiniteSets, TLC, FiniteSetsExt, Functions, SequencesExt

CONSTANT Tier

PubSets == {<<>>, <<"A">>, <<"B">>, <<"A", "B">>}
Signers == {"A", "B", "X"}
KidForms == {"own", "none", "other"}
Publish(S)     == [op |-> "publish", set |-> S, by |-> "", kid |-> ""]
Verify(by, kf) == [op |-> "verify", set |-> <<>>, by |-> by, kid |-> kf]
Steps(kf) == {Publish(S) : S \in PubSets} \cup {Verify(b, k) : b \in Signers, k \in kf}
VSteps(kf) == {s \in Steps(kf) : s.op = "verify"}

\* programs end with a verification (a trailing publish is never observed)
Progs(n, kf) == LET A == Steps(kf)  V == VSteps(kf) IN
  CASE n = 1 -> {<<v>> : v \in V}
    [] n = 2 -> {<<a, v>> : a \in A, v \in V}
    [] n = 3 -> {<<a, b, v>> : a \in A, b \in A, v \in V}
    [] n = 4 -> {<<a, b, d, v>> : a \in A, b \in A, d \in A, v \in V}
    [] OTHER -> {<<a, b, d, e, v>> : a \in A, b \in A, d \in A, e \in A, v \in V}

\* quick: every program of <= 3 steps, and those of 4 steps without mismatching key ids;
\* thorough: every program of <= 4 steps, and those of 5 steps without mismatching key ids
Plain == {"own", "none"}
Groups == PubSets \X (IF Tier = "quick" THEN {<<1, "full">>, <<2, "full">>, <<3, "full">>, <<4, "plain">>}
                      ELSE {<<1, "full">>, <<2, "full">>, <<3, "full">>, <<4, "full">>, <<5, "plain">>})
CasesOf(g) == LET kf == IF g[2][2] = "full" THEN KidForms ELSE Plain
                  ps == Progs(g[2][1], kf)
              IN {[init |-> g[1], steps |-> p] : p \in ps}

-----------------------------------------------------------------------------
OtherKid(by) == IF by = "A" THEN "B" ELSE "A"
KidOf(s) == CASE s.kid = "own" -> s.by [] s.kid = "none" -> "" [] OTHER -> OtherKid(s.by)

\* oidc.FindMatchingKey over keys that all have a kid, a fitting type and use=sig: exact match, else the only key for a kid-less token
Find(kid, keys) == IF kid # "" /\ kid \in keys THEN kid
                   ELSE IF kid = "" /\ Cardinality(keys) = 1 THEN CHOOSE k \in keys : TRUE
                   ELSE "none"

(* ---- the code: remoteKeySet.VerifySignature = verifySignatureCached, else one download and verifySignatureRemote ---- *)
VerifyRP(s, pub, cache) ==
  LET kid == KidOf(s)
      ck  == IF cache = {} THEN "none" ELSE Find(kid, cache)
      remote == LET k == Find(kid, pub) IN [v |-> IF k # "none" /\ k = s.by THEN "accept" ELSE "reject", dl |-> 1, cache |-> pub] IN
  IF ck = "none" THEN remote
  ELSE IF ck = s.by THEN [v |-> "accept", dl |-> 0, cache |-> cache]
  ELSE IF ck = kid THEN [v |-> "reject", dl |-> 0, cache |-> cache]       \* exact kid match whose signature check failed: final
  ELSE remote                                                             \* kid-less token, single cached key did not verify

RECURSIVE RunRP(_, _, _, _)
RunRP(steps, i, pub, cache) ==
  IF i > Len(steps) THEN <<>>
  ELSE IF steps[i].op = "publish" THEN <<[v |-> "-", dl |-> 0]>> \o RunRP(steps, i + 1, ToSet(steps[i].set), cache)
  ELSE LET r == VerifyRP(steps[i], pub, cache) IN <<[v |-> r.v, dl |-> r.dl]>> \o RunRP(steps, i + 1, pub, r.cache)

(* ---- the code: op.OpenIDKeySet asks the storage on every verification ---- *)
RECURSIVE RunOP(_, _, _)
RunOP(steps, i, pub) ==
  IF i > Len(steps) THEN <<>>
  ELSE IF steps[i].op = "publish" THEN <<[v |-> "-", dl |-> 0]>> \o RunOP(steps, i + 1, ToSet(steps[i].set))
  ELSE LET k == Find(KidOf(steps[i]), pub) IN
       <<[v |-> IF k # "none" /\ k = steps[i].by THEN "accept" ELSE "reject", dl |-> 1]>> \o RunOP(steps, i + 1, pub)

Outcomes(c) == {[rp |-> RunRP(c.steps, 1, ToSet(c.init), {}), op |-> RunOP(c.steps, 1, ToSet(c.init))]}

-----------------------------------------------------------------------------
(* ---- the property, on observed outcomes only ---- *)
\* PubAt: the set published while step i runs
PubAt(c, i) == LET js == {j \in 1..(i - 1) : c.steps[j].op = "publish"} IN
               IF js = {} THEN ToSet(c.init) ELSE ToSet(c.steps[Max(js)].set)
\* what the verifier can know at step i: the set published at its most recent download (observed), nothing before the first one
KnownAt(c, obs, i) == LET js == {j \in 1..i : obs[j].dl > 0} IN IF js = {} THEN {} ELSE PubAt(c, Max(js))

RulesEntry(e, c, obs) ==
  UNION {
    { <<"C02.rotation.sound:" \o e,    (obs[i].v = "accept") => c.steps[i].by \in KnownAt(c, obs, i)>>,
      <<"C02.rotation.kid:" \o e,      (obs[i].v = "accept") => c.steps[i].kid \in {"own", "none"}>>,
      <<"C02.rotation.complete:" \o e, (c.steps[i].by \in PubAt(c, i) /\ c.steps[i].kid = "own") => obs[i].v = "accept">>,
      <<"C02.rotation.refresh:" \o e,  obs[i].dl <= 1>>,
      <<"C09.nopanic:" \o e,           obs[i].v # "panic">> }
    : i \in {j \in 1..Len(c.steps) : c.steps[j].op = "verify"} }
Rules(c, o) == RulesEntry("rp", c, o.rp) \cup RulesEntry("op", c, o.op)
Check(c, o) == {r[1] : r \in {x \in Rules(c, o) : ~x[2]}}
Conforms(c, o) == \E d \in Outcomes(c) :
                    /\ \A i \in 1..Len(c.steps) : o.rp[i].v = d.rp[i].v /\ o.rp[i].dl = d.rp[i].dl
                    /\ \A i \in 1..Len(c.steps) : o.op[i].v = d.op[i].v
=============================================================================
