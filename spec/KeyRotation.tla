----------------------------- MODULE KeyRotation -----------------------------
(***************************************************************************)
(* C02 ("verifies under a key of the configured key set ... selected from   *)
(* a PUBLISHED key set") over the life of ONE key-set instance: the         *)
(* provider rotates, adds and withdraws keys while a long-lived verifier    *)
(* keeps verifying.  A case is a program: the initially published set and   *)
(* a sequence of steps  publish(S) | verify(by, kid).  Keys A, B (EC,       *)
(* kid = name) are the provider's, X is never published.                    *)
(*                                                                          *)
(* Entry rp: rp.VerifyIDToken over one rp.NewRemoteKeySet for the whole     *)
(* program (cache + refresh, transcribed in VerifyRP below); the fake JWKS  *)
(* endpoint counts downloads.  Entry op: op.VerifyAccessToken over one      *)
(* op.OpenIDKeySet whose storage returns the currently published keys.      *)
(* The rules speak about what was published when the verifier last looked:  *)
(* a key withdrawn before the last download must not be believed.           *)
(***************************************************************************)
EXTENDS Naturals, Sequences, FiniteSets, TLC, FiniteSetsExt, Functions, SequencesExt

CONSTANT Tier

\* keys: A, B (EC, kid = name) and N (EC, published WITHOUT a key id); X is never published
\* E: an RSA ENCRYPTION key (use = enc) that is published under the same key id as the signing key A - never a candidate for signatures
\* U: a JWKS member of a key type the library does not know ("kty":"PQ-XYZ", key id "U"): skipped, like every member that does not
\* parse - whatever is listed after it is still there
KidOfKey(k) == IF k = "N" THEN "" ELSE IF k = "E" THEN "A" ELSE k
PubSetsE  == {<<"E", "A">>, <<"A", "E">>, <<"E", "A", "B">>, <<"E">>, <<"A">>, <<"U", "A">>, <<"A", "U", "B">>, <<"U">>}
PubSetsAB == {<<>>, <<"A">>, <<"B">>, <<"A", "B">>}
PubSetsN  == PubSetsAB \cup {<<"N">>, <<"A", "N">>, <<"B", "N">>}
KidForms == {"own", "none", "other"}
Publish(S)     == [op |-> "publish", set |-> S, by |-> "", kid |-> ""]
Verify(by, kf) == [op |-> "verify", set |-> <<>>, by |-> by, kid |-> kf]
Steps(ps, sg, kf) == {Publish(S) : S \in ps} \cup {Verify(b, k) : b \in sg, k \in kf}
VSteps(ps, sg, kf) == {s \in Steps(ps, sg, kf) : s.op = "verify"}

\* programs end with a verification (a trailing publish is never observed)
Progs(n, A, V) ==
  CASE n = 1 -> {<<v>> : v \in V}
    [] n = 2 -> {<<a, v>> : a \in A, v \in V}
    [] n = 3 -> {<<a, b, v>> : a \in A, b \in A, v \in V}
    [] n = 4 -> {<<a, b, d, v>> : a \in A, b \in A, d \in A, v \in V}
    [] OTHER -> {<<a, b, d, e, v>> : a \in A, b \in A, d \in A, e \in A, v \in V}

\* variants: "full"  = keys A, B, every key-id form of the token, default key set ;
\*           "plain" = keys A, B, tokens with their own key id or none (longer programs) ;
\*           "kidless" = keys A, B, N, with and without rp.SkipRemoteCheck (a kid-less cached key is final for kid-less tokens)
Plain == {"own", "none"}
Variants == IF Tier = "quick" THEN {<<1, "full">>, <<2, "full">>, <<3, "full">>, <<4, "plain">>, <<1, "kidless">>, <<2, "kidless">>, <<3, "kidlessPlain">>,
                                    <<1, "sharedKid">>, <<2, "sharedKid">>}
            ELSE {<<1, "full">>, <<2, "full">>, <<3, "full">>, <<4, "plain">>, <<5, "plain">>, <<1, "kidless">>, <<2, "kidless">>, <<3, "kidless">>,
                  <<1, "sharedKid">>, <<2, "sharedKid">>, <<3, "sharedKid">>}
Groups == {<<i, v, sk>> \in (PubSetsN \cup PubSetsE) \X Variants \X BOOLEAN :
             /\ (v[2] \in {"full", "plain"} => (i \in PubSetsAB /\ ~sk))
             /\ (v[2] = "sharedKid" <=> i \in PubSetsE \ PubSetsN) \/ (i = <<"A">> /\ v[2] \in {"sharedKid", "full", "plain", "kidless", "kidlessPlain"})
             /\ (v[2] = "sharedKid" => ~sk)
             /\ (v[2] # "sharedKid" => i \in PubSetsN) }
CasesOf(g) ==
  LET var == g[2][2]
      ps == IF var \in {"full", "plain"} THEN PubSetsAB ELSE IF var = "sharedKid" THEN PubSetsE ELSE PubSetsN
      sg == IF var \in {"full", "plain", "sharedKid"} THEN {"A", "B", "X"} ELSE {"A", "B", "N", "X"}
      kf == IF var \in {"plain", "kidlessPlain", "sharedKid"} THEN Plain ELSE KidForms IN
  {[init |-> g[1], steps |-> p, skip |-> g[3]] : p \in Progs(g[2][1], Steps(ps, sg, kf), VSteps(ps, sg, kf))}

-----------------------------------------------------------------------------
OtherKid(by) == IF by = "A" THEN "B" ELSE "A"
KidOf(s) == CASE s.kid = "own" -> KidOfKey(s.by) [] s.kid = "none" -> "" [] OTHER -> OtherKid(s.by)

\* oidc.FindMatchingKey over keys of one type with use=sig: exact key-id match, else the only candidate among the kid-less keys
\* (every key is a candidate for a kid-less token)
Find(kid, all) ==
  LET keys == all \ {"E", "U"} IN     \* the use / type filter comes first; members that do not parse are not keys
  IF kid # "" /\ \E k \in keys : KidOfKey(k) = kid THEN CHOOSE k \in keys : KidOfKey(k) = kid
  ELSE LET cand == {k \in keys : KidOfKey(k) = "" \/ kid = ""} IN
       IF Cardinality(cand) = 1 THEN CHOOSE k \in cand : TRUE ELSE "none"

(* ---- the code: remoteKeySet.VerifySignature = verifySignatureCached, else one download and verifySignatureRemote ---- *)
\* exactMatch(jwkID, jwsID): both empty -> the SkipRemoteCheck option decides, otherwise equality
ExactMatch(jwk, jws, skip) == IF jwk = "" /\ jws = "" THEN skip ELSE jwk = jws
VerifyRP(s, pub, cache, skip) ==
  LET kid == KidOf(s)
      ck  == IF cache = {} THEN "none" ELSE Find(kid, cache)
      remote == LET k == Find(kid, pub) IN [v |-> IF k # "none" /\ k = s.by THEN "accept" ELSE "reject", dl |-> 1, cache |-> pub] IN
  IF ck = "none" THEN remote
  ELSE IF ck = s.by THEN [v |-> "accept", dl |-> 0, cache |-> cache]
  ELSE IF ExactMatch(KidOfKey(ck), kid, skip) THEN [v |-> "reject", dl |-> 0, cache |-> cache]   \* exact match whose signature check failed: final
  ELSE remote

RECURSIVE RunRP(_, _, _, _, _)
RunRP(steps, i, pub, cache, skip) ==
  IF i > Len(steps) THEN <<>>
  ELSE IF steps[i].op = "publish" THEN <<[v |-> "-", dl |-> 0]>> \o RunRP(steps, i + 1, ToSet(steps[i].set), cache, skip)
  ELSE LET r == VerifyRP(steps[i], pub, cache, skip) IN <<[v |-> r.v, dl |-> r.dl]>> \o RunRP(steps, i + 1, pub, r.cache, skip)

(* ---- the code: op.OpenIDKeySet asks the storage on every verification ---- *)
RECURSIVE RunOP(_, _, _)
RunOP(steps, i, pub) ==
  IF i > Len(steps) THEN <<>>
  ELSE IF steps[i].op = "publish" THEN <<[v |-> "-", dl |-> 0]>> \o RunOP(steps, i + 1, ToSet(steps[i].set))
  ELSE LET k == Find(KidOf(steps[i]), pub) IN
       <<[v |-> IF k # "none" /\ k = steps[i].by THEN "accept" ELSE "reject", dl |-> 1]>> \o RunOP(steps, i + 1, pub)

Outcomes(c) == {[rp |-> RunRP(c.steps, 1, ToSet(c.init), {}, c.skip), op |-> RunOP(c.steps, 1, ToSet(c.init))]}

-----------------------------------------------------------------------------
(* ---- the property, on observed outcomes only ---- *)
\* PubAt: the set published while step i runs
PubAt(c, i) == LET js == {j \in 1..(i - 1) : c.steps[j].op = "publish"} IN
               IF js = {} THEN ToSet(c.init) ELSE ToSet(c.steps[Max(js)].set)
\* what the verifier can know at step i: the set published at its most recent download (observed), nothing before the first one
KnownAt(c, obs, i) == LET js == {j \in 1..i : obs[j].dl > 0} IN IF js = {} THEN {} ELSE PubAt(c, Max(js))

\* a token whose header names the key id of ANOTHER key is never believed under a key that has an id of its own
KidConsistent(s) == s.kid \in {"own", "none"} \/ KidOfKey(s.by) = ""
\* a fitting token: signed by a key that is published now and selected without ambiguity
Fitting(c, i) == LET s == c.steps[i] IN
  /\ s.by \in PubAt(c, i) /\ s.kid = "own"
  /\ (KidOfKey(s.by) # "" \/ PubAt(c, i) = {s.by})
RulesEntry(e, c, obs) ==
  UNION {
    { <<"C02.rotation.sound:" \o e,    (obs[i].v = "accept") => c.steps[i].by \in KnownAt(c, obs, i)>>,
      <<"C02.rotation.kid:" \o e,      (obs[i].v = "accept") => KidConsistent(c.steps[i])>>,
      <<"C02.rotation.complete:" \o e, Fitting(c, i) => obs[i].v = "accept">>,
      <<"C02.rotation.refresh:" \o e,  obs[i].dl <= 1>>,
      <<"C09.nopanic:" \o e,           obs[i].v # "panic">> }
    : i \in {j \in 1..Len(c.steps) : c.steps[j].op = "verify"} }
\* the same sentences as C13 states them for the remote key set ("a token signed with a newly rotated key triggers a refresh and then
\* verifies, and an unknown or retired key ID is rejected after at most one refresh"), on sequential programs
RulesC13(c, obs) ==
  UNION {
    { <<"C13.rotation.retired",  (obs[i].v = "accept") => c.steps[i].by \in KnownAt(c, obs, i)>>,
      <<"C13.rotation.rotated",  Fitting(c, i) => obs[i].v = "accept">>,
      <<"C13.rotation.oneRefresh", obs[i].dl <= 1>> }
    : i \in {j \in 1..Len(c.steps) : c.steps[j].op = "verify"} }
Rules(c, o) == RulesEntry("rp", c, o.rp) \cup RulesEntry("op", c, o.op) \cup RulesC13(c, o.rp)
Check(c, o) == {r[1] : r \in {x \in Rules(c, o) : ~x[2]}}
Conforms(c, o) == \E d \in Outcomes(c) :
                    /\ \A i \in 1..Len(c.steps) : o.rp[i].v = d.rp[i].v /\ o.rp[i].dl = d.rp[i].dl
                    /\ \A i \in 1..Len(c.steps) : o.op[i].v = d.op[i].v
=============================================================================
