------------------------------- MODULE KS -------------------------------
(***************************************************************************)
(* rp.remoteKeySet (pkg/client/rp/jwks.go): N concurrent VerifySignature   *)
(* calls against a cache + single-flight download of the provider's JWKS.  *)
(* The events are the hook points of the implementation (build tag verif): *)
(*   Start(c,tok)  CacheRead(c,n)  Join(c,created)  WaitDone(c)            *)
(*   WaitCancelled(c)  End(c,res)  FetchStart(g)  Answer(g,ver,mode)       *)
(*   FetchEnd(g,ok,n)  Signal(g)  Commit(g,ok,n)  Cancel(c)  Rotate  SetMode*)
(* Apply(e) is the state effect, Check(e) the violated property rules.     *)
(* KSDesign generates the events from the model itself (every interleaving *)
(* of the critical sections), KSTrace takes them from a log recorded from  *)
(* the real key set - under a deterministic gate scheduler replaying TLC   *)
(* schedules, or free-running under the race detector.                     *)
(***************************************************************************)
EXTENDS Naturals, Sequences, FiniteSets, TLC, Functions

Key(k, m) == [kid |-> k, mat |-> m]

\* The JWKS document over time: v1 = {k1}, v2 = {k1,k2} (rotation overlap), v3 = {k2} (k1 retired), v4 = {k2,k3}
Versions == << {Key("k1", "K1")},
               {Key("k1", "K1"), Key("k2", "K2")},
               {Key("k2", "K2")},
               {Key("k2", "K2"), Key("k3", "K3")} >>
MaxVersion == Len(Versions)

\* token classes: [kid, mat]  (mat = the private key that signed it; KX is served by nobody)
TokenClasses == [ valid1   |-> Key("k1", "K1"), rot2 |-> Key("k2", "K2"), rot3 |-> Key("k3", "K3"),
                  unknown  |-> Key("kx", "KX"), wrong1 |-> Key("k1", "KX"), wrong2 |-> Key("k2", "KX"),
                  kidless1 |-> Key("", "K1"),  kidless2 |-> Key("", "K2"), kidlessX |-> Key("", "KX") ]
TokenNames == DOMAIN TokenClasses

VARIABLES
  cache,     \* set of keys held by the key set (r.cachedKeys)
  inflight,  \* 0 = none, else the generation number of the in-flight download (r.inflight)
  gens,      \* generation |-> [keys, ok, answered, mode, fetched, signalled, committed, owner]
  ngen,      \* number of generations created so far
  calls,     \* caller |-> [pc, tok, snap, joined, cancelled, window, failSeen, created, during]
  server,    \* [ver, mode]
  served,    \* set of keys the JWKS endpoint has served so far (answers with mode ok)
  nreq,      \* number of JWKS requests answered
  viol

kvars == <<cache, inflight, gens, ngen, calls, server, served, nreq, viol>>

Empty == [x \in {} |-> 0]
Has(f, k) == k \in DOMAIN f

KInit ==
  /\ cache = {} /\ inflight = 0 /\ gens = Empty /\ ngen = 0 /\ calls = Empty
  /\ server = [ver |-> 1, mode |-> "ok"] /\ served = {} /\ nreq = 0 /\ viol = {}

-----------------------------------------------------------------------------
(* oidc.FindMatchingKey restricted to keys of one type and use (those        *)
(* filters are property C02): exact kid match, else the unique candidate.    *)
NoneKey  == Key("?none", "?")        \* ErrKeyNone
MultiKey == Key("?multiple", "?")    \* ErrKeyMultiple
FindKey(kid, keys) ==
  IF kid # "" /\ \E k \in keys : k.kid = kid THEN CHOOSE k \in keys : k.kid = kid
  ELSE LET cand == {k \in keys : k.kid = "" \/ kid = ""} IN
       IF Cardinality(cand) = 1 THEN CHOOSE k \in cand : TRUE
       ELSE IF cand = {} THEN NoneKey ELSE MultiKey

VerifyWith(tok, keys) ==
  LET k == FindKey(tok.kid, keys) IN
  IF k \in {NoneKey, MultiKey} THEN "reject" ELSE IF k.mat = tok.mat THEN "ok" ELSE "reject"

\* verifySignatureCached: "ok" | "reject" (exact kid match failed to verify: no refresh) | "miss" (go remote)
CachedOutcome(tok, keys) ==
  IF keys = {} THEN "miss"
  ELSE LET k == FindKey(tok.kid, keys) IN
       IF k \in {NoneKey, MultiKey} THEN "miss"
       ELSE IF k.mat = tok.mat THEN "ok"
       ELSE IF k.kid = tok.kid /\ tok.kid # "" THEN "reject" ELSE "miss"

Active(c) == Has(calls, c) /\ calls[c].pc # "done"

-----------------------------------------------------------------------------
Apply(e) ==
  LET a == e.args IN
  CASE e.op = "Start" ->
         /\ calls' = (a.c :> [pc |-> "started", tok |-> TokenClasses[a.tok], snap |-> {}, joined |-> 0, cancelled |-> FALSE,
                               window |-> {server.ver}, failSeen |-> (server.mode # "ok"), created |-> FALSE, during |-> {}]) @@ calls
         /\ UNCHANGED <<cache, inflight, gens, ngen, server, served, nreq>>
    [] e.op = "CacheRead" ->
         /\ calls' = [calls EXCEPT ![a.c].pc = "read", ![a.c].snap = cache]
         /\ UNCHANGED <<cache, inflight, gens, ngen, server, served, nreq>>
    [] e.op = "Join" ->
         /\ IF a.created
            THEN /\ ngen' = ngen + 1
                 /\ inflight' = ngen + 1
                 /\ gens' = ((ngen + 1) :> [keys |-> {}, ok |-> FALSE, answered |-> FALSE, mode |-> "none", fetched |-> FALSE,
                                             signalled |-> FALSE, committed |-> FALSE, owner |-> a.c]) @@ gens
                 /\ calls' = [calls EXCEPT ![a.c].pc = "joined", ![a.c].joined = ngen + 1, ![a.c].created = TRUE]
            ELSE /\ UNCHANGED <<ngen, inflight, gens>>
                 /\ calls' = [calls EXCEPT ![a.c].pc = "joined", ![a.c].joined = inflight]
         /\ UNCHANGED <<cache, server, served, nreq>>
    [] e.op \in {"WaitDone", "WaitCancelled"} ->
         /\ calls' = [calls EXCEPT ![a.c].pc = IF e.op = "WaitDone" THEN "waitdone" ELSE "waitcancelled"]
         /\ UNCHANGED <<cache, inflight, gens, ngen, server, served, nreq>>
    [] e.op = "End" ->
         /\ calls' = [calls EXCEPT ![a.c].pc = "done"]
         /\ UNCHANGED <<cache, inflight, gens, ngen, server, served, nreq>>
    [] e.op = "Cancel" ->
         /\ calls' = IF Has(calls, a.c) THEN [calls EXCEPT ![a.c].cancelled = TRUE] ELSE calls
         /\ UNCHANGED <<cache, inflight, gens, ngen, server, served, nreq>>
    [] e.op = "FetchStart" ->
         /\ UNCHANGED <<cache, inflight, gens, ngen, calls, server, served, nreq>>
    [] e.op = "Answer" ->            \* the JWKS endpoint answers the request of generation a.g
         /\ gens' = IF Has(gens, a.g)
                    THEN [gens EXCEPT ![a.g].answered = TRUE, ![a.g].mode = server.mode,
                                      ![a.g].keys = IF server.mode = "ok" THEN Versions[server.ver] ELSE {}]
                    ELSE gens
         /\ served' = IF server.mode = "ok" THEN served \cup Versions[server.ver] ELSE served
         /\ nreq' = nreq + 1
         /\ calls' = [c \in DOMAIN calls |-> IF calls[c].pc # "done" THEN [calls[c] EXCEPT !.during = @ \cup {a.g}] ELSE calls[c]]
         /\ UNCHANGED <<cache, inflight, ngen, server>>
    [] e.op = "FetchEnd" ->
         /\ gens' = IF Has(gens, a.g) THEN [gens EXCEPT ![a.g].fetched = TRUE, ![a.g].ok = a.ok] ELSE gens
         /\ UNCHANGED <<cache, inflight, ngen, calls, server, served, nreq>>
    [] e.op = "Signal" ->
         /\ gens' = IF Has(gens, a.g) THEN [gens EXCEPT ![a.g].signalled = TRUE] ELSE gens
         /\ UNCHANGED <<cache, inflight, ngen, calls, server, served, nreq>>
    [] e.op = "Commit" ->
         /\ cache' = IF a.ok /\ Has(gens, a.g) THEN gens[a.g].keys ELSE cache
         /\ inflight' = 0
         /\ gens' = IF Has(gens, a.g) THEN [gens EXCEPT ![a.g].committed = TRUE] ELSE gens
         /\ UNCHANGED <<ngen, calls, server, served, nreq>>
    [] e.op = "Rotate" ->
         /\ server' = [server EXCEPT !.ver = a.ver]
         /\ calls' = [c \in DOMAIN calls |-> IF calls[c].pc # "done" THEN [calls[c] EXCEPT !.window = @ \cup {a.ver}] ELSE calls[c]]
         /\ UNCHANGED <<cache, inflight, gens, ngen, served, nreq>>
    [] e.op = "SetMode" ->
         /\ server' = [server EXCEPT !.mode = a.mode]
         /\ calls' = [c \in DOMAIN calls |-> IF calls[c].pc # "done" /\ a.mode # "ok" THEN [calls[c] EXCEPT !.failSeen = TRUE] ELSE calls[c]]
         /\ UNCHANGED <<cache, inflight, gens, ngen, served, nreq>>
    [] OTHER -> UNCHANGED <<cache, inflight, gens, ngen, calls, server, served, nreq>>

-----------------------------------------------------------------------------
(* Property rules (C13).                                                     *)

RulesEnd(a) ==
  LET c == calls[a.c]
      g == c.joined
      viaRemote == g # 0
      everywhere == \A v \in c.window : \E k \in Versions[v] : k.kid = c.tok.kid /\ k.mat = c.tok.mat IN
  { \* never accept a token signed by a key the endpoint never served
    <<"C13.sound",        (a.res = "ok") => (\E k \in served : k.mat = c.tok.mat)>>,
    \* accepted from the cache or from the one download this call joined - and only a successful one
    <<"C13.explained",    (a.res = "ok") => (VerifyWith(c.tok, c.snap) = "ok"
                                              \/ (viaRemote /\ Has(gens, g) /\ gens[g].ok /\ VerifyWith(c.tok, gens[g].keys) = "ok"))>>,
    <<"C13.noAcceptOnFailure", (a.res = "ok" /\ viaRemote /\ VerifyWith(c.tok, c.snap) # "ok") => (Has(gens, g) /\ gens[g].ok /\ gens[g].mode = "ok")>>,
    \* a token whose key the endpoint serves during the whole call is accepted (kid-less tokens may be ambiguous)
    \* (a call may legally join a download that was answered before the call began; then the rotation rule below applies)
    <<"C13.complete",     (c.tok.kid # "" /\ everywhere /\ ~c.failSeen /\ ~c.cancelled /\ (viaRemote => g \in c.during)) => a.res = "ok">>,
    \* rotation: a token of a newly published key verifies after the refresh this call triggered or joined
    <<"C13.rotation",     (c.tok.kid # "" /\ ~c.failSeen /\ ~c.cancelled /\ viaRemote /\ Has(gens, g) /\ gens[g].ok
                             /\ VerifyWith(c.tok, gens[g].keys) = "ok") => a.res = "ok">>,
    \* only the caller's own cancellation produces a cancellation result
    <<"C13.isolation.self", (a.res = "cancelled") => c.cancelled>>,
    \* a download error is reported only if the download this call waited for really failed at the endpoint
    <<"C13.isolation.fetch", (a.res = "fetcherr") => (viaRemote /\ Has(gens, g) /\ gens[g].answered /\ gens[g].mode # "ok")>> }

RulesCacheRead(a) ==
  { <<"C13.cache.len", a.n = Cardinality(cache)>> }

RulesJoin(a) ==
  { <<"C13.singleflight.create", a.created <=> (inflight = 0)>>,
    <<"C13.oneRefresh", calls[a.c].joined = 0>> }

RulesAnswer(a) ==
  { <<"C13.singleflight.requests", nreq + 1 <= ngen>>,
    <<"C13.singleflight.once", Has(gens, a.g) => ~gens[a.g].answered>> }

RulesFetchEnd(a) ==
  { \* the download fails only because the endpoint failed (5xx, bad JSON ...), never because a caller went away
    <<"C13.isolation.download", (~a.ok) => (Has(gens, a.g) /\ gens[a.g].answered /\ gens[a.g].mode # "ok")>>,
    <<"C13.fetch.success", a.ok => (Has(gens, a.g) /\ gens[a.g].answered /\ gens[a.g].mode = "ok" /\ a.n = Cardinality(gens[a.g].keys))>> }

RulesCommit(a) ==
  LET after == IF a.ok /\ Has(gens, a.g) THEN gens[a.g].keys ELSE cache IN
  { <<"C13.cacheKept",   (~a.ok) => a.n = Cardinality(cache)>>,        \* a failed download never discards cached keys
    <<"C13.commit.len",  a.n = Cardinality(after)>>,
    <<"C13.commit.flag", Has(gens, a.g) => a.ok = gens[a.g].ok>>,
    <<"C13.commit.current", a.g = inflight>> }

Rules(e) ==
  CASE e.op = "End"       -> RulesEnd(e.args)
    [] e.op = "CacheRead" -> RulesCacheRead(e.args)
    [] e.op = "Join"      -> RulesJoin(e.args)
    [] e.op = "Answer"    -> RulesAnswer(e.args)
    [] e.op = "FetchEnd"  -> RulesFetchEnd(e.args)
    [] e.op = "Commit"    -> RulesCommit(e.args)
    [] OTHER -> {}

Check(e) == {r[1] : r \in {x \in Rules(e) : ~x[2]}}
=============================================================================
