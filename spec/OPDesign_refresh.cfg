SPECIFICATION Spec
CONSTANTS
  Routers = {"P", "L"}
  Ops = {"Authorize", "Login", "Callback", "CodeExchange", "Refresh", "Withdraw"}
  MaxReq = 1
  MaxCode = 1
  MaxAT = 4
  MaxDev = 0
  MaxSteps = 99
  Seeded = FALSE
  Vary = {"post", "refresh"}
  Narrow = FALSE
INVARIANT NoViolation
VIEW View
CHECK_DEADLOCK FALSE
