SPECIFICATION MSpec
CONSTANTS
  Callers <- CallersABC
  TokOf <- RolesAll
  MaxRot = 2
  MaxGen = 3
  Faults = TRUE
  Cancels = TRUE
  Depth = 40
INVARIANT Emit
INVARIANT NoViolation
CHECK_DEADLOCK FALSE
