------------------------------- MODULE Interop -------------------------------
(***************************************************************************)
(* C14 (last clause): assertions produced by the library's own client       *)
(* helpers are accepted by the provider.                                    *)
(* Case = helper x key format x where the assertion is presented.  For RSA  *)
(* and P-256 keys (RS256 / ES256: the provider's fixed default list) the    *)
(* assertion must be accepted and authenticate exactly the client; Ed25519  *)
(* keys make the helpers emit EdDSA, which the provider neither advertises  *)
(* nor accepts - either outcome is allowed there.                           *)
(***************************************************************************)
EXTENDS Naturals, Sequences, FiniteSets, TLC, FiniteSetsExt, Functions, SequencesExt

CONSTANT Tier

Helpers == {"client.SignedJWTProfileAssertion", "oidc.GenerateJWTProfileToken", "profile.NewJWTProfileTokenSource", "rp.CodeExchangeHandler+WithJWTProfile",
            "rs.NewResourceServerJWTProfile"}
KeyFormats == {"rsaPKCS1", "rsaPKCS8", "ecPKCS8", "ed25519PKCS8"}
Groups == Helpers
CasesOf(h) == {[helper |-> h, key |-> k, router |-> r] : k \in KeyFormats, r \in {"P", "L"}}

Supported(c) == c.key \in {"rsaPKCS1", "rsaPKCS8", "ecPKCS8"}
\* o = [v : "accept" | "reject" | "n/a" (the helper refused the key itself), identity]
Rules(c, o) ==
  { <<"C14.interop.accepted", (Supported(c) /\ o.v # "n/a") => o.v = "accept">>,
    <<"C14.interop.usable",   Supported(c) => o.v # "n/a">>,
    <<"C14.interop.identity", (o.v = "accept") => o.identity = "client">>,
    <<"C09.nopanic", o.v # "panic">> }
Check(c, o) == {x[1] : x \in {y \in Rules(c, o) : ~y[2]}}
Outcomes(c) == IF Supported(c) THEN {[v |-> "accept", identity |-> "client"]} ELSE {[v |-> "reject", identity |-> "none"], [v |-> "accept", identity |-> "client"]}
Conforms(c, o) == TRUE
=============================================================================
