--------------------------- MODULE OPWorld ---------------------------
(* The fixed abstract world shared by the design spec, the MBT export and the   *)
(* trace monitor of the OpenID Provider: client registrations, users, URIs.     *)
(* The Go harness receives this world as JSON (OPEmitWorld) and builds the real *)
(* registrations from it, so TLA+ is the single source of truth.                *)
EXTENDS Naturals, Sequences, FiniteSets, TLC, Functions

Clients == {"cw", "cx", "cp", "cj", "cs", "cd", "cn"}

\* auth: basic | post | none | pkjwt ; app: web | native | ua ; at: opaque | jwt
Reg == [c \in Clients |->
  CASE c = "cw" -> [auth |-> "basic", app |-> "web",    grants |-> {"code","refresh","te"},
                    rtypes |-> {"code"}, uris |-> {"ucw", "ucw2"}, postLogout |-> {"plcw"}, at |-> "opaque"]
    [] c = "cx" -> [auth |-> "post",  app |-> "web",    grants |-> {"code","refresh","implicit","device"},
                    rtypes |-> {"code","id_token","id_token token"}, uris |-> {"ucx"}, postLogout |-> {"plcx"}, at |-> "jwt"]
    [] c = "cp" -> [auth |-> "none",  app |-> "native", grants |-> {"code","refresh","device"},
                    rtypes |-> {"code"}, uris |-> {"ucp"}, postLogout |-> {}, at |-> "opaque"]
    [] c = "cj" -> [auth |-> "pkjwt", app |-> "web",    grants |-> {"code","refresh","bearer","device"},
                    rtypes |-> {"code"}, uris |-> {"ucj"}, postLogout |-> {"plcj"}, at |-> "jwt"]
    [] c = "cs" -> [auth |-> "basic", app |-> "web",    grants |-> {"cc","te"},
                    rtypes |-> {}, uris |-> {}, postLogout |-> {}, at |-> "jwt"]
    [] c = "cd" -> [auth |-> "basic", app |-> "web",    grants |-> {"device"},
                    rtypes |-> {}, uris |-> {}, postLogout |-> {}, at |-> "opaque"]
    \* a native application that nevertheless is registered with a secret (application type and auth method are independent)
    [] c = "cn" -> [auth |-> "basic", app |-> "native", grants |-> {"code","refresh","device"},
                    rtypes |-> {"code"}, uris |-> {"ucn"}, postLogout |-> {"plcn"}, at |-> "opaque"]]

\* the names are the subjects themselves; one of them needs escaping wherever a subject is embedded in a URL-ish or delimiter-separated string
Users  == {"u1", "u2@idp.example"}
\* abstract URI names; "evil" is registered for nobody, "ucw" etc. belong to one client each
\* "ucnEvil": another host with the SAME path as ucn (cn's loopback redirect URI)
URIs   == {"ucw", "ucw2", "ucx", "ucp", "ucj", "ucn", "evil", "ucnEvil"}
ScopeNames == {"openid", "profile", "email", "offline_access"}

IsConfidential(c) == Reg[c].auth # "none"

\* Client clock skew in seconds (op.Client.ClockSkew): tokens for such a client are dated skew seconds back (iat, nbf, auth_time)
\* and live skew seconds longer (exp of ID tokens, expires_in)
Skew(c) == CASE c = "cx" -> 30 [] c = "cn" -> 7 [] OTHER -> 0

\* Clients that opted into glob patterns (op.HasRedirectGlobs): cw registers one pattern for login redirects and a different one for
\* post-logout redirects. "ucwG" names a URI matched by the login pattern only, "plcwG" one matched by the post-logout pattern only.
LoginGlob(c) == IF c = "cw" THEN {"ucwG"} ELSE {}
PLGlob(c)    == IF c = "cw" THEN {"plcwG"} ELSE {}
\* "plcxNear": a URI nobody registered that differs from plcx (a registered URI WITH a query component) in one character: the "?"
\* - what a registered URI read as a pattern would also match
\* "plcn": cn's (native) post-logout URI on the loopback interface ; "plcnEvil": a foreign host with the same path
PostLogoutOK(c, u) == u \in Reg[c].postLogout \cup PLGlob(c)

\* Credential presentations. kind: none | basic | post | assertion ; secret: right | wrong ;
\* key: own | foreign (assertion naming the caller as issuer but signed with a key registered for nobody, under the caller's key id)
\*      | sibling (... signed with the key of ANOTHER registered client whose key id equals the caller's; that client authenticated before)
\* alias: "" or a second client id sent as form parameter client_id next to the Basic credentials of the caller
\* (a request that names two clients; the authenticated one is the caller)
Creds == [kind : {"none"}, secret : {"none"}, key : {"none"}, alias : {""}]
   \cup  [kind : {"basic", "post"}, secret : {"right", "wrong"}, key : {"none"}, alias : {""}]
   \cup  [kind : {"basic"}, secret : {"right"}, key : {"none"}, alias : {"cw", "cx"}]
   \cup  [kind : {"assertion"}, secret : {"none"}, key : {"own", "foreign", "sibling"}, alias : {""}]

\* "authenticated as - or, for public clients, identifies as" (C04, C07): the proof fits the registration
AuthOK(c, cred) ==
  CASE Reg[c].auth = "none"  -> TRUE
    [] Reg[c].auth = "pkjwt" -> cred.kind = "assertion" /\ cred.key = "own"
    [] OTHER                 -> cred.kind \in {"basic", "post"} /\ cred.secret = "right"

\* Wrong secret / wrong kind of credential for a confidential client (C05 MustRefuse, client part)
BadCred(c, cred) ==
  CASE Reg[c].auth = "none"  -> FALSE
    [] Reg[c].auth = "pkjwt" -> ~(cred.kind = "assertion" /\ cred.key = "own")
    [] OTHER                 -> ~(cred.kind \in {"basic", "post"} /\ cred.secret = "right")

Verifies(chall, verifier) ==      \* chall: "none" | "plain:v" | "s256:v" ; verifier: "none" | v
  \/ chall = "plain:" \o verifier
  \/ chall = "s256:" \o verifier

World == [clients |-> [c \in Clients |-> [auth |-> Reg[c].auth, app |-> Reg[c].app,
                                          grants |-> Reg[c].grants, rtypes |-> Reg[c].rtypes,
                                          uris |-> Reg[c].uris, postLogout |-> Reg[c].postLogout, at |-> Reg[c].at,
                                          loginGlob |-> LoginGlob(c), plGlob |-> PLGlob(c), skew |-> Skew(c),
                                          \* IDTokenUserinfoClaimsAssertion: the client wants the user claims in the ID token even when an access token is issued
                                          assert |-> c \in {"cx", "cn"},
                                          \* how the registration spells client_secret_basic: "unset" = the storage names no method at all (the
                                          \* empty string; OpenID Connect Dynamic Client Registration 2: the default is client_secret_basic) -
                                          \* a value outside the four constants the library enumerates. Such a client authenticates with its secret.
                                          method |-> IF c \in {"cd", "cs"} THEN "unset" ELSE "explicit",
                                          \* the storage holds a public key for the client: private_key_jwt clients - and cw, which authenticates with its
                                          \* secret and registered a key for another purpose (signing request objects). An assertion signed with that key
                                          \* is a credential of the wrong kind for cw.
                                          hasKey |-> Reg[c].auth = "pkjwt" \/ c = "cw",
                                          \* the resource servers the client's tokens are meant for (the storage's audience of its authorization
                                          \* requests): the client itself, except for cx - two resource servers, the client not among them
                                          aud |-> IF c = "cx" THEN {"https://api-1.example.test", "https://api-2.example.test"} ELSE {}]],
          users |-> Users, uris |-> URIs]
=============================================================================
