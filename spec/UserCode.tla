------------------------------ MODULE UserCode ------------------------------
(***************************************************************************)
(* C16 (second sentence): a device authorization response contains an       *)
(* unguessable device code, a user code drawn from the configured alphabet  *)
(* and format, a verification URI on the provider's issuer (with and        *)
(* without the code) and the configured lifetime and poll interval.         *)
(* Case = user-code configuration x way of asking (op.NewUserCode directly, *)
(* POST /device_authorization on either router).  The format is computed    *)
(* here (length, positions of the dashes); the harness reports what 40      *)
(* generated codes / responses look like.                                   *)
(***************************************************************************)
EXTENDS Naturals, Sequences, FiniteSets, TLC, FiniteSetsExt, Functions, SequencesExt

CONSTANT Tier

CharSets == {"base20", "digits", "single", "nonascii"}
Amounts == {1, 2, 8, 9, 16}
Intervals == {0, 1, 3, 4, 20}
Groups == {"func", "P", "L"}
\* form: where the user enters the code - a path on the issuer (UserFormPath) or the absolute URL of the deprecated UserFormURL setting;
\* "pathNoSlash": the same path configured without its leading slash ("device/form") - still a path on the issuer ;
\* either way every response names that address without the code, and with this response's own code
CasesOf(g) == {[via |-> g, charset |-> cs, amount |-> a, interval |-> i, lifetime |-> lt, poll |-> pi, form |-> f] :
                  cs \in CharSets, a \in Amounts, i \in Intervals, lt \in (IF g = "func" THEN {300} ELSE {300, 77}), pi \in (IF g = "func" THEN {5} ELSE {5, 11}),
                  f \in (IF g = "func" THEN {"path"} ELSE {"path", "pathNoSlash", "url"})}

\* "-" exactly every `interval` characters (0 = no dashes), never leading or trailing
NDashes(c) == IF c.interval = 0 THEN 0 ELSE (c.amount - 1) \div c.interval
ExpectedLen(c) == c.amount + NDashes(c)
ExpectedDashes(c) == IF c.interval = 0 THEN {} ELSE {p \in 0..(ExpectedLen(c) - 1) : (p + 1) % (c.interval + 1) = 0}

\* o = [len, dashes (positions, 0-based), alphabetOK, distinct (device codes pairwise distinct), deviceBits, uriOK, completeOK, expires, interval, ok]
Rules(c, o) ==
  { <<"C16.usercode.length",   o.ok => o.len = ExpectedLen(c)>>,
    <<"C16.usercode.dashes",   o.ok => Range(o.dashes) = ExpectedDashes(c)>>,
    <<"C16.usercode.alphabet", o.ok => o.alphabetOK>>,
    <<"C16.devicecode.unguessable", (o.ok /\ c.via # "func") => (o.deviceBits >= 128 /\ o.distinct)>>,
    <<"C16.verification.uri",  (o.ok /\ c.via # "func") => (o.uriOK /\ o.completeOK)>>,
    <<"C16.lifetime.interval", (o.ok /\ c.via # "func") => (o.expires = c.lifetime /\ o.interval = c.poll)>>,
    <<"C16.response", o.ok>>,
    <<"C09.nopanic", ~o.panic>> }
Check(c, o) == {x[1] : x \in {y \in Rules(c, o) : ~y[2]}}
Outcomes(c) == {[ok |-> TRUE, panic |-> FALSE, len |-> ExpectedLen(c), dashes |-> SetToSeq(ExpectedDashes(c)), alphabetOK |-> TRUE, distinct |-> TRUE,
                 deviceBits |-> 128, uriOK |-> TRUE, completeOK |-> TRUE, expires |-> c.lifetime, interval |-> c.poll]}
Conforms(c, o) == TRUE
=============================================================================
