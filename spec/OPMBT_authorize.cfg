SPECIFICATION MSpec
CONSTANTS
  Routers = {"P", "L"}
  Ops = {"Authorize", "Login", "Callback"}
  MaxReq = 4
  MaxCode = 4
  MaxAT = 4
  MaxDev = 0
  MaxSteps = 99
  Seeded = FALSE
  Vary = {}
  Narrow = TRUE
  Depth = 10
INVARIANT Emit
INVARIANT NoViolation
CHECK_DEADLOCK FALSE
