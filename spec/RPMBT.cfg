SPECIFICATION MSpec
CONSTANTS
  MaxAttempts = 6
  MaxSteps = 99
  Depth = 12
INVARIANT Emit
INVARIANT NoViolation
CHECK_DEADLOCK FALSE
