SPECIFICATION MSpec
CONSTANTS
  Routers = {"P", "L"}
  Ops = {"Authorize", "Login", "Callback", "CodeExchange", "Refresh", "Withdraw"}
  MaxReq = 3
  MaxCode = 4
  MaxAT = 6
  MaxDev = 3
  MaxSteps = 99
  Seeded = FALSE
  Vary = {"post", "refresh"}
  Narrow = TRUE
  Depth = 16
INVARIANT Emit
INVARIANT NoViolation
CHECK_DEADLOCK FALSE
