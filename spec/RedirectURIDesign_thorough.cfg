SPECIFICATION Spec
CONSTANT Tier = "thorough"
INVARIANT NoViolation
INVARIANT NoSurprise
INVARIANT EmitCase
CHECK_DEADLOCK FALSE
