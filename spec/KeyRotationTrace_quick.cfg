SPECIFICATION Spec
CONSTANT Tier = "quick"
INVARIANT Judge
CHECK_DEADLOCK FALSE
