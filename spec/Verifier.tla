----------------------------- MODULE Verifier -----------------------------
(***************************************************************************)
(* C01: the Relying Party's ID-token validation (rp.VerifyIDToken /         *)
(* rp.VerifyTokens) is sound and complete w.r.t. OIDC Core 3.1.3.7.         *)
(*                                                                          *)
(* A case is [tok, cfg]: an abstract token (every claim dimension the       *)
(* property talks about) and a verifier configuration.  Times are signed    *)
(* second offsets from the moment of the call.  ValidLoose / ValidStrict    *)
(* transcribe the property sentence (with the clock-rounding margin of 2 s  *)
(* on either side of every time boundary); Verdicts(c) transcribes the      *)
(* chain of Check* calls in pkg/client/rp/verifier.go + pkg/oidc/verifier.go*)
(* The harness signs a real JWT for every case and calls the real verifier. *)
(***************************************************************************)
EXTENDS Integers, Sequences, FiniteSets, TLC, FiniteSetsExt, Functions

CONSTANT Tier

Absent == -999999        \* "claim not present" for time-valued claims
Margin == 2

Dims == [
  iss    |-> {"ok", "other", "absent"},
  sub    |-> {"present", "absent"},
  aud    |-> {"cid", "cidstr", "none", "other", "cid+other", "other+cid", "other+other2"},
  azp    |-> {"absent", "cid", "other"},
  exp    |-> {3600, -3600, -3, 0, 3, 7, 13, Absent},
  iat    |-> {-3, -3600, -33, -27, 3, 7, 13, 3600, Absent},
  auth   |-> {-3, -3600, -63, -57, Absent},
  nonce  |-> {"absent", "n1", "other"},
  acr    |-> {"allowed", "other", "absent"},
  athash |-> {"correct", "absent", "ofOther", "wrongSize"},
  withAT |-> {TRUE, FALSE},
  alg    |-> {"ES256", "RS256", "ES384", "EdDSA"},
  sig    |-> {"good", "foreign"},
  \* a claim the statement does not mention and that therefore decides nothing: the non-OIDC claim client_id (absent, the
  \* verifier's client, another client) - e.g. it is no substitute for a missing azp
  cidclaim |-> {"absent", "cid", "other"} ]

CfgDims == [
  offset |-> {1, 0, 10},          \* seconds; rp.NewIDTokenVerifier default is 1 s
  maxIAT |-> {0, 30},
  maxAge |-> {0, 60},
  nonce  |-> {"default", "n1", "nil"},   \* default: func returning "" ; nil: no nonce check
  acr    |-> {"nil", "allowed"},
  \* how the verifier is obtained: rp.NewIDTokenVerifier with the options, or rp.NewRelyingPartyOIDC(WithVerifierOpts(options...),
  \* WithSigningAlgsFromDiscovery()).IDTokenVerifier() against a discovery document
  \* rpRefresh / rpExchange: the same relying party verifies the ID token of a refresh-grant / code-exchange response
  \* (rp.RefreshTokens, rp.CodeExchange against a token endpoint that answers with the case's tokens)
  \* rpOIDCslash: a relying party configured with the issuer PLUS a trailing slash, while the provider (discovery document and tokens)
  \* states the issuer without it: another issuer string - construction fails, or nothing the provider issues is accepted
  via    |-> {"direct", "rpOIDC", "rpRefresh", "rpExchange", "rpOIDCslash"},
  \* what the same verifier / relying party did before the observed call.  Verification is a function of the token, the access token
  \* delivered with it, the configuration and the clock - NOT of earlier calls: with "sameIDT" the very same ID token was verified
  \* immediately before, together with the access token its at_hash names (a fitting pair whenever the ID token is valid by itself),
  \* through the same entry point.  Verdicts and rules do not mention it.
  prior  |-> {"none", "sameIDT"} ]

Cfgs == [offset : CfgDims.offset, maxIAT : CfgDims.maxIAT, maxAge : CfgDims.maxAge, nonce : CfgDims.nonce, acr : CfgDims.acr, via : CfgDims.via,
         prior : CfgDims.prior]

\* the token that is valid, with margin, under configuration cfg
Base(cfg) == [iss |-> "ok", sub |-> "present", aud |-> "cid", azp |-> "absent", exp |-> 3600, iat |-> -3, auth |-> -3,
              nonce |-> IF cfg.nonce = "n1" THEN "n1" ELSE "absent", acr |-> "allowed", athash |-> "correct", withAT |-> TRUE,
              alg |-> "ES256", sig |-> "good", cidclaim |-> "absent"]

TokFields == DOMAIN Dims
Dev1(S) == S \cup UNION {UNION {{[t EXCEPT ![f] = v] : v \in Dims[f]} : f \in TokFields} : t \in S}

Depth == IF Tier = "quick" THEN 2 ELSE 3
Toks(cfg) == LET d1 == Dev1({Base(cfg)})  d2 == Dev1(d1) IN IF Depth = 2 THEN d2 ELSE Dev1(d2)

\* thorough: depth-3 deviations only around the default configuration and its single-dimension deviations
BaseCfg == [offset |-> 1, maxIAT |-> 30, maxAge |-> 60, nonce |-> "n1", acr |-> "allowed", via |-> "direct", prior |-> "none"]
\* thorough: depth-3 deviations around the default configuration, three of its single-dimension deviations and the all-off configuration
\* (depth 3 around every near configuration is 730 k cases, which the trace monitor does not digest in reasonable time)
NearCfgs == {BaseCfg, [BaseCfg EXCEPT !.offset = 10], [BaseCfg EXCEPT !.maxIAT = 0], [BaseCfg EXCEPT !.nonce = "default"],
             [offset |-> 1, maxIAT |-> 0, maxAge |-> 0, nonce |-> "default", acr |-> "nil", via |-> "direct", prior |-> "none"]}

Groups == Cfgs
CasesOf(cfg) ==
  LET d1 == Dev1({Base(cfg)})  d2 == Dev1(d1)
      \* verifiers obtained through the relying-party constructor: the single-dimension deviations (quick), two (thorough)
      near == [cfg EXCEPT !.via = "direct", !.prior = "none"] \in NearCfgs
      ts == IF cfg.via # "direct" \/ cfg.prior # "none" THEN (IF Tier = "quick" \/ ~near THEN d1 ELSE d2)
            ELSE IF Tier = "quick" \/ cfg \notin NearCfgs THEN d2 ELSE Dev1(d2)
      \* a token response always delivers the access token next to the ID token
      us == IF cfg.via \in {"rpRefresh", "rpExchange"} THEN {t \in ts : t.withAT} ELSE ts IN
  {[tok |-> t, cfg |-> cfg] : t \in us}

-----------------------------------------------------------------------------
(* The property sentence. *)
AudSet(a) == CASE a = "cid" -> {"cid"} [] a = "cidstr" -> {"cid"} [] a = "none" -> {} [] a = "other" -> {"other"}
               [] a = "cid+other" -> {"cid", "other"} [] a = "other+cid" -> {"cid", "other"} [] OTHER -> {"other", "other2"}

NonceOK(t, cfg) == CASE cfg.nonce = "nil" -> TRUE
                     [] cfg.nonce = "n1" -> t.nonce = "n1"
                     [] OTHER -> t.nonce = "absent"             \* the default verifier expects an empty nonce
AcrOK(t, cfg) == cfg.acr = "nil" \/ t.acr = "allowed"
AzpOK(t) == /\ (Cardinality(AudSet(t.aud)) > 1 => t.azp # "absent")
            /\ (t.azp # "absent" => t.azp = "cid")
AtHashOK(t) == (t.withAT /\ t.athash # "absent") => t.athash = "correct"

Static(t, cfg) ==
  /\ cfg.via # "rpOIDCslash"          \* the configured issuer is not the one the tokens name
  /\ t.iss = "ok" /\ t.sub = "present" /\ "cid" \in AudSet(t.aud) /\ AzpOK(t)
  /\ NonceOK(t, cfg) /\ AcrOK(t, cfg) /\ AtHashOK(t) /\ t.sig = "good"

\* necessary for acceptance: nothing is violated by MORE than the clock-rounding margin
ValidLoose(c) ==
  LET t == c.tok  cfg == c.cfg IN
  /\ Static(t, cfg)
  /\ t.exp # Absent /\ t.exp > -Margin                                       \* not expired
  /\ ~(t.iat # Absent /\ t.iat >= cfg.offset + Margin)                        \* not issued in the future (beyond the tolerated offset)
  /\ (cfg.maxIAT > 0 => (t.iat # Absent /\ t.iat > -cfg.maxIAT - Margin))     \* not longer ago than the configured maximum
  /\ (cfg.maxAge > 0 => (t.auth # Absent /\ t.auth > -cfg.maxAge - Margin))   \* authentication age

\* sufficient for acceptance: every condition holds WITH margin
ValidStrict(c) ==
  LET t == c.tok  cfg == c.cfg IN
  /\ Static(t, cfg)
  /\ t.exp # Absent /\ t.exp >= cfg.offset + Margin
  /\ t.iat # Absent /\ t.iat <= -Margin
  /\ (cfg.maxIAT > 0 => t.iat >= -cfg.maxIAT + Margin)
  /\ (cfg.maxAge > 0 => (t.auth # Absent /\ t.auth >= -cfg.maxAge + Margin))

-----------------------------------------------------------------------------
(* The code: the chain of checks of rp.VerifyIDToken; a time check within one second of its boundary may go either way. *)
Both == {"accept", "reject"}
TimeCheck(rejectSure, acceptSure) == IF rejectSure THEN {"reject"} ELSE IF acceptSure THEN {"accept"} ELSE Both

Verdicts(c) ==
  LET t == c.tok  cfg == c.cfg
      exp == IF t.exp = Absent THEN {"reject"} ELSE TimeCheck(t.exp <= cfg.offset - 1, t.exp >= cfg.offset + 2)
      iatF == IF t.iat = Absent THEN {"reject"} ELSE TimeCheck(t.iat >= cfg.offset + 2, t.iat <= cfg.offset - 1)
      iatO == IF cfg.maxIAT = 0 \/ t.iat = Absent THEN {"accept"} ELSE TimeCheck(t.iat <= -cfg.maxIAT - 2, t.iat >= -cfg.maxIAT + 1)
      auth == IF cfg.maxAge = 0 THEN {"accept"} ELSE IF t.auth = Absent THEN {"reject"}
              ELSE TimeCheck(t.auth <= -cfg.maxAge - 2, t.auth >= -cfg.maxAge + 1)
      static == /\ cfg.via # "rpOIDCslash" /\ t.sub = "present" /\ t.iss = "ok" /\ "cid" \in AudSet(t.aud) /\ AzpOK(t) /\ t.sig = "good"
                /\ NonceOK(t, cfg) /\ AcrOK(t, cfg) /\ AtHashOK(t)
      times == {exp, iatF, iatO, auth} IN
  IF ~static THEN {"reject"}
  ELSE (IF \E s \in times : "reject" \in s THEN {"reject"} ELSE {}) \cup (IF \A s \in times : "accept" \in s THEN {"accept"} ELSE {})

\* outcomes: [v, claimsOK]  (claimsOK: the returned claims equal the signed ones; TRUE when rejected)
Outcomes(c) == {[v |-> v, claimsOK |-> TRUE] : v \in Verdicts(c)}

Rules(c, o) ==
  { <<"C01.sound",    (o.v = "accept") => ValidLoose(c)>>,
    <<"C01.complete", ValidStrict(c) => o.v = "accept">>,
    <<"C01.claims",   (o.v = "accept") => o.claimsOK>>,
    <<"C09.nopanic",  o.v # "panic">> }
Check(c, o) == {r[1] : r \in {x \in Rules(c, o) : ~x[2]}}
Conforms(c, o) == o.v \in Verdicts(c)
=============================================================================
