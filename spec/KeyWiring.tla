------------------------------ MODULE KeyWiring ------------------------------
(***************************************************************************)
(* C02 ("under a key of the CONFIGURED key set"): which key set the         *)
(* provider's own verifiers use when the operator configures separate key   *)
(* sets for access tokens and id_token_hints (op.WithAccessTokenKeySet,     *)
(* op.WithIDTokenHintKeySet).  Case = options x kind of token x who signed  *)
(* it x router; observed at /userinfo (JWT access token) and /end_session   *)
(* (id_token_hint).                                                         *)
(***************************************************************************)
EXTENDS Naturals, Sequences, FiniteSets, TLC, FiniteSetsExt, Functions, SequencesExt

CONSTANT Tier
Groups == {"none", "at", "hint", "both"}          \* which of the two options the provider was built with
CasesOf(g) == {[opts |-> g, kind |-> k, by |-> b, router |-> r] : k \in {"at", "hint"}, b \in {"storage", "atKey", "hintKey", "foreign"}, r \in {"P", "L"}}

Configured(c) == IF c.kind = "at" THEN (IF c.opts \in {"at", "both"} THEN "atKey" ELSE "storage")
                 ELSE (IF c.opts \in {"hint", "both"} THEN "hintKey" ELSE "storage")
Rules(c, o) ==
  { <<"C02.wiring.sound",    (o.v = "accept") => c.by = Configured(c)>>,
    <<"C02.wiring.complete", (c.by = Configured(c)) => o.v = "accept">>,
    <<"C09.nopanic", o.v # "panic">> }
Check(c, o) == {x[1] : x \in {y \in Rules(c, o) : ~y[2]}}
Outcomes(c) == {[v |-> IF c.by = Configured(c) THEN "accept" ELSE "reject"]}
Conforms(c, o) == TRUE
=============================================================================
