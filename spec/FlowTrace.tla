----------------------------- MODULE FlowTrace -----------------------------
(* Monitor: replays a log recorded from the real relying party and the real provider through Flow!Apply and evaluates        *)
(* Flow!Check on every event.                                                                                                *)
EXTENDS Flow, Json, FiniteSetsExt, SequencesExt
VARIABLE l
Trace == ndJsonDeserialize("trace.ndjson")
TInit == FInit0 /\ fcfg = [router |-> "P", pkce |-> FALSE] /\ l = 1
TStep ==
  /\ l <= Len(Trace)
  /\ LET e == Trace[l] IN
       IF e.op = "Reset"
       THEN /\ jar' = [p \in Pairs |-> "none"] /\ atts' = Empty /\ sess' = [p \in Pairs |-> NoSess] /\ dead' = {} /\ deadRT' = {}
            /\ owner' = Empty /\ devs' = Empty /\ fcfg' = e.cfg /\ UNCHANGED fviol
       ELSE Apply(e) /\ fviol' = fviol \cup {<<l, r>> : r \in Check(e)} /\ UNCHANGED fcfg
  /\ l' = l + 1
TFinish ==
  /\ l = Len(Trace) + 1
  /\ ndJsonSerialize("viol.ndjson", <<[lines |-> Len(Trace), violations |-> Cardinality(fviol)]>> \o SetToSeq({[line |-> v[1], rule |-> v[2]] : v \in fviol}))
  /\ l' = l + 1 /\ UNCHANGED fvars
TSpec == TInit /\ [][TStep \/ TFinish]_<<fvars, l>>
=============================================================================
