------------------------------ MODULE FlowMBT ------------------------------
(* Behaviours of FlowDesign with a history variable, printed as JSON for the Go replay on the real RP and the real OP.       *)
(* Shaping happens inside Next (one uniformly chosen event per enabled operation), so every emitted behaviour is one of      *)
(* FlowDesign.                                                                                                               *)
EXTENDS FlowDesign, Json
CONSTANT Depth
VARIABLE hist
MInit == Init /\ hist = <<>>
MNext == cnt.n < MaxSteps /\ \E op \in Ops :
            /\ StepsOf(op) # {}
            /\ \E e \in {RandomElement(StepsOf(op))} : Do(e) /\ hist' = Append(hist, e)
MSpec == MInit /\ [][MNext]_<<dvars, hist>>
Emit == Len(hist) < Depth \/ PrintT(<<"BEH", ToJson([cfg |-> fcfg, steps |-> hist])>>)
=============================================================================
