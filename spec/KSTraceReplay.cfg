SPECIFICATION TSpec
INVARIANT NoViolation
CHECK_DEADLOCK FALSE
