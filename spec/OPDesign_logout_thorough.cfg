SPECIFICATION Spec
CONSTANTS
  Routers = {"P", "L"}
  Ops = {"Authorize", "Login", "Callback", "CodeExchange", "EndSession"}
  MaxReq = 2
  MaxCode = 2
  MaxAT = 2
  MaxDev = 0
  MaxSteps = 99
  Seeded = FALSE
  Vary = {"post", "refresh", "dyn"}
  Narrow = FALSE
INVARIANT NoViolation
VIEW View
CHECK_DEADLOCK FALSE
