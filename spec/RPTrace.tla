------------------------------ MODULE RPTrace ------------------------------
(* Monitor: replays a log recorded from the real RP handlers through RP!Apply and evaluates RP!Check on every event. *)
EXTENDS RP, Json, FiniteSetsExt, SequencesExt
VARIABLE l
Trace == ndJsonDeserialize("trace.ndjson")
TInit == RInit0 /\ cfg = [pkce |-> FALSE, via |-> "oauth", disc |-> "s256"] /\ l = 1
TStep ==
  /\ l <= Len(Trace)
  /\ LET e == Trace[l] IN
       IF e.op = "Reset"
       THEN jar' = [b \in Browsers |-> NoJar] /\ nAtt' = 0 /\ cfg' = e.cfg /\ UNCHANGED rviol
       ELSE Apply(e) /\ rviol' = rviol \cup {<<l, r>> : r \in Check(e)} /\ UNCHANGED cfg
  /\ l' = l + 1
TFinish ==
  /\ l = Len(Trace) + 1
  /\ ndJsonSerialize("viol.ndjson", <<[lines |-> Len(Trace), violations |-> Cardinality(rviol)]>> \o SetToSeq({[line |-> v[1], rule |-> v[2]] : v \in rviol}))
  /\ l' = l + 1 /\ UNCHANGED rvars
TSpec == TInit /\ [][TStep \/ TFinish]_<<rvars, l>>
=============================================================================
