SPECIFICATION Spec
CONSTANTS
  Routers = {"P", "L"}
  Ops = {"Authorize", "Login", "Callback", "CodeExchange", "Refresh", "Withdraw"}
  MaxReq = 2
  MaxCode = 2
  MaxAT = 4
  MaxDev = 0
  MaxSteps = 99
  Seeded = FALSE
  Vary = {"post", "refresh"}
  Narrow = FALSE
INVARIANT NoViolation
VIEW View
CHECK_DEADLOCK FALSE
