------------------------------ MODULE KSMBT ------------------------------
(* Schedules of KSDesign for the gate scheduler: the history of events of a  *)
(* random walk, printed as JSON.                                            *)
EXTENDS KSMC, Json

CONSTANT Depth
VARIABLE hist

\* a step of KSDesign together with the event it performed
Step(e) == Do(e) /\ hist' = Append(hist, e)

MStart(c) == Pc(c) = "idle" /\ \E t \in TokOf[c] : Step(Ev("Start", [c |-> c, tok |-> t]))
MCacheRead(c) == Pc(c) = "started" /\ Step(Ev("CacheRead", [c |-> c, n |-> Cardinality(cache)]))
MEndCached(c) == Pc(c) = "read" /\ CachedRes(c) # "miss" /\ Step(Ev("End", [c |-> c, res |-> CachedRes(c)]))
MJoin(c) == Pc(c) = "read" /\ CachedRes(c) = "miss" /\ (inflight = 0 => ngen < MaxGen) /\ Step(Ev("Join", [c |-> c, created |-> (inflight = 0)]))
MWaitDone(c) == Pc(c) = "joined" /\ gens[calls[c].joined].signalled /\ Step(Ev("WaitDone", [c |-> c]))
MWaitCancelled(c) == Pc(c) = "joined" /\ calls[c].cancelled /\ ~gens[calls[c].joined].signalled /\ Step(Ev("WaitCancelled", [c |-> c]))
MEndRemote(c) == \/ Pc(c) = "waitdone" /\ Step(Ev("End", [c |-> c, res |-> RemoteRes(c)]))
                 \/ Pc(c) = "waitcancelled" /\ Step(Ev("End", [c |-> c, res |-> "cancelled"]))
MCancel(c) == Cancels /\ Has(calls, c) /\ calls[c].pc \notin {"done", "waitdone", "waitcancelled"} /\ ~calls[c].cancelled /\ Step(Ev("Cancel", [c |-> c]))
MAnswer(g) == Has(gens, g) /\ ~gens[g].answered /\ Step(Ev("Answer", [g |-> g]))
MFetchEnd(g) == Has(gens, g) /\ gens[g].answered /\ ~gens[g].fetched
                /\ Step(Ev("FetchEnd", [g |-> g, ok |-> (gens[g].mode = "ok"), n |-> Cardinality(gens[g].keys)]))
MSignal(g) == Has(gens, g) /\ gens[g].fetched /\ ~gens[g].signalled /\ Step(Ev("Signal", [g |-> g]))
MCommit(g) == Has(gens, g) /\ gens[g].signalled /\ ~gens[g].committed
              /\ Step(Ev("Commit", [g |-> g, ok |-> gens[g].ok, n |-> Cardinality(IF gens[g].ok THEN gens[g].keys ELSE cache)]))
MRotate == server.ver < 1 + MaxRot /\ server.ver < MaxVersion /\ Step(Ev("Rotate", [ver |-> server.ver + 1]))
MSetMode == Faults /\ modeFlips < 2 /\ Step(Ev("SetMode", [mode |-> IF server.mode = "ok" THEN "fail" ELSE "ok"]))

MInit == Init /\ hist = <<>>
MNext == \/ \E c \in Callers : (MStart(c) \/ MCacheRead(c) \/ MEndCached(c) \/ MJoin(c) \/ MWaitDone(c) \/ MWaitCancelled(c)
                                 \/ MEndRemote(c) \/ MCancel(c)) /\ UNCHANGED modeFlips
         \/ \E g \in 1..MaxGen : (MAnswer(g) \/ MFetchEnd(g) \/ MSignal(g) \/ MCommit(g)) /\ UNCHANGED modeFlips
         \/ MRotate /\ UNCHANGED modeFlips
         \/ MSetMode /\ modeFlips' = modeFlips + 1
MSpec == MInit /\ [][MNext]_<<dvars, hist>>

Quiescent == \A c \in DOMAIN calls : calls[c].pc = "done"
Emit == (Len(hist) < Depth /\ ~(Len(hist) >= 6 /\ Quiescent /\ inflight = 0 /\ DOMAIN calls = Callers))
          \/ PrintT(<<"BEH", ToJson([steps |-> hist])>>)
=============================================================================
