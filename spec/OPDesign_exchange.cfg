SPECIFICATION Spec
CONSTANTS
  Routers = {"P", "L"}
  Ops = {"TokenExchange", "Expire"}
  MaxReq = 1
  MaxCode = 1
  MaxAT = 4
  MaxDev = 0
  MaxSteps = 99
  Seeded = TRUE
  Vary = {"policy"}
  Narrow = TRUE
INVARIANT NoViolation
VIEW View
CHECK_DEADLOCK FALSE
