SPECIFICATION Spec
CONSTANTS
  Routers = {"P", "L"}
  Ops = {"Authorize", "Login", "Callback", "CodeExchange", "EndSession"}
  MaxReq = 1
  MaxCode = 1
  MaxAT = 1
  MaxDev = 0
  MaxSteps = 99
  Seeded = FALSE
  Vary = {"post", "refresh", "dyn"}
  Narrow = FALSE
INVARIANT NoViolation
VIEW View
CHECK_DEADLOCK FALSE
