--------------------------- MODULE OPEmitWorld ---------------------------
(* One-step spec that writes OPWorld!World as JSON for the Go harness. *)
EXTENDS OPWorld, Json
VARIABLE done
Init == done = FALSE
Next == /\ ~done /\ JsonSerialize("world.json", World) /\ done' = TRUE
Spec == Init /\ [][Next]_done
=============================================================================
