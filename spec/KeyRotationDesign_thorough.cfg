SPECIFICATION Spec
CONSTANT Tier = "thorough"
INVARIANT NoViolation
INVARIANT EmitCase
CHECK_DEADLOCK FALSE
