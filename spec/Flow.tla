------------------------------- MODULE Flow -------------------------------
(***************************************************************************)
(* The closed loop: the library's own Relying Party (rp.NewRelyingPartyOIDC *)
(* + rp.AuthURLHandler / rp.CodeExchangeHandler, rp.Userinfo, rp.RefreshTokens,*)
(* rp.RevokeToken, rp.EndSession, rp.DeviceAuthorization / DeviceAccessToken,*)
(* rs.Introspect) talking to the library's own OpenID Provider (either      *)
(* router) - discovery, remote key set, ID-token verification and all.      *)
(*                                                                          *)
(* State: per (browser, relying party) the login attempt whose signed       *)
(* cookies the browser holds and the session (tokens) the application got;  *)
(* per attempt how far it got at the provider; which tokens are dead at the *)
(* provider; device flows.  Events carry their outcome (as in OP.tla /      *)
(* RP.tla): FlowDesign fixes it with Decide, FlowTrace takes it from a log  *)
(* recorded from the real RP and the real OP.                               *)
(***************************************************************************)
EXTENDS Naturals, Sequences, FiniteSets, TLC, Functions

Browsers == {"b1", "b2"}
\* relying parties = registered clients of OPWorld: cw (client_secret_basic, opaque access tokens), cx (client_secret_post, JWT access
\* tokens, clock skew), cj (private_key_jwt, JWT access tokens), cp (public native client, custom-scheme redirect URI, PKCE always)
RPs == {"cw", "cx", "cj", "cp"}
Users == {"u1", "u2@idp.example"}

Confidential(rp) == rp # "cp"
HasPostLogout(rp) == rp # "cp"          \* cp registered no post-logout URI: the provider's default logout URI is used
\* rp.RevokeToken sends client_id / client_secret only: a private_key_jwt client cannot authenticate with it
CanRevoke(rp) == rp # "cj"
\* the device grant is registered for cx, cj and cp
HasDevice(rp) == rp \in {"cx", "cj", "cp"}

VARIABLES
  fcfg,    \* [router : {"P","L"}, pkce : BOOLEAN]   (pkce: the confidential RPs use PKCE too)
  jar,     \* <<browser, rp>> |-> attempt whose state (and verifier) cookie the browser holds, or "none"
  atts,    \* attempt |-> [b, rp, mode, req, user, code, redeemed]   mode: the response_mode the relying party asked for ("query" | "form_post")
  sess,    \* <<browser, rp>> |-> [at, rt, sub, idt]   what the application holds for this browser ("none" = nothing)
  dead,    \* access tokens dead at the provider (revoked, expired, session ended)
  deadRT,  \* refresh tokens dead at the provider (rotated, revoked, session ended)
  owner,   \* token name |-> [sub, rp]
  devs,    \* device flow |-> [rp, status, sub]
  fviol

fvars == <<fcfg, jar, atts, sess, dead, deadRT, owner, devs, fviol>>
Empty == [x \in {} |-> 0]
Has(f, k) == k \in DOMAIN f
NoSess == [at |-> "none", rt |-> "none", sub |-> "none", idt |-> FALSE]
Pairs == Browsers \X RPs

FInit0 == /\ jar = [p \in Pairs |-> "none"] /\ atts = Empty /\ sess = [p \in Pairs |-> NoSess]
          /\ dead = {} /\ deadRT = {} /\ owner = Empty /\ devs = Empty /\ fviol = {}

UsesPKCE(rp) == rp = "cp" \/ fcfg.pkce

AddOwner(f, name, sub, rp) == IF name = "none" THEN f ELSE (name :> [sub |-> sub, rp |-> rp]) @@ f

Apply(e) ==
  LET a == e.args  o == e.out IN
  CASE e.op = "Start" ->
         /\ jar'  = IF o.class = "redirect" THEN [jar EXCEPT ![<<a.b, a.rp>>] = o.att] ELSE jar
         /\ atts' = IF o.class = "redirect"
                    THEN (o.att :> [b |-> a.b, rp |-> a.rp, mode |-> a.mode, req |-> FALSE, user |-> "none", code |-> FALSE, redeemed |-> FALSE]) @@ atts
                    ELSE atts
         /\ UNCHANGED <<sess, dead, deadRT, owner, devs>>
    [] e.op = "Authorize" ->
         /\ atts' = IF Has(atts, a.att) /\ o.class = "login" THEN [atts EXCEPT ![a.att].req = TRUE] ELSE atts
         /\ UNCHANGED <<jar, sess, dead, deadRT, owner, devs>>
    [] e.op = "Login" ->
         /\ atts' = IF Has(atts, a.att) /\ o.class = "ok" THEN [atts EXCEPT ![a.att].user = a.user] ELSE atts
         /\ UNCHANGED <<jar, sess, dead, deadRT, owner, devs>>
    [] e.op = "OPCallback" ->
         /\ atts' = IF Has(atts, a.att) /\ o.class = "code" THEN [atts EXCEPT ![a.att].code = TRUE] ELSE atts
         /\ UNCHANGED <<jar, sess, dead, deadRT, owner, devs>>
    [] e.op = "RPCallback" ->
         LET rp == IF Has(atts, a.att) THEN atts[a.att].rp ELSE a.rp IN
         \* the handler deletes the state cookie once the state check passed
         /\ jar'  = IF o.stateChecked THEN [jar EXCEPT ![<<a.b, rp>>] = "none"] ELSE jar
         /\ sess' = IF o.class = "tokens" THEN [sess EXCEPT ![<<a.b, rp>>] = [at |-> o.at, rt |-> o.rt, sub |-> o.sub, idt |-> o.idt]] ELSE sess
         /\ atts' = IF o.class = "tokens" /\ Has(atts, a.att) THEN [atts EXCEPT ![a.att].redeemed = TRUE] ELSE atts
         /\ owner' = IF o.class = "tokens" THEN AddOwner(AddOwner(owner, o.at, o.sub, rp), o.rt, o.sub, rp) ELSE owner
         /\ UNCHANGED <<dead, deadRT, devs>>
    [] e.op = "Refresh" ->
         LET s == sess[<<a.b, a.rp>>] IN
         /\ deadRT' = IF o.class = "tokens" THEN deadRT \cup {s.rt} ELSE deadRT
         /\ sess'   = IF o.class = "tokens" THEN [sess EXCEPT ![<<a.b, a.rp>>] = [at |-> o.at, rt |-> o.rt, sub |-> o.sub, idt |-> s.idt]] ELSE sess
         /\ owner'  = IF o.class = "tokens" THEN AddOwner(AddOwner(owner, o.at, o.sub, a.rp), o.rt, o.sub, a.rp) ELSE owner
         /\ UNCHANGED <<jar, atts, dead, devs>>
    [] e.op = "Revoke" ->
         LET s == sess[<<a.b, a.rp>>] IN
         \* the harness storage revokes, with a refresh token, the access token that was issued together with it
         /\ dead'   = IF o.class = "ok" THEN dead \cup {s.at} ELSE dead
         /\ deadRT' = IF o.class = "ok" /\ a.kind = "rt" THEN deadRT \cup {s.rt} ELSE deadRT
         /\ UNCHANGED <<jar, atts, sess, owner, devs>>
    [] e.op = "Expire" ->
         /\ dead' = dead \cup {sess[<<a.b, a.rp>>].at}
         /\ UNCHANGED <<jar, atts, sess, deadRT, owner, devs>>
    [] e.op = "EndSession" ->
         \* a successful logout ends the session of (subject, client) at the provider: every token of that session dies
         LET s == sess[<<a.b, a.rp>>]
             mine == {t \in DOMAIN owner : owner[t].sub = s.sub /\ owner[t].rp = a.rp} IN
         /\ dead'   = IF o.class = "redirect" THEN dead \cup mine ELSE dead
         /\ deadRT' = IF o.class = "redirect" THEN deadRT \cup mine ELSE deadRT
         /\ UNCHANGED <<jar, atts, sess, owner, devs>>
    [] e.op = "TokenExchange" ->
         LET s == sess[<<a.b, a.rp>>] IN
         /\ owner' = IF o.class = "tokens" THEN AddOwner(owner, o.at, o.sub, a.rp) ELSE owner
         /\ UNCHANGED <<jar, atts, sess, dead, deadRT, devs>>
    [] e.op = "DeviceStart" ->
         /\ devs' = IF o.class = "device" THEN (o.dc :> [rp |-> a.rp, status |-> "pending", sub |-> "none"]) @@ devs ELSE devs
         /\ UNCHANGED <<jar, atts, sess, dead, deadRT, owner>>
    [] e.op = "DeviceApprove" ->
         /\ devs' = IF Has(devs, a.dc) /\ o.class = "ok" THEN [devs EXCEPT ![a.dc].status = "done", ![a.dc].sub = a.user] ELSE devs
         /\ UNCHANGED <<jar, atts, sess, dead, deadRT, owner>>
    [] e.op = "DevicePoll" ->
         /\ UNCHANGED devs      \* whether an approved device code may be redeemed again is the storage's decision (the harness storage allows it)
         /\ owner' = IF o.class = "tokens" /\ Has(devs, a.dc) THEN AddOwner(owner, o.at, o.sub, devs[a.dc].rp) ELSE owner
         /\ UNCHANGED <<jar, atts, sess, dead, deadRT>>
    [] OTHER -> UNCHANGED <<jar, atts, sess, dead, deadRT, owner, devs>>      \* Userinfo, Introspect: no abstract effect

-----------------------------------------------------------------------------
(* Rules, named after the listed property they spell out for the closed loop. *)

RulesStart(a, o) ==
  { <<"C17.flow.authurl", (o.class = "redirect") => (o.client /\ o.redirect /\ o.scopes /\ o.stateCookie)>>,
    <<"C17.flow.pkce",    (o.class = "redirect") => (o.challenge = IF UsesPKCE(a.rp) THEN "s256ofCookieVerifier" ELSE "none")>>,
    <<"C17.flow.starts",  o.class = "redirect">> }

\* the authorization request a relying party builds from the discovery document is one the provider it discovered accepts
RulesAuthorize(a, o) ==
  { <<"C17.flow.accepted", Has(atts, a.att) => o.class = "login">> }

RulesOPCallback(a, o) ==
  LET t == atts[a.att] IN
  { \* the code arrives by the channel the relying party asked for: in the query of a redirect, or in an auto-submitting form (form_post)
    <<"C11.flow.channel",   (o.class = "code" /\ Has(atts, a.att)) => o.channel = IF t.mode = "form_post" THEN "form" ELSE "query">>,
    <<"C17.flow.code",      (Has(atts, a.att) /\ t.req /\ t.user # "none") => (o.class = "code" /\ o.stateEcho /\ o.target)>>,
    <<"C17.flow.codeLogin", (o.class = "code") => (Has(atts, a.att) /\ t.req /\ t.user # "none")>> }

RulesRPCallback(a, o) ==
  LET known == Has(atts, a.att)
      t == atts[a.att]
      rp == IF known THEN t.rp ELSE a.rp
      bound == known /\ jar[<<a.b, rp>>] = a.att
      fitting == bound /\ t.code /\ ~t.redeemed IN
  { <<"C17.flow.bound",        (o.class = "tokens" \/ o.tokenRequests > 0) => bound>>,
    <<"C17.flow.unauthorized", (~bound) => (o.class = "unauthorized" /\ o.tokenRequests = 0)>>,
    <<"C17.flow.tokens",       (o.class = "tokens") => (known /\ t.code /\ ~t.redeemed /\ o.sub = t.user /\ o.atSub = t.user /\ o.client = rp /\ o.idt)>>,
    \* every token the provider issues in the code flow passes the relying party's own verification (discovery, remote key set, at_hash ...)
    <<"C17.flow.complete",     fitting => o.class = "tokens">>,
    \* ... by whichever channel the response travelled (C11 seen end to end: state and code arrive intact at the relying party)
    <<"C11.flow.delivered",    fitting => (o.class = "tokens" /\ o.stateToApp)>> }

Live(p) == sess[p].at # "none" /\ sess[p].at \notin dead
LiveRT(p) == sess[p].rt # "none" /\ sess[p].rt \notin deadRT

RulesUserinfo(a, o) ==
  LET p == <<a.b, a.rp>> IN
  { <<"C08.flow.userinfo.live",    (o.class = "claims") => (Live(p) /\ a.claim = "own" /\ o.sub = sess[p].sub)>>,
    <<"C08.flow.userinfo.served",  (Live(p) /\ a.claim = "own") => o.class = "claims">>,
    \* rp.Userinfo is told whose claims it expects: claims of another subject are an error, not a value
    <<"C08.flow.userinfo.subject", (a.claim = "other") => o.class # "claims">> }

\* the tokens of cx are meant for two resource servers, cx itself is not in their audience: it is never told that they are active
InOwnAudience(rp) == rp # "cx"
RulesIntrospect(a, o) ==
  LET p == <<a.b, a.rp>> IN
  { <<"C08.flow.introspect.live",     (o.class = "active") => (Live(p) /\ o.sub = sess[p].sub)>>,
    <<"C08.flow.introspect.audience", (o.class = "active") => InOwnAudience(a.rp)>>,
    <<"C08.flow.introspect.served",   (Live(p) /\ Confidential(a.rp) /\ InOwnAudience(a.rp)) => o.class = "active">> }

RulesRefresh(a, o) ==
  LET p == <<a.b, a.rp>> IN
  { <<"C07.flow.refresh.live",   (o.class = "tokens") => (LiveRT(p) /\ o.sub = sess[p].sub /\ o.atSub = sess[p].sub /\ o.rt \notin {"none", sess[p].rt})>>,
    <<"C07.flow.refresh.served", LiveRT(p) => o.class = "tokens">> }

RulesRevoke(a, o) ==
  LET p == <<a.b, a.rp>>
      has == IF a.kind = "at" THEN sess[p].at # "none" ELSE sess[p].rt # "none" IN
  { <<"C08.flow.revoke.served", (has /\ CanRevoke(a.rp)) => o.class = "ok">> }

RulesEndSession(a, o) ==
  LET p == <<a.b, a.rp>> IN
  { <<"C08.flow.logout.served", sess[p].idt => (o.class = "redirect" /\ o.state)>>,
    <<"C08.flow.logout.target", (o.class = "redirect" /\ sess[p].idt) => o.target = IF HasPostLogout(a.rp) THEN "registered" ELSE "default">> }

\* tokenexchange.ExchangeToken with the session's access token as subject token; only cw is registered for the grant
HasExchange(rp) == rp = "cw"
RulesTokenExchange(a, o) ==
  LET p == <<a.b, a.rp>> IN
  { <<"C15.flow.exchange.live",   (o.class = "tokens") => (Live(p) /\ HasExchange(a.rp) /\ o.sub = sess[p].sub /\ o.issuedType = "access")>>,
    <<"C15.flow.exchange.served", (Live(p) /\ HasExchange(a.rp)) => o.class = "tokens">> }

\* rp.ClientCredentials on a relying party that also serves logins: none of the four clients is registered for the grant - the provider
\* refuses - and the call leaves the relying party as it was (the next authorization URL still carries the configured scopes: C17.flow.authurl)
RulesClientCreds(a, o) ==
  { <<"C05.flow.clientcreds", o.class # "tokens">> }

RulesDeviceStart(a, o) ==
  { <<"C16.flow.device.served", HasDevice(a.rp) => (o.class = "device" /\ o.uriOnIssuer)>>,
    <<"C16.flow.device.grant",  (o.class = "device") => HasDevice(a.rp)>> }

RulesDevicePoll(a, o) ==
  LET known == Has(devs, a.dc)  d == devs[a.dc] IN
  { <<"C16.flow.poll.approved", (o.class = "tokens") => (known /\ d.status = "done" /\ d.rp = a.rp)>>,
    \* the tokens carry the approving user's subject and the scopes the device asked for (openid among them: an ID token comes along)
    <<"C16.flow.poll.subject",  (o.class = "tokens" /\ known) => (o.sub = d.sub /\ o.atSub = d.sub /\ o.scopesOK /\ o.idt)>>,
    \* class "timeout": the harness' own deadline ended the polling helper before its first poll was answered - nothing was observed
    <<"C16.flow.poll.served",   (known /\ d.status = "done" /\ d.rp = a.rp) => o.class \in {"tokens", "timeout"}>>,
    <<"C16.flow.poll.pending",  (known /\ d.status = "pending" /\ d.rp = a.rp) => o.class \in {"pending", "timeout"}>> }

Rules(e) ==
  CASE e.op = "Start"       -> RulesStart(e.args, e.out)
    [] e.op = "Authorize"   -> RulesAuthorize(e.args, e.out)
    [] e.op = "OPCallback"  -> RulesOPCallback(e.args, e.out)
    [] e.op = "RPCallback"  -> RulesRPCallback(e.args, e.out)
    [] e.op = "Userinfo"    -> RulesUserinfo(e.args, e.out)
    [] e.op = "Introspect"  -> RulesIntrospect(e.args, e.out)
    [] e.op = "Refresh"     -> RulesRefresh(e.args, e.out)
    [] e.op = "Revoke"      -> RulesRevoke(e.args, e.out)
    [] e.op = "EndSession"  -> RulesEndSession(e.args, e.out)
    [] e.op = "TokenExchange" -> RulesTokenExchange(e.args, e.out)
    [] e.op = "ClientCreds" -> RulesClientCreds(e.args, e.out)
    [] e.op = "DeviceStart" -> RulesDeviceStart(e.args, e.out)
    [] e.op = "DevicePoll"  -> RulesDevicePoll(e.args, e.out)
    [] OTHER -> {}

Check(e) == {r[1] : r \in {x \in Rules(e) \cup {<<"C09.nopanic", e.out.class # "panic">>} : ~x[2]}}
=============================================================================
