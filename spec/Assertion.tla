----------------------------- MODULE Assertion -----------------------------
(***************************************************************************)
(* C14 (first half): a JWT used for private_key_jwt client authentication   *)
(* or as a jwt-bearer grant counts only when it is signed with a key the    *)
(* storage holds for the client named as issuer, targets this provider,     *)
(* is fresh, and (by default) has sub = iss; the authenticated identity is  *)
(* exactly that issuer.                                                     *)
(*                                                                          *)
(* Storage: client A holds keys a1 (RSA, kid ka1), a2 (EC, ka2), a3 (OKP,   *)
(* ka3); client B holds b1 (EC, kb1); key u (EC, ku) is held for nobody.    *)
(* A case is [a, cfg, probe].  Entry points: op.VerifyJWTAssertion with the *)
(* case's configuration; grant_type=jwt-bearer and an authorization-code    *)
(* exchange with client_assertion on both routers (provider settings:       *)
(* max age 1 h, offset 1 s, the case's subject check).  The code exchange   *)
(* is an identity probe: the code was issued to the `probe` client.         *)
(***************************************************************************)
EXTENDS Integers, Sequences, FiniteSets, TLC, FiniteSetsExt, Functions

CONSTANT Tier
Absent == -999999
Margin == 2

KeyInfo == [a1 |-> [owner |-> "A", kid |-> "ka1", type |-> "RSA"], a2 |-> [owner |-> "A", kid |-> "ka2", type |-> "EC"],
            a3 |-> [owner |-> "A", kid |-> "ka3", type |-> "OKP"], b1 |-> [owner |-> "B", kid |-> "kb1", type |-> "EC"],
            u  |-> [owner |-> "nobody", kid |-> "ku", type |-> "EC"]]
TypeOfAlg(alg) == CASE alg \in {"RS256", "PS256"} -> "RSA" [] alg = "ES256" -> "EC" [] alg = "EdDSA" -> "OKP" [] OTHER -> "none"
DefaultAlgs == {"RS256", "ES256", "PS256"}       \* oidc.CheckSignature(..., nil, ...)

Dims == [
  iss  |-> {"A", "B", "unknown", "none"},
  sub  |-> {"iss", "other"},
  aud  |-> {"issuer", "issuer+x", "x", "none", "issuerSlash"},
  exp  |-> {3600, -3, 4, Absent},
  iat  |-> {-3, 4, -7, -13, -3597, -3603, Absent},
  by   |-> DOMAIN KeyInfo,
  kid  |-> {"ka1", "ka2", "ka3", "kb1", "ku", "none"},
  alg  |-> {"RS256", "PS256", "ES256", "EdDSA", "HS256", "none"},
  edit |-> {"none", "otherclaims"} ]

Bases == { [iss |-> "A", sub |-> "iss", aud |-> "issuer", exp |-> 3600, iat |-> -3, by |-> "a1", kid |-> "ka1", alg |-> "RS256", edit |-> "none"],
           [iss |-> "A", sub |-> "iss", aud |-> "issuer", exp |-> 3600, iat |-> -3, by |-> "a2", kid |-> "ka2", alg |-> "ES256", edit |-> "none"],
           [iss |-> "B", sub |-> "iss", aud |-> "issuer", exp |-> 3600, iat |-> -3, by |-> "b1", kid |-> "kb1", alg |-> "ES256", edit |-> "none"] }
Dev1(S) == S \cup UNION {UNION {{[t EXCEPT ![f] = v] : v \in Dims[f]} : f \in DOMAIN Dims} : t \in S}

\* offset: the verifier's clock-skew offset (seconds); it makes the verifier stricter about exp (an assertion must outlive now + offset)
\* and more lenient about iat - it never makes an EXPIRED assertion acceptable
Cfgs == [subject : {"default", "delegation"}, maxAge : {3600, 10}, offset : {0, 10}]
\* prior: what the same verifier / the same provider did immediately before: nothing, or it accepted a fitting assertion of the OTHER client
\* (the registered client that the observed assertion does not name as issuer).  Verification of an assertion is a function of the
\* assertion, the keys the storage holds and the clock; verdicts and rules do not mention prior.
Groups == (Cfgs \X {"iss", "sub"} \X {"none"}) \cup (Cfgs \X {"iss"} \X {"otherClient"})
CasesOf(g) ==
  LET d1 == Dev1(Bases)  d2 == Dev1(d1) IN
  {[a |-> a, cfg |-> g[1], probe |-> g[2], prior |-> g[3]] : a \in (IF Tier = "quick" THEN (IF g[3] = "none" THEN d2 ELSE d1) ELSE (IF g[3] = "none" THEN Dev1(d2) ELSE d2))}

-----------------------------------------------------------------------------
Other(c) == IF c = "A" THEN "B" ELSE "A"
IssClient(a) == IF a.iss \in {"A", "B"} THEN a.iss ELSE "nobody"
SubClient(a) == IF a.sub = "iss" THEN IssClient(a) ELSE Other(a.iss)
ProbeClient(c) == LET p == IF c.probe = "iss" THEN IssClient(c.a) ELSE SubClient(c.a) IN IF p = "nobody" THEN "A" ELSE p

(* ---- the property sentence ---- *)
Fresh(a, maxAge, offset, m) ==       \* m = +Margin: necessary (loose) ; m = -Margin: sufficient (strict)
  /\ a.exp # Absent /\ (IF m > 0 THEN a.exp > -m ELSE a.exp >= offset - m)
  /\ a.iat # Absent
  /\ (IF m > 0 THEN a.iat < offset + m ELSE a.iat <= m)
  /\ (IF m > 0 THEN a.iat > -maxAge - m ELSE a.iat >= -maxAge - m)

Signed(a) ==
  /\ a.iss \in {"A", "B"} /\ KeyInfo[a.by].owner = a.iss            \* a key the storage holds for the client named as issuer
  /\ a.kid = KeyInfo[a.by].kid
  /\ a.alg \in DefaultAlgs /\ TypeOfAlg(a.alg) = KeyInfo[a.by].type
  /\ a.edit = "none"
Targets(a) == a.aud \in {"issuer", "issuer+x"}
SubjectOK(a, cfg) == cfg.subject = "delegation" \/ a.sub = "iss"

MayAccept(a, cfg, maxAge, offset)  == Signed(a) /\ Targets(a) /\ SubjectOK(a, cfg) /\ Fresh(a, maxAge, offset, Margin)
MustAccept(a, cfg, maxAge, offset) == Signed(a) /\ Targets(a) /\ SubjectOK(a, cfg) /\ Fresh(a, maxAge, offset, -Margin)

(* ---- the code: op.VerifyJWTAssertion ---- *)
Both == {"accept", "reject"}
TimeCheck(rejectSure, acceptSure) == IF rejectSure THEN {"reject"} ELSE IF acceptSure THEN {"accept"} ELSE Both
Verdicts(a, cfg, maxAge, offset) ==
  LET exp  == IF a.exp = Absent THEN {"reject"} ELSE TimeCheck(a.exp <= offset - 1, a.exp >= offset + 2)
      iatF == IF a.iat = Absent THEN {"reject"} ELSE TimeCheck(a.iat >= offset + 2, a.iat <= offset - 1)
      iatO == IF a.iat = Absent THEN {"accept"} ELSE TimeCheck(a.iat <= -maxAge - 2, a.iat >= -maxAge + 1)
      static == Targets(a) /\ SubjectOK(a, cfg) /\ Signed(a)
      times == {exp, iatF, iatO} IN
  IF ~static THEN {"reject"}
  ELSE (IF \E s \in times : "reject" \in s THEN {"reject"} ELSE {}) \cup (IF \A s \in times : "accept" \in s THEN {"accept"} ELSE {})

HTTPMaxAge == 3600
HTTPOffset == 1

\* outcome: [verify, bearerP, bearerL, codeP, codeL, introP, introL] each [v, identity]  (identity: the client the provider took the caller for)
\* tenantX: the jwt-bearer grant at the second tenant of a provider whose issuer follows the request host (op.IssuerFromHost) and whose
\* first tenant has been used before: there "issuer" is the second tenant's issuer and the other audience "x" is the first tenant's
\* introX: introspection of a live token of the probe client; the request carries the assertion and names the probe client as client_id;
\* only a caller in the token's audience (= the probe client) is told that the token is active
Outcomes(c) ==
  LET a == c.a
      direct == {[v |-> v, identity |-> IF v = "accept" THEN a.iss ELSE "none"] : v \in Verdicts(a, c.cfg, c.cfg.maxAge, c.cfg.offset)}
      http   == Verdicts(a, c.cfg, HTTPMaxAge, HTTPOffset)
      bearer == {[v |-> v, identity |-> IF v = "accept" THEN a.iss ELSE "none"] : v \in http}
      code   == {[v |-> IF v = "accept" /\ ProbeClient(c) = IssClient(a) THEN "accept" ELSE "reject",
                  identity |-> IF v = "accept" /\ ProbeClient(c) = IssClient(a) THEN a.iss ELSE "none"] : v \in http} IN
  {[verify |-> d, bearerP |-> b, bearerL |-> b, codeP |-> k, codeL |-> k, introP |-> k, introL |-> k, tenantP |-> b, tenantL |-> b] : d \in direct, b \in bearer, k \in code}

RulesEntry(e, c, o, maxAge, offset) ==
  { <<"C14.assertion.sound:" \o e,    (o.v = "accept") => MayAccept(c.a, c.cfg, maxAge, offset)>>,
    <<"C14.assertion.identity:" \o e, (o.v = "accept") => o.identity = c.a.iss>>,
    \* C02 names the JWT-profile verifier too: believed only under a key the storage holds for the issuer, fitting the algorithm
    <<"C02.assertion.key:" \o e, (o.v = "accept") => Signed(c.a)>>,
    <<"C09.nopanic:" \o e, o.v # "panic">> }
Rules(c, o) ==
  RulesEntry("verify", c, o.verify, c.cfg.maxAge, c.cfg.offset)
  \cup { <<"C14.assertion.complete:verify", MustAccept(c.a, c.cfg, c.cfg.maxAge, c.cfg.offset) => o.verify.v = "accept">> }
  \cup UNION {RulesEntry(e, c, o[e], HTTPMaxAge, HTTPOffset) : e \in {"bearerP", "bearerL", "codeP", "codeL", "tenantP", "tenantL"}}
  \cup UNION {{ <<"C14.assertion.sound:" \o e, (o[e].v = "accept") => MayAccept(c.a, c.cfg, HTTPMaxAge, HTTPOffset)>>,
               <<"C02.assertion.key:" \o e, (o[e].v = "accept") => Signed(c.a)>>,
               <<"C09.nopanic:" \o e, o[e].v # "panic">> } : e \in {"introP", "introL"}}
  \cup { <<"C14.assertion.complete:" \o e, MustAccept(c.a, c.cfg, HTTPMaxAge, HTTPOffset) => o[e].v = "accept">> : e \in {"bearerP", "bearerL", "tenantP", "tenantL"} }
  \* identity probe: a code issued to the probe client is redeemed only if the assertion authenticates exactly that client
  \cup { <<"C14.assertion.probe:" \o e, (o[e].v = "accept") => ProbeClient(c) = IssClient(c.a)>> : e \in {"codeP", "codeL", "introP", "introL"} }
  \* C05: the token / introspection endpoints act for a private_key_jwt client only on an assertion that is valid for THAT client:
  \* signed with a key the storage holds for it and naming it as issuer - whatever subject a delegation-tolerant verifier lets pass
  \cup { <<"C05.assertion.client:" \o e, (o[e].v = "accept") => (ProbeClient(c) = IssClient(c.a) /\ Signed(c.a))>> : e \in {"codeP", "codeL", "introP", "introL"} }
  \cup { <<"C14.assertion.complete:" \o e, (MustAccept(c.a, c.cfg, HTTPMaxAge, HTTPOffset) /\ ProbeClient(c) = IssClient(c.a)) => o[e].v = "accept">> : e \in {"codeP", "codeL", "introP", "introL"} }
Check(c, o) == {r[1] : r \in {x \in Rules(c, o) : ~x[2]}}
Conforms(c, o) == \E d \in Outcomes(c) : \A e \in DOMAIN d : o[e].v = d[e].v
=============================================================================
