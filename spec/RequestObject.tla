--------------------------- MODULE RequestObject ---------------------------
(***************************************************************************)
(* C14 (second half): parameters of a signed request object (request=...)   *)
(* override the plain query parameters of an authorization request only     *)
(* when the object is signed by the requesting client, names it as issuer,  *)
(* targets this issuer as audience and agrees with the outer client_id and  *)
(* response_type.                                                           *)
(* The outer request is always: client A, response_type code, state/nonce/  *)
(* scope/code_challenge "from the query"; the object carries different      *)
(* values for these four.  Observed per router: was a login started, and    *)
(* where do the four stored values come from (query | obj | mixed).         *)
(* Keys as in Assertion.tla.                                                *)
(***************************************************************************)
EXTENDS Integers, Sequences, FiniteSets, TLC, FiniteSetsExt, Functions

CONSTANT Tier

KeyInfo == [a1 |-> [owner |-> "A", kid |-> "ka1", type |-> "RSA"], a2 |-> [owner |-> "A", kid |-> "ka2", type |-> "EC"],
            a3 |-> [owner |-> "A", kid |-> "ka3", type |-> "OKP"], b1 |-> [owner |-> "B", kid |-> "kb1", type |-> "EC"],
            u  |-> [owner |-> "nobody", kid |-> "ku", type |-> "EC"]]
TypeOfAlg(alg) == CASE alg \in {"RS256", "PS256"} -> "RSA" [] alg = "ES256" -> "EC" [] alg = "EdDSA" -> "OKP" [] OTHER -> "none"
DefaultAlgs == {"RS256", "ES256", "PS256"}

Dims == [
  iss   |-> {"A", "B", "none"},
  cid   |-> {"A", "B", "absent"},            \* client_id claim of the object
  aud   |-> {"issuer", "issuer+x", "x", "none"},
  rtype |-> {"absent", "code", "id_token"},  \* response_type claim of the object (outer: code)
  by    |-> DOMAIN KeyInfo,
  kid   |-> {"ka1", "ka2", "ka3", "kb1", "ku", "none"},
  alg   |-> {"RS256", "PS256", "ES256", "EdDSA", "HS256", "none"},
  edit  |-> {"none", "otherclaims"},
  flag  |-> {TRUE, FALSE},                \* op.Config.RequestObjectSupported
  ruri  |-> {"absent", "registered", "unregistered"},    \* redirect_uri claim of the object: none / another registered URI of A / a URI nobody registered
  quri  |-> {"registered", "unregistered"},              \* redirect_uri parameter of the request itself
  \* PKCE parameters (code_challenge and code_challenge_method travel together): of the query, and of the object
  qpkce |-> {"s256", "absent"},
  opkce |-> {"s256", "plain", "absent"} ]

Bases == { [iss |-> "A", cid |-> "A", aud |-> "issuer", rtype |-> "code", by |-> "a1", kid |-> "ka1", alg |-> "RS256", edit |-> "none", flag |-> TRUE, ruri |-> "absent", quri |-> "registered", qpkce |-> "s256", opkce |-> "s256"],
           [iss |-> "A", cid |-> "A", aud |-> "issuer", rtype |-> "absent", by |-> "a2", kid |-> "ka2", alg |-> "ES256", edit |-> "none", flag |-> TRUE, ruri |-> "absent", quri |-> "registered", qpkce |-> "s256", opkce |-> "s256"],
           \* an object that is perfectly consistent - for ANOTHER client (B) than the one making the request (A)
           [iss |-> "B", cid |-> "B", aud |-> "issuer", rtype |-> "code", by |-> "b1", kid |-> "kb1", alg |-> "ES256", edit |-> "none", flag |-> TRUE, ruri |-> "absent", quri |-> "registered", qpkce |-> "s256", opkce |-> "s256"] }
Dev1(S) == S \cup UNION {UNION {{[t EXCEPT ![f] = v] : v \in Dims[f]} : f \in DOMAIN Dims} : t \in S}

Groups == {"all"}
CasesOf(g) == LET d3 == Dev1(Dev1(Dev1(Bases))) IN IF Tier = "quick" THEN d3 ELSE Dev1(d3)

-----------------------------------------------------------------------------
Outer == "A"
Signed(c) ==
  /\ KeyInfo[c.by].owner = Outer /\ c.kid = KeyInfo[c.by].kid        \* signed by the requesting client
  /\ c.alg \in DefaultAlgs /\ TypeOfAlg(c.alg) = KeyInfo[c.by].type
  /\ c.edit = "none"
\* the statement only forbids; an absent client_id / response_type claim does not disagree with the outer request
MayOverride(c)  == Signed(c) /\ c.iss = Outer /\ c.aud \in {"issuer", "issuer+x"} /\ c.cid \in {Outer, "absent"} /\ c.rtype \in {"absent", "code"}
MustOverride(c) == MayOverride(c) /\ c.cid = Outer /\ c.flag

\* the code: ParseRequestObject (iss must equal the object's client_id claim, so an object without that claim is never accepted)
Accepts(c) == c.cid = Outer /\ c.rtype \in {"absent", "code"} /\ c.iss = c.cid /\ c.aud \in {"issuer", "issuer+x"}
              /\ KeyInfo[c.by].owner = c.iss /\ c.kid = KeyInfo[c.by].kid /\ c.alg \in DefaultAlgs /\ TypeOfAlg(c.alg) = KeyInfo[c.by].type
              /\ c.edit = "none"
\* the object's redirect_uri replaces the query's BEFORE the redirect-URI validation of either router
\* a request that is refused is never answered with a redirect to a URI nobody registered (errTarget: none | registered | unregistered)
\* the PKCE challenge the stored request must carry (C04 builds on it): the object's pair (challenge AND method) when the object
\* overrides and carries one, else the query's pair, else none - never a challenge of one source with the method of the other
StoredPKCE(c, src) == IF src = "obj" /\ c.opkce # "absent" THEN "obj" ELSE IF c.qpkce = "absent" THEN "none" ELSE "query"
Decide(c) == LET eff == IF c.ruri # "absent" THEN c.ruri ELSE c.quri
                 r == IF c.flag /\ Accepts(c) /\ eff = "registered"
                      THEN [class |-> "login", src |-> "obj", uri |-> IF c.ruri = "registered" THEN "objRegistered" ELSE "query", errTarget |-> "none",
                            pkce |-> StoredPKCE(c, "obj")]
                      ELSE [class |-> "refused", src |-> "none", uri |-> "none", errTarget |-> "none", pkce |-> "none"] IN [P |-> r, L |-> r]
Outcomes(c) == {Decide(c)}

RulesRouter(r, c, o) ==
  { <<"C14.reqobj.override:" \o r, (o.class = "login" /\ o.src # "query") => MayOverride(c)>>,
    <<"C14.reqobj.whole:" \o r,    (o.class = "login") => o.src \in {"query", "obj"}>>,     \* never a mixture of both sources
    <<"C14.reqobj.complete:" \o r, (MustOverride(c) /\ (IF c.ruri # "absent" THEN c.ruri ELSE c.quri) = "registered") => (o.class = "login" /\ o.src = "obj")>>,
    <<"C14.reqobj.pkce:" \o r, (o.class = "login" /\ o.src \in {"query", "obj"}) => o.pkce = StoredPKCE(c, o.src)>>,
    \* C04 "whenever the request carried a PKCE code challenge, the presented code_verifier matches it": the challenge the token endpoint
    \* will hold the verifier against is the one - challenge and transformation - of the request as it counts (object over query)
    <<"C04.reqobj.pkce:" \o r, (o.class = "login" /\ o.src \in {"query", "obj"}) => o.pkce = StoredPKCE(c, o.src)>>,
    <<"C14.reqobj.override.uri:" \o r, (o.class = "login" /\ o.uri # "query") => MayOverride(c)>>,
    \* C03: whatever the request (object) contains, the request that is stored - and later answered - names a registered redirect URI
    <<"C03.reqobj.redirect:" \o r, (o.class = "login") => o.uri \notin {"objUnregistered", "queryUnregistered"}>>,
    <<"C03.reqobj.errorTarget:" \o r, o.errTarget # "unregistered">>,
    \* C02 names the request-object verifier too: believed only when signed by a key held for the requesting client
    <<"C02.reqobj.key:" \o r, (o.class = "login" /\ o.src # "query") => Signed(c)>>,
    <<"C09.nopanic:" \o r, o.class # "panic">> }
Rules(c, o) == RulesRouter("P", c, o.P) \cup RulesRouter("L", c, o.L)
Check(c, o) == {r[1] : r \in {x \in Rules(c, o) : ~x[2]}}
Conforms(c, o) == \A r \in {"P", "L"} : o[r].class = Decide(c)[r].class /\ o[r].src = Decide(c)[r].src /\ o[r].uri = Decide(c)[r].uri /\ o[r].pkce = Decide(c)[r].pkce
=============================================================================
