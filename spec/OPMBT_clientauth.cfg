SPECIFICATION MSpec
CONSTANTS
  Routers = {"P", "L"}
  Ops = {"Authorize", "Login", "Callback", "CodeExchange", "Refresh", "Introspect", "Revoke", "DeviceAuthorize", "Approve", "Poll", "ClientCreds", "JWTBearer", "TokenExchange"}
  MaxReq = 3
  MaxCode = 4
  MaxAT = 8
  MaxDev = 3
  MaxSteps = 99
  Seeded = FALSE
  Vary = {"post", "refresh", "caps"}
  Narrow = TRUE
  Depth = 16
INVARIANT Emit
INVARIANT NoViolation
CHECK_DEADLOCK FALSE
