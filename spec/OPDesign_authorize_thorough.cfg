SPECIFICATION Spec
CONSTANTS
  Routers = {"P", "L"}
  Ops = {"Authorize", "Login", "Callback"}
  MaxReq = 3
  MaxCode = 3
  MaxAT = 3
  MaxDev = 0
  MaxSteps = 99
  Seeded = FALSE
  Vary = {}
  Narrow = TRUE
INVARIANT NoViolation
VIEW View
CHECK_DEADLOCK FALSE
