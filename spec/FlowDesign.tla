---------------------------- MODULE FlowDesign ----------------------------
(* Design spec of the closed loop RP <-> OP: the events of Flow.tla with their outcome fixed by what the relying-party helpers  *)
(* and the provider are designed to do.  TLC explores every interleaving of two browsers, the relying parties, login attempts, *)
(* session operations and device flows within the bounds and checks fviol = {} (the rules of Flow.tla) in every state.         *)
EXTENDS Flow

CONSTANTS MaxAttempts, MaxTokens, MaxDevs, MaxSteps, UseRPs, Ops, Modes
VARIABLES cnt        \* [t : attempts, a : access tokens, f : refresh tokens, d : device flows, n : steps]
dvars == <<fvars, cnt>>

N(p, n) == p \o ToString(n)

DecideStart(a) ==
  [class |-> "redirect", att |-> N("t", cnt.t + 1), client |-> TRUE, redirect |-> TRUE, scopes |-> TRUE, stateCookie |-> TRUE,
   challenge |-> IF UsesPKCE(a.rp) THEN "s256ofCookieVerifier" ELSE "none"]

DecideAuthorize(a) == [class |-> IF Has(atts, a.att) THEN "login" ELSE "error"]
DecideLogin(a) == [class |-> IF Has(atts, a.att) /\ atts[a.att].req /\ ~atts[a.att].code THEN "ok" ELSE "noop"]
DecideOPCallback(a) ==
  IF Has(atts, a.att) /\ atts[a.att].req /\ atts[a.att].user # "none" /\ ~atts[a.att].redeemed
  THEN [class |-> "code", stateEcho |-> TRUE, target |-> TRUE, channel |-> IF atts[a.att].mode = "form_post" THEN "form" ELSE "query"]
  ELSE [class |-> "error", stateEcho |-> FALSE, target |-> FALSE, channel |-> "none"]

NoTokensOut(class, checked, reqs) ==
  [class |-> class, sub |-> "none", atSub |-> "none", client |-> "none", at |-> "none", rt |-> "none", idt |-> FALSE, tokenRequests |-> reqs, stateChecked |-> checked,
   stateToApp |-> FALSE]

DecideRPCallback(a) ==
  LET known == Has(atts, a.att)
      t == atts[a.att]
      rp == IF known THEN t.rp ELSE a.rp
      bound == known /\ jar[<<a.b, rp>>] = a.att IN
  IF ~bound THEN NoTokensOut("unauthorized", FALSE, 0)
  ELSE IF t.code /\ ~t.redeemed
       THEN [class |-> "tokens", sub |-> t.user, atSub |-> t.user, client |-> rp, at |-> N("a", cnt.a + 1), rt |-> N("f", cnt.f + 1), idt |-> TRUE,
             tokenRequests |-> 1, stateChecked |-> TRUE, stateToApp |-> TRUE]
       ELSE NoTokensOut("error", TRUE, 1)

DecideUserinfo(a) ==
  LET p == <<a.b, a.rp>> IN
  IF Live(p) /\ a.claim = "own" THEN [class |-> "claims", sub |-> sess[p].sub] ELSE [class |-> "error", sub |-> "none"]

DecideIntrospect(a) ==
  LET p == <<a.b, a.rp>> IN
  IF Live(p) /\ Confidential(a.rp) /\ InOwnAudience(a.rp) THEN [class |-> "active", sub |-> sess[p].sub]
  ELSE [class |-> IF Confidential(a.rp) THEN "inactive" ELSE "error", sub |-> "none"]

DecideRefresh(a) ==
  LET p == <<a.b, a.rp>> IN
  IF LiveRT(p) THEN [class |-> "tokens", sub |-> sess[p].sub, atSub |-> sess[p].sub, at |-> N("a", cnt.a + 1), rt |-> N("f", cnt.f + 1)]
  ELSE [class |-> "error", sub |-> "none", atSub |-> "none", at |-> "none", rt |-> "none"]

DecideRevoke(a) ==
  LET p == <<a.b, a.rp>>
      has == IF a.kind = "at" THEN sess[p].at # "none" ELSE sess[p].rt # "none" IN
  [class |-> IF has /\ CanRevoke(a.rp) THEN "ok" ELSE IF CanRevoke(a.rp) THEN "ok" ELSE "error"]    \* an unknown token is revoked "successfully" too

DecideEndSession(a) ==
  LET p == <<a.b, a.rp>> IN
  IF sess[p].idt THEN [class |-> "redirect", state |-> TRUE, target |-> IF HasPostLogout(a.rp) THEN "registered" ELSE "default"]
  ELSE [class |-> "error", state |-> FALSE, target |-> "none"]

DecideTokenExchange(a) ==
  LET p == <<a.b, a.rp>> IN
  IF Live(p) /\ HasExchange(a.rp) THEN [class |-> "tokens", sub |-> sess[p].sub, at |-> N("a", cnt.a + 1), issuedType |-> "access"]
  ELSE [class |-> "error", sub |-> "none", at |-> "none", issuedType |-> "none"]

DecideDeviceStart(a) ==
  IF HasDevice(a.rp) THEN [class |-> "device", dc |-> N("d", cnt.d + 1), uriOnIssuer |-> TRUE] ELSE [class |-> "error", dc |-> "none", uriOnIssuer |-> FALSE]
DecideDeviceApprove(a) == [class |-> IF Has(devs, a.dc) /\ devs[a.dc].status = "pending" THEN "ok" ELSE "noop"]
DecideDevicePoll(a) ==
  LET none == [class |-> "error", sub |-> "none", atSub |-> "none", at |-> "none", scopesOK |-> FALSE, idt |-> FALSE] IN
  IF ~Has(devs, a.dc) \/ devs[a.dc].rp # a.rp THEN none
  ELSE IF devs[a.dc].status = "done" THEN [class |-> "tokens", sub |-> devs[a.dc].sub, atSub |-> devs[a.dc].sub, at |-> N("a", cnt.a + 1), scopesOK |-> TRUE, idt |-> TRUE]
  ELSE IF devs[a.dc].status = "pending" THEN [none EXCEPT !.class = "pending"]
  ELSE none

Decide(op, a) ==
  CASE op = "Start" -> DecideStart(a) [] op = "Authorize" -> DecideAuthorize(a) [] op = "Login" -> DecideLogin(a)
    [] op = "OPCallback" -> DecideOPCallback(a) [] op = "RPCallback" -> DecideRPCallback(a) [] op = "Userinfo" -> DecideUserinfo(a)
    [] op = "Introspect" -> DecideIntrospect(a) [] op = "Refresh" -> DecideRefresh(a) [] op = "Revoke" -> DecideRevoke(a)
    [] op = "EndSession" -> DecideEndSession(a) [] op = "DeviceStart" -> DecideDeviceStart(a) [] op = "DeviceApprove" -> DecideDeviceApprove(a)
    [] op = "DevicePoll" -> DecideDevicePoll(a) [] op = "ClientCreds" -> [class |-> "error"] [] op = "TokenExchange" -> DecideTokenExchange(a) [] OTHER -> [class |-> "ok"]

Ev(op, a) == [op |-> op, args |-> a, out |-> Decide(op, a)]

Bump(e) ==
  [cnt EXCEPT !.n = @ + 1,
              !.t = IF e.op = "Start" /\ e.out.class = "redirect" THEN @ + 1 ELSE @,
              !.a = IF e.out.class = "tokens" THEN @ + 1 ELSE @,
              !.f = IF e.out.class = "tokens" /\ e.op \in {"RPCallback", "Refresh"} THEN @ + 1 ELSE @,
              !.d = IF e.op = "DeviceStart" /\ e.out.class = "device" THEN @ + 1 ELSE @]

Do(e) == Apply(e) /\ fviol' = fviol \cup {<<r, e.op>> : r \in Check(e)} /\ cnt' = Bump(e) /\ UNCHANGED fcfg

Atts == DOMAIN atts
SessPairs == {p \in Browsers \X UseRPs : sess[p].at # "none"}

StepsOf(op) ==
  CASE op = "Start"      -> IF cnt.t < MaxAttempts THEN {Ev(op, [b |-> b, rp |-> rp, mode |-> m]) : b \in Browsers, rp \in UseRPs, m \in Modes} ELSE {}
    [] op = "Authorize"  -> {Ev(op, [att |-> t]) : t \in {x \in Atts : ~atts[x].req}}
    [] op = "Login"      -> {Ev(op, [att |-> t, user |-> u]) : t \in {x \in Atts : atts[x].req /\ atts[x].user = "none"}, u \in Users}
    [] op = "OPCallback" -> {Ev(op, [att |-> t]) : t \in {x \in Atts : atts[x].req /\ ~atts[x].code}}
    \* any browser presents the callback URL of any attempt that got as far as a code (its own: the fitting callback; another browser's: login CSRF)
    [] op = "RPCallback" -> IF cnt.a < MaxTokens THEN {Ev(op, [b |-> b, att |-> t, rp |-> atts[t].rp]) : b \in Browsers, t \in {x \in Atts : atts[x].code}} ELSE {}
    [] op = "Userinfo"   -> {Ev(op, [b |-> p[1], rp |-> p[2], claim |-> c]) : p \in SessPairs, c \in {"own", "other"}}
    [] op = "Introspect" -> {Ev(op, [b |-> p[1], rp |-> p[2]]) : p \in SessPairs}
    [] op = "Refresh"    -> IF cnt.a < MaxTokens THEN {Ev(op, [b |-> p[1], rp |-> p[2]]) : p \in SessPairs} ELSE {}
    [] op = "TokenExchange" -> IF cnt.a < MaxTokens THEN {Ev(op, [b |-> p[1], rp |-> p[2]]) : p \in SessPairs} ELSE {}
    [] op = "Revoke"     -> {Ev(op, [b |-> p[1], rp |-> p[2], kind |-> k]) : p \in SessPairs, k \in {"at", "rt"}}
    [] op = "Expire"     -> {Ev(op, [b |-> p[1], rp |-> p[2]]) : p \in {q \in SessPairs : Live(q)}}
    [] op = "EndSession" -> {Ev(op, [b |-> p[1], rp |-> p[2]]) : p \in SessPairs}
    [] op = "ClientCreds"   -> {Ev(op, [rp |-> rp]) : rp \in UseRPs}
    [] op = "DeviceStart"   -> IF cnt.d < MaxDevs THEN {Ev(op, [rp |-> rp]) : rp \in UseRPs} ELSE {}
    [] op = "DeviceApprove" -> {Ev(op, [dc |-> d, user |-> u]) : d \in {x \in DOMAIN devs : devs[x].status = "pending"}, u \in Users}
    [] op = "DevicePoll"    -> IF cnt.a < MaxTokens THEN {Ev(op, [rp |-> rp, dc |-> d]) : rp \in UseRPs, d \in DOMAIN devs} ELSE {}
    [] OTHER -> {}

Init == FInit0 /\ fcfg \in [router : {"P", "L"}, pkce : BOOLEAN] /\ cnt = [t |-> 0, a |-> 0, f |-> 0, d |-> 0, n |-> 0]
Next == cnt.n < MaxSteps /\ \E op \in Ops : \E e \in StepsOf(op) : Do(e)
Spec == Init /\ [][Next]_dvars
NoViolation == fviol = {}
\* the router does not change what the design decides: one representative suffices for the exhaustive run
View == <<fcfg.pkce, jar, atts, sess, dead, deadRT, owner, devs, fviol, cnt.t, cnt.a, cnt.f, cnt.d>>
=============================================================================
