SPECIFICATION Spec
CONSTANT Tier = "thorough"
INVARIANT Judge
CHECK_DEADLOCK FALSE
