--------------------------- MODULE RedirectURI ---------------------------
(***************************************************************************)
(* C03, predicate level: which redirect URIs may an authorization request   *)
(* of a given client registration be answered at?                           *)
(*                                                                          *)
(* A case is [reg, uri, rtype, defect].  URIs are records of components;    *)
(* the Go harness concretises them injectively (record equality = string    *)
(* equality).  Allowed(c) is the sentence of the property; Decide(c) is a   *)
(* transcription of op.ValidateAuthReqRedirectURI and of the two routers'   *)
(* /authorize handlers.  TLC checks Rules(c, Decide(c)) for every case      *)
(* (RedirectURIDesign), exports the cases (RedirectURIEmit) and evaluates   *)
(* the same Rules on the outcomes observed on the real code                 *)
(* (RedirectURITrace).                                                      *)
(***************************************************************************)
EXTENDS Naturals, Sequences, FiniteSets, TLC, FiniteSetsExt, Functions

CONSTANT Tier      \* URIs within two component deviations of a registered URI / glob instance;
                   \* "thorough": larger component domains (three ports, four paths, three queries)

U(s, ui, h, p, pa, q, f) == [scheme |-> s, ui |-> ui, host |-> h, port |-> p, path |-> pa, query |-> q, frag |-> f]

Schemes == {"https", "http", "app"}
Hosts   == {"reg", "regUp", "sub.reg", "evil", "localhost", "127.0.0.1", "::1", "localhost.evil"}
Ports   == IF Tier = "quick" THEN {"", "p2"} ELSE {"", "p1", "p2"}
\* "/cb_q=1": the registered path and query "/cb?q=1" with another character in the place of the "?" (no query) - a string that a
\* registered URI would match if it were read as a pattern
\* "/cb/x/y": one more segment below "/cb/x" - what "/cb/*" does not reach ('*' stops at '/')
Paths   == IF Tier = "quick" THEN {"/cb", "/cb/x", "/cb/x/y", "/other", "/cb_q=1"} ELSE {"/cb", "/cb/", "/cb/x", "/cb/x/y", "/other", "/cb_q=1"}
Queries == IF Tier = "quick" THEN {"", "q=1"} ELSE {"", "q=1", "q=2"}
UIs     == {"", "u"}
Frags   == {"", "f"}

AllURIs == {U(s, ui, h, p, pa, q, f) : s \in Schemes, ui \in UIs, h \in Hosts, p \in Ports, pa \in Paths, q \in Queries, f \in Frags}

R1 == U("https", "", "reg", "", "/cb", "", "")
R2 == U("http", "", "reg", "", "/cb", "", "")
R3 == U("http", "", "localhost", "", "/cb", "", "")
R4 == U("http", "", "127.0.0.1", "p1", "/cb", "q=1", "")
R5 == U("app", "", "reg", "", "/cb", "", "")

URISets == {<<R1>>, <<R2>>, <<R3>>, <<R4>>, <<R5>>, <<R1, R3>>, <<R2, R4>>, <<R3, R5>>}

\* globs: "G1" = https://*.client.example/cb ; "G2" = https://client.example/** ; "G3" = http://localhost:*/cb ;
\* "G4" = https://client.example/cb/* (a single trailing star: one more path segment - with whatever query / fragment - and no deeper)
GlobCfgs == {[globs |-> <<>>, optIn |-> FALSE], [globs |-> <<"G1">>, optIn |-> TRUE], [globs |-> <<"G2">>, optIn |-> TRUE],
             [globs |-> <<"G3">>, optIn |-> TRUE], [globs |-> <<"G2">>, optIn |-> FALSE], [globs |-> <<"G4">>, optIn |-> TRUE],
             \* "Gbad" = a malformed pattern ("https://client.example/[") the client opted into: it matches nothing
             [globs |-> <<"Gbad">>, optIn |-> TRUE]}

Regs == {[app |-> a, dev |-> d, uris |-> us, globs |-> g.globs, optIn |-> g.optIn] :
            a \in {"web", "native", "ua"}, d \in BOOLEAN, us \in URISets, g \in GlobCfgs}

RTypes == {"code", "id_token"}
\* what else is wrong with the request (errors raised before / after the URI validation)
Defects == {"none", "noscope", "promptnone+login", "nortype"}

-----------------------------------------------------------------------------
IsLoopbackHost(h) == h \in {"localhost", "127.0.0.1", "::1"}
IsLoopbackURI(u)  == u.scheme \in {"http", "https"} /\ IsLoopbackHost(u.host)

\* doublestar.Match of the three glob patterns, on the component level ('*' does not cross '/',
\* so it swallows a userinfo part but neither port-less hosts of other domains nor paths)
GlobMatch(g, u) ==
  CASE g = "G1" -> u.scheme = "https" /\ u.host = "sub.reg" /\ u.port = "" /\ u.path = "/cb" /\ u.query = "" /\ u.frag = ""
    [] g = "G2" -> u.scheme = "https" /\ u.ui = "" /\ u.host = "reg" /\ u.port = ""
    [] g = "G3" -> u.scheme = "http" /\ u.ui = "" /\ u.host = "localhost" /\ u.port # "" /\ u.path = "/cb" /\ u.query = "" /\ u.frag = ""
    [] g = "G4" -> u.scheme = "https" /\ u.ui = "" /\ u.host = "reg" /\ u.port = "" /\ u.path \in {"/cb/x", "/cb/"}
    [] OTHER -> FALSE

GlobInstance(g) ==
  CASE g = "G1" -> U("https", "", "sub.reg", "", "/cb", "", "")
    [] g = "Gbad" -> U("https", "", "reg", "", "/other", "", "")
    [] g = "G2" -> U("https", "", "reg", "", "/cb/x", "", "")
    [] g = "G4" -> U("https", "", "reg", "", "/cb/x", "", "")
    [] OTHER    -> U("http", "", "localhost", "p2", "/cb", "", "")

(* ---- the property sentence ---- *)
Exact(reg, u) == u \in Range(reg.uris)
ByGlob(reg, u) == reg.optIn /\ \E g \in Range(reg.globs) : GlobMatch(g, u)
\* "for native clients - a loopback address that differs from a registered loopback URI only in scheme, host spelling and port"
LoopbackVariant(reg, u) ==
  /\ reg.app = "native" /\ IsLoopbackURI(u)
  /\ \E r \in Range(reg.uris) : /\ IsLoopbackURI(r)
                                /\ u.path = r.path /\ u.query = r.query /\ u.frag = r.frag /\ u.ui = r.ui
Registered(reg, u) == Exact(reg, u) \/ ByGlob(reg, u) \/ LoopbackVariant(reg, u)
\* "plain-http targets are additionally limited to dev-mode clients, native loopback, and confidential clients using the code flow"
HttpOK(reg, u, rtype) == (u.scheme = "http") => (reg.dev \/ (reg.app = "native" /\ IsLoopbackHost(u.host)) \/ (reg.app = "web" /\ rtype = "code"))
\* "and custom schemes to native clients"
CustomOK(reg, u) == (u.scheme = "app") => reg.app = "native"

\* the response type the request really carries (defect "nortype" = parameter omitted)
Eff(c) == IF c.defect = "nortype" THEN "" ELSE c.rtype

Allowed(c) == Registered(c.reg, c.uri) /\ HttpOK(c.reg, c.uri, Eff(c)) /\ CustomOK(c.reg, c.uri)

(* ---- the code: ValidateAuthReqRedirectURI / validateAuthReqRedirectURINative ---- *)
Match(reg, u) == Exact(reg, u) \/ ByGlob(reg, u)         \* checkURIAgainstRedirects

DecideURI(reg, u, rtype) ==
  IF reg.app = "native"
  THEN IF Match(reg, u)
       THEN reg.dev \/ (~IsLoopbackURI(u) /\ u.scheme = "https") \/ IsLoopbackURI(u) \/ u.scheme = "app"
       ELSE IsLoopbackURI(u) /\ \E r \in Range(reg.uris) : IsLoopbackURI(r) /\ u.path = r.path /\ u.query = r.query
                                                          /\ u.frag = r.frag /\ u.ui = r.ui
  ELSE IF u.scheme = "https" THEN Match(reg, u)
  ELSE Match(reg, u) /\ u.scheme = "http" /\ (reg.dev \/ (rtype = "code" /\ reg.app = "web"))

Resp(class, status, same) == [class |-> class, status |-> status, same |-> same]

\* Provider router: op.Authorize -> ValidateAuthRequestClient (URI first; later failures are redirected)
DecideP(c) ==
  IF ~DecideURI(c.reg, c.uri, Eff(c)) THEN Resp("page", 400, FALSE)
  ELSE IF c.defect = "none" THEN Resp("login", 302, FALSE)
  ELSE Resp("redirErr", 302, TRUE)
\* Server router: webServer.authorize (prompt, scopes, URI, response type; every failure is a JSON error document)
DecideL(c) ==
  IF c.defect \in {"promptnone+login", "noscope"} THEN Resp("json", 400, FALSE)
  ELSE IF ~DecideURI(c.reg, c.uri, Eff(c)) THEN Resp("json", 400, FALSE)
  ELSE IF c.defect = "nortype" THEN Resp("json", 400, FALSE)
  ELSE Resp("login", 302, FALSE)

Decide(c) == [F |-> IF DecideURI(c.reg, c.uri, Eff(c)) THEN "ok" ELSE "refused", P |-> DecideP(c), L |-> DecideL(c)]

(* ---- rules: the same for the design outcome and the observed outcome ---- *)
RulesRouter(r, c, o) ==
  { <<"C03.authorize.target:" \o r,   (o.class \in {"redirErr", "code", "tokens", "form"}) => (Allowed(c) /\ o.same)>>,
    <<"C03.authorize.login:" \o r,    (o.class = "login") => Allowed(c)>>,
    <<"C03.authorize.errorpage:" \o r, (~Allowed(c)) => (o.class \in {"page", "json"} /\ o.status >= 400)>>,
    <<"C09.nopanic:" \o r, o.class # "panic">> }

Rules(c, o) ==
  { <<"C03.predicate", (o.F = "ok") => Allowed(c)>> } \cup RulesRouter("P", c, o.P) \cup RulesRouter("L", c, o.L)

Check(c, o) == {r[1] : r \in {x \in Rules(c, o) : ~x[2]}}

Outcomes(c) == {Decide(c)}
\* conformance with the design's decision procedure (a difference is a DIVERGENCE note, never a verdict)
Conforms(c, o) == LET d == Decide(c) IN o.F = d.F /\ o.P.class = d.P.class /\ o.L.class = d.L.class

-----------------------------------------------------------------------------
Fields == {"scheme", "ui", "host", "port", "path", "query", "frag"}
Dom == [scheme |-> Schemes, ui |-> UIs, host |-> Hosts, port |-> Ports, path |-> Paths, query |-> Queries, frag |-> Frags]
Bases(reg) == Range(reg.uris) \cup {GlobInstance(g) : g \in Range(reg.globs)}
\* URIs that differ from b in at most one / two components (built constructively: filtering AllURIs is far slower in TLC)
Dev1(b) == {b} \cup UNION {{[b EXCEPT ![f] = v] : v \in Dom[f]} : f \in Fields}
Dev2(b) == UNION {Dev1(x) : x \in Dev1(b)}
Near1(reg) == UNION {Dev1(b) : b \in Bases(reg)}
Near2(reg) == UNION {Dev2(b) : b \in Bases(reg)}

\* thorough: the same two-deviation neighbourhood over the larger component domains (the full product of URI components is 2 * 10^6 cases
\* per run, which the monitor cannot read back in reasonable time)
URIsFor(reg) == Near2(reg)

CasesOf(reg) ==
  {[reg |-> reg, uri |-> u, rtype |-> t, defect |-> "none"] : u \in URIsFor(reg), t \in RTypes}
  \cup {[reg |-> reg, uri |-> u, rtype |-> "code", defect |-> d] : u \in Near1(reg), d \in Defects \ {"none"}}

\* the case set is generated group by group (one registration = one group)
Groups == Regs
=============================================================================
