--------------------------- MODULE AuthResponse ---------------------------
(***************************************************************************)
(* C11: the parameters of an authorization response or error arrive at the  *)
(* redirect URI with exactly the values the provider produced and the       *)
(* client sent, in all three response modes; query parameters of the        *)
(* registered redirect URI are preserved; in form_post mode nothing breaks  *)
(* out of its HTML attribute.                                               *)
(*                                                                          *)
(* TLA+ contributes (i) the channel table Channel(mode, rtype, kind), (ii)  *)
(* the parameter set each kind of response carries, (iii) the exhaustive    *)
(* case set: strings as sequences over a class alphabet of delimiter,       *)
(* escape and markup characters.  The law Recover(Deliver(p)) = p itself is *)
(* observed on the real code: the harness decodes the Location query, the   *)
(* Location fragment as a user agent does, or the HTML form with an HTML    *)
(* parser, and reports per parameter whether the recovered value equals the *)
(* sent / produced one.  The monitor judges those observations.             *)
(***************************************************************************)
EXTENDS Naturals, Sequences, FiniteSets, TLC, FiniteSetsExt, Functions, SequencesExt

CONSTANT Tier

\* one representative character per class (the harness maps the names to characters)
Classes == {"a", "plus", "slash", "eq", "amp", "pct", "hash", "qmark", "space", "dquote", "squote", "lt", "gt", "semi", "nonascii", "tab", "pctEnc", "backslash"}
Strings(n) == UNION {[1..k -> Classes] : k \in 0..n}
StateStrings == IF Tier = "quick" THEN Strings(1) \cup {<<x, y>> : x \in {"plus", "amp", "dquote", "pct", "lt", "hash"}, y \in Classes}
                ELSE Strings(2)

Modes  == {"", "query", "fragment", "form_post"}
\* kind of response: code (rtype code), tokens (rtype id_token token), idtoken (rtype id_token),
\* errCallback (callback of a request the user has not completed), errAuthorize (request error raised after URI validation),
\* errStorage (the storage refuses to issue for this request when the callback runs: a plain Go error whose text becomes the
\* error_description, or an *oidc.Error whose description the storage chose - the description is a free string)
\* errCreate (the storage refuses to create the request - prompt=none without a session: login_required; both routers answer with a redirect)
Kinds  == {"code", "tokens", "idtoken", "errCallback", "errAuthorize", "errCreate"}
DescStrings == (IF Tier = "quick" THEN Strings(1) \cup {<<x, y>> : x \in {"pct", "plus", "amp"}, y \in Classes} ELSE Strings(2)) \ {<<>>}
RTypeOf(k, rt) == CASE k = "code" -> "code" [] k = "tokens" -> "id_token token" [] k = "idtoken" -> "id_token" [] OTHER -> rt
\* queryMarkup: a registered redirect URI whose query contains quotes and angle brackets ( ?x="><script>..&y='z' ), registered verbatim
URIShapes == {"plain", "withQuery", "queryPlus", "customScheme", "trailingQ", "queryEncodedAmp", "queryMarkup"}

\* prior: what the provider did just before - "failedWrite": form_post responses (of another flow) whose connection broke while the page was written
Sessions == {<<>>, <<"plus", "slash">>, <<"dquote", "gt">>}
Cases0(u) ==
  {[kind |-> k, mode |-> m, rtype |-> RTypeOf(k, rt), uri |-> u, state |-> s, session |-> ss, producer |-> "", desc |-> <<>>, prior |-> "none"] :
      k \in Kinds, m \in Modes, rt \in {"code", "id_token token"}, s \in StateStrings, ss \in Sessions}
CasesPrior(u) ==
  {[kind |-> k, mode |-> "form_post", rtype |-> RTypeOf(k, "code"), uri |-> u, state |-> s, session |-> ss, producer |-> "", desc |-> <<>>, prior |-> "failedWrite"] :
      k \in {"code", "tokens", "idtoken"}, s \in Strings(1), ss \in Sessions}
CasesDesc(u) ==
  {[kind |-> "errStorage", mode |-> m, rtype |-> rt, uri |-> u, state |-> s, session |-> ss, producer |-> p, desc |-> d, prior |-> "none"] :
      m \in Modes, rt \in {"code", "id_token token"}, s \in {<<>>, <<"amp", "pct">>}, ss \in {<<>>, <<"plus", "slash">>},
      p \in {"plain", "oidc"}, d \in DescStrings}

Groups == URIShapes
CasesOf(u) == Cases0(u) \cup CasesPrior(u) \cup CasesDesc(u)

-----------------------------------------------------------------------------
Success(c) == c.kind \in {"code", "tokens", "idtoken"}
\* AuthResponseCode / AuthResponseToken / AuthRequestError -> AuthResponseURL
Channel(c) ==
  IF Success(c) /\ c.mode = "form_post" THEN "form"
  ELSE IF c.mode = "query" THEN "query"
  ELSE IF c.mode = "fragment" THEN "fragment"
  ELSE IF c.rtype \in {"id_token", "id_token token"} THEN "fragment" ELSE "query"

\* parameters each kind must deliver (besides state / session_state, which depend on the request)
Carries(c) ==
  CASE c.kind = "code"    -> {"code"}
    [] c.kind = "tokens"  -> {"access_token", "id_token", "token_type", "expires_in"}
    [] c.kind = "idtoken" -> {"id_token"}
    [] OTHER              -> {"error"}
\* session_state accompanies code responses and errors (AuthRequestSessionState)
HasSession(c) == c.session # <<>> /\ c.kind \in {"code", "errCallback", "errStorage"}

\* o = [P, L] each [class, channel, target, kept, state, session, params, safe]
\*   class: "response" | "refused" (no redirect at all) | "panic" ; target: "same" iff the response goes to the registered URI ;
\*   kept: the registered query parameters are still there with their values ; state/session: "intact" | "absent" | "changed" ;
\*   params: names of the recovered parameters whose values equal what the provider produced ; safe: form markup intact ;
\*   desc: error_description "intact" (equal to the text the provider produced) | "absent" | "changed"
Expect(c, r) == IF c.kind = "errAuthorize" /\ r = "L" THEN "refused" ELSE "response"    \* webServer.authorize answers request errors as JSON

RulesRouter(r, c, o) ==
  LET resp == o.class = "response" IN
  { <<"C11.channel:" \o r,  resp => o.channel = Channel(c)>>,
    <<"C11.target:" \o r,   resp => o.target = "same">>,
    \* C03: whatever was served before (e.g. a form_post page of ANOTHER client whose connection broke), this response goes to this request's URI
    <<"C03.response.target:" \o r, resp => o.target = "same">>,
    <<"C11.query.preserved:" \o r, resp => o.kept>>,
    <<"C11.state:" \o r,    resp => o.state = (IF c.state = <<>> THEN "absent" ELSE "intact")>>,
    <<"C11.session:" \o r,  (resp /\ HasSession(c)) => o.session = "intact">>,
    <<"C11.params:" \o r,   resp => Carries(c) \subseteq Range(o.params)>>,
    <<"C11.description:" \o r, (resp /\ c.kind = "errStorage") => o.desc = "intact">>,
    <<"C11.markup:" \o r,   resp => o.safe>>,
    <<"C09.nopanic:" \o r,  o.class # "panic">> }
Rules(c, o) == RulesRouter("P", c, o.P) \cup RulesRouter("L", c, o.L)
Check(c, o) == {x[1] : x \in {y \in Rules(c, o) : ~y[2]}}

Good(c, r) == [class |-> Expect(c, r), channel |-> IF Expect(c, r) = "response" THEN Channel(c) ELSE "none", target |-> "same", kept |-> TRUE,
               state |-> IF c.state = <<>> THEN "absent" ELSE "intact", session |-> IF HasSession(c) THEN "intact" ELSE "absent",
               params |-> SetToSeq(Carries(c)), safe |-> TRUE, desc |-> IF c.kind = "errStorage" THEN "intact" ELSE "absent"]
Outcomes(c) == {[P |-> Good(c, "P"), L |-> Good(c, "L")]}
Conforms(c, o) == o.P.class = Expect(c, "P") /\ o.L.class = Expect(c, "L")
=============================================================================
