SPECIFICATION Spec
CONSTANTS
  MaxAttempts = 3
  MaxTokens = 4
  MaxDevs = 2
  MaxSteps = 11
  UseRPs = {"cw", "cj", "cp"}
  Modes = {"query", "form_post"}
  Ops = {"Start", "Authorize", "Login", "OPCallback", "RPCallback", "Userinfo", "Introspect", "Refresh", "Revoke", "Expire", "EndSession", "DeviceStart", "DeviceApprove", "DevicePoll", "TokenExchange"}
INVARIANT NoViolation
VIEW View
CHECK_DEADLOCK FALSE
