SPECIFICATION Spec
CONSTANTS
  MaxAttempts = 3
  MaxTokens = 3
  MaxDevs = 1
  MaxSteps = 11
  UseRPs = {"cw", "cj", "cp"}
  Modes = {"query", "form_post"}
  Ops = {"Start", "Authorize", "Login", "OPCallback", "RPCallback", "Userinfo", "Introspect", "Refresh", "Revoke", "Expire", "EndSession", "DeviceStart", "DeviceApprove", "DevicePoll", "TokenExchange", "ClientCreds"}
INVARIANT NoViolation
VIEW View
CHECK_DEADLOCK FALSE
