SPECIFICATION Spec
CONSTANTS
  MaxAttempts = 2
  MaxTokens = 3
  MaxDevs = 1
  MaxSteps = 9
  UseRPs = {"cw", "cp"}
  Modes = {"query", "form_post"}
  Ops = {"Start", "Authorize", "Login", "OPCallback", "RPCallback", "Userinfo", "Introspect", "Refresh", "Revoke", "Expire", "EndSession", "DeviceStart", "DeviceApprove", "DevicePoll", "TokenExchange"}
INVARIANT NoViolation
VIEW View
CHECK_DEADLOCK FALSE
