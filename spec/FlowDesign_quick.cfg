SPECIFICATION Spec
CONSTANTS
  MaxAttempts = 2
  MaxTokens = 3
  MaxDevs = 1
  MaxSteps = 9
  UseRPs = {"cw", "cp"}
  Ops = {"Start", "Authorize", "Login", "OPCallback", "RPCallback", "Userinfo", "Introspect", "Refresh", "Revoke", "Expire", "EndSession", "DeviceStart", "DeviceApprove", "DevicePoll"}
INVARIANT NoViolation
VIEW View
CHECK_DEADLOCK FALSE
