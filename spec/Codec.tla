------------------------------- MODULE Codec -------------------------------
(***************************************************************************)
(* C12: claims codec and sealing.                                           *)
(*  merge  - Marshal = custom claims overridden by every SET registered     *)
(*           claim; Marshal(Unmarshal(Marshal(x))) = Marshal(x); custom      *)
(*           claims outside the registered names survive.                    *)
(*  decode - the documented tolerant forms decode to their value, every      *)
(*           other form to an error or the zero value - never a panic or a   *)
(*           value the document did not contain.                             *)
(*  seal   - Open(Seal(p, k), k') = p exactly if k' = k.                     *)
(* The tables below (probe names per type, which registered fields are not   *)
(* omitempty, documented forms per field kind) are the model; the harness    *)
(* builds real values / documents for every case and projects what the real  *)
(* json.Marshal / json.Unmarshal / crypto.EncryptAES / DecryptAES did.       *)
(***************************************************************************)
EXTENDS Naturals, Sequences, FiniteSets, TLC, FiniteSetsExt, Functions, SequencesExt

CONSTANT Tier

\* registered claim names probed per type (each is also used as the name of a custom claim)
Probes == [ IDTokenClaims    |-> {"iss", "sub", "aud", "exp", "azp", "nonce", "email", "act", "locale"},
            AccessTokenClaims |-> {"iss", "sub", "aud", "exp", "client_id", "jti", "scope", "act"},
            LogoutTokenClaims |-> {"iss", "sub", "aud", "exp", "jti", "sid"},
            UserInfo          |-> {"sub", "name", "email", "locale", "updated_at"},
            IntrospectionResponse |-> {"active", "scope", "client_id", "username", "sub", "aud", "exp", "iss", "act"},
            JWTProfileAssertionClaims |-> {"iss", "sub", "aud", "exp", "iat"},
            JWTTokenRequest   |-> {"iss", "sub", "aud", "exp", "iat"},
            ActorClaims       |-> {"iss", "sub", "act"} ]
Types == DOMAIN Probes
\* registered fields without omitempty: their zero value is written even when unset
NonOmit == [t \in Types |-> CASE t = "IntrospectionResponse" -> {"active"}
                              [] t = "JWTProfileAssertionClaims" -> {"iss", "sub", "aud", "exp", "iat"}
                              [] t = "JWTTokenRequest" -> {"iss", "sub", "aud", "exp", "iat"}
                              [] OTHER -> {}]

MaxSet == IF Tier = "quick" THEN 2 ELSE 4
Small(S) == {x \in SUBSET S : Cardinality(x) <= MaxSet}
MergeOf(t) == {[kind |-> "merge", t |-> t, regs |-> SetToSeq(r), customs |-> SetToSeq(c)] : r \in Small(Probes[t]), c \in Small(Probes[t])}

\* tolerant decoding: field kind x JSON form
Forms == [ aud     |-> {"string", "array", "emptyarray", "null", "number", "object", "bool", "arrayNonString", "nestedArray"},
           \* farFuture: the usual "never expires" number 253402300799 (9999-12-31T23:59:59Z)
           \* rfc3339*: the same instant written with a numeric zone offset, with a fraction of a second, with both
           time    |-> {"number", "float", "negnumber", "rfc3339", "rfc3339Offset", "rfc3339Frac", "rfc3339FracOffset", "rfc3339FracNegOffset", "farFuture", "badstring", "null", "bool", "object", "array", "bigfloat", "numericString"},
           locale  |-> {"tag", "emptyString", "unknownTag", "unknownSubtag", "unknownScript", "unknownLang", "malformedTag", "number", "null", "object"},
           locales |-> {"spaceDelimited", "array", "withUnknown", "emptyString", "null", "number", "object", "arrayNonString"},
           bool    |-> {"true", "stringTrue", "false", "stringFalse", "stringOther", "number", "null", "object"},
           sda     |-> {"string", "single", "emptyString", "array", "null", "number"} ]
Documented == [ aud     |-> {"string", "array"},
                time    |-> {"number", "float", "negnumber", "rfc3339", "rfc3339Offset", "rfc3339Frac", "rfc3339FracOffset", "rfc3339FracNegOffset", "farFuture"},
                locale  |-> {"tag"},
                locales |-> {"spaceDelimited", "array", "withUnknown"},
                bool    |-> {"true", "stringTrue"},
                sda     |-> {"string", "single"} ]
DecodeCases == UNION {{[kind |-> "decode", field |-> f, form |-> x] : x \in Forms[f]} : f \in DOMAIN Forms}

Plains == {"empty", "idsub", "colons", "multiblock", "utf8", "long"}
\* before: what was opened before the observed Open(s, k'): nothing, the very same sealed string under the key that sealed it, or under
\* yet another key (two providers / tenants with different keys in one process, a key rotation).  Opening is a function of the
\* sealed string and the key - not of what was opened before; the rules do not mention it.
SealCases == {[kind |-> "seal", plain |-> p, key |-> k, via |-> v, before |-> b] : p \in Plains, k \in {"same", "bitflip", "other"}, v \in {"crypto", "op"},
                b \in {"nothing", "sameStringRightKey", "sameStringThirdKey"}}

\* endpoint: the two documents the provider itself encodes from an object the storage filled (userinfo, introspection), on either router:
\* what the storage stated - registered fields and custom claims - is what the HTTP answer contains ("active" is the provider's own)
EndpointTypes == {"UserInfo", "IntrospectionResponse"}
EProbes(t) == Probes[t] \ {"active"}
EndpointCases == UNION {{[kind |-> "endpoint", t |-> t, regs |-> SetToSeq(r), customs |-> SetToSeq(c), router |-> ro] :
                            r \in Small(EProbes(t)), c \in Small(EProbes(t)), ro \in {"P", "L"}} : t \in EndpointTypes}

\* one group per claims type (merge cases), plus the decode, seal and endpoint tables
Groups == Types \cup {"decode", "seal", "endpoint"}
CasesOf(g) == IF g \in Types THEN MergeOf(g) ELSE IF g = "decode" THEN DecodeCases ELSE IF g = "seal" THEN SealCases ELSE EndpointCases

-----------------------------------------------------------------------------
(* merge: o.src / o.back : name |-> "reg" | "custom" | "zero" | "absent" | "other" (first marshal / after a round trip) ;
   o.extra : "kept" | "lost" ; o.stable : Marshal(Unmarshal(Marshal x)) = Marshal x                                  *)
Want(c, n) ==
  IF n \in Range(c.regs) THEN {"reg"}
  ELSE IF n \in Range(c.customs) THEN (IF n \in NonOmit[c.t] THEN {"zero"} ELSE {"custom"})
  ELSE {"absent", "zero"}
RulesMerge(c, o) ==
  { <<"C12.merge.registeredWins", \A n \in Range(c.regs) : o.src[n] = "reg">>,
    <<"C12.merge.customSurvives", \A n \in Range(c.customs) \ Range(c.regs) : o.src[n] \in Want(c, n)>>,
    <<"C12.merge.noInvention",    \A n \in Probes[c.t] \ (Range(c.regs) \cup Range(c.customs)) : o.src[n] \in {"absent", "zero"}>>,
    <<"C12.merge.extraSurvives",  o.extra = "kept">>,
    <<"C12.roundtrip.stable",     o.stable>>,
    \* the document returned by MarshalJSON belongs to the caller: encoding another value does not change it
    <<"C12.marshal.owned",        o.owned>>,
    <<"C12.roundtrip.values",     \A n \in Probes[c.t] : o.back[n] = o.src[n]>>,
    <<"C09.nopanic", ~o.panic>> }

RulesEndpoint(c, o) ==
  { <<"C12.endpoint.registeredWins", o.ok => \A n \in Range(c.regs) : o.src[n] = "reg">>,
    <<"C12.endpoint.customSurvives", o.ok => \A n \in Range(c.customs) \ Range(c.regs) : o.src[n] = "custom">>,
    <<"C12.endpoint.noInvention",    o.ok => \A n \in EProbes(c.t) \ (Range(c.regs) \cup Range(c.customs)) : o.src[n] \in {"absent", "zero"}>>,
    <<"C12.endpoint.extraSurvives",  o.ok => o.extra = "kept">>,
    <<"C12.endpoint.answers",        o.ok>>,
    <<"C09.nopanic", ~o.panic>> }

(* decode: o.v : "value" | "zero" | "error" | "invented" | "panic" *)
RulesDecode(c, o) ==
  { <<"C12.decode.tolerant", (c.form \in Documented[c.field]) => o.v = "value">>,
    <<"C12.decode.otherForms", (c.form \notin Documented[c.field]) => o.v \in {"zero", "error"}>>,
    <<"C09.nopanic", o.v # "panic">> }

(* seal: o.open : "plain" | "different" | "error" ; o.fresh : two seals of one plaintext differ *)
RulesSeal(c, o) ==
  { <<"C12.seal.opens",   (c.key = "same") => o.open = "plain">>,
    <<"C12.seal.onlySameKey", (c.key # "same" /\ c.plain # "empty") => o.open # "plain">>,
    <<"C12.seal.freshIV", o.fresh>>,
    <<"C09.nopanic", o.open # "panic">> }

Rules(c, o) == CASE c.kind = "merge" -> RulesMerge(c, o) [] c.kind = "decode" -> RulesDecode(c, o) [] c.kind = "endpoint" -> RulesEndpoint(c, o) [] OTHER -> RulesSeal(c, o)
Check(c, o) == {x[1] : x \in {y \in Rules(c, o) : ~y[2]}}

\* the design outcome: what the documented behaviour of the codec produces
Good(c) ==
  CASE c.kind = "merge" ->
         LET src == [n \in Probes[c.t] |-> IF n \in Range(c.regs) THEN "reg" ELSE IF n \in Range(c.customs) THEN (IF n \in NonOmit[c.t] THEN "zero" ELSE "custom")
                                           ELSE IF n \in NonOmit[c.t] THEN "zero" ELSE "absent"] IN
         [src |-> src, back |-> src, extra |-> "kept", stable |-> TRUE, owned |-> TRUE, panic |-> FALSE]
    [] c.kind = "decode" -> [v |-> IF c.form \in Documented[c.field] THEN "value" ELSE "error"]
    [] c.kind = "endpoint" ->
         [src |-> [n \in EProbes(c.t) |-> IF n \in Range(c.regs) THEN "reg" ELSE IF n \in Range(c.customs) THEN "custom" ELSE "absent"],
          extra |-> "kept", ok |-> TRUE, panic |-> FALSE]
    [] OTHER -> [open |-> IF c.key = "same" THEN "plain" ELSE "different", fresh |-> TRUE]
Outcomes(c) == {Good(c)}
Conforms(c, o) == IF c.kind = "decode" THEN (o.v = Good(c).v \/ (o.v = "zero" /\ Good(c).v = "error")) ELSE TRUE
=============================================================================
