SPECIFICATION Spec
CONSTANTS
  MaxAttempts = 4
  MaxSteps = 9
INVARIANT NoViolation
VIEW View
CHECK_DEADLOCK FALSE
